"""C01 - Broker operations never lose or duplicate a message (inductive invariant: every operation moves the token by an allowed transfer, atomically)."""
from __future__ import annotations

import ast

from .. import flow
from ..engine import Ctx
from ..model import dotted, unparse
from . import common as C
from .brokers import (
    inmem_consume_rules,
    inmem_event,
    inmem_transfer_atomic,
    own_rules,
    rabbit_rules,
    redis_op_fields,
    redis_source_rules,
    redis_txn_rules,
    terminal_callers_rule,
    redis_queue_names,
)

SUMMARY = ("Token conservation per operation over all CFG paths, cancellation atomicity at await granularity (MULTI/EXEC on Redis), "
           "reject-to-source, ownership of the places.")
DECIDED = [
    "R-C01-TRANSFER: for each of the 5 broker operations x 3 backends and for consume/finish, the multiset of place events on every path is one of the allowed "
    "transfers (enqueue: +waiting|+delayed; ack: -held; nack: -held +dead; reject: -held +source; requeue: -held +waiting|+delayed with the new payload/params and the "
    "same key; consume: -place +held, overdue -> +dead, foreign -> back), keyed by the same message",
    "R-C01-ATOMIC: no suspension point lies between the removal and the re-insertion of one transfer (in-memory); on Redis all place changes of an operation are "
    "buffered on one transactional pipeline with exactly one awaited execute()",
    "R-C01-SOURCE: the take path records where a message came from and reject's insertion place depends on that record (Redis marker n/d/dead; in-memory must exist)",
    "R-OWN: place-mutating calls occur only inside their broker package; Redis keys are built only by qnc/mnc; terminal operations are called only from the known owners",
    "R-C01-TRANSFER (names, gate): every Redis list / sorted-set name built for a message carries that message's priority (one named exception: the orphan clean-up); dead-lettering on delivery happens only for NORMAL consumers (C12's gate rules reused: a nack from a DELAYED/DEAD reader has no dead-letter target)",
    "R-C01-TRANSFER (round 4): RabbitMQ consume() returns a completed queue.get() before anything else in that iteration; the in-memory delayed->waiting promotion reads the clock once and removes exactly what it promoted (C05's CMP rules reused)",
    "R-C01-TRANSFER / R-C01-SOURCE (round 5): categories are compared by equality (str-Enum: the plain string value is an accepted category); the maintenance age test reads the clock like every other expiry test (clock family)",
    "R-C01-TRANSFER (round 6 + sweep): RabbitMQ contract tables - delivery decision table (eight rows of guard atoms -> bounce | dead-letter | remember tag and hand out, on every path), lifecycle (queue of the category, manual ack, prefetch windows, consumer tag, flags, cancel, drain), details (headers guard, id kept, key fields, priority default, known tags rejected, fast-path guard, pending helper tasks cancelled, cancellation re-raised, re-subscription), enqueue contract (TTL iff due time ahead, delayed queue iff TTL, mandatory, confirmation, channel accessor, dead-letter topology); the Redis fetch hands out only names read in this call and keeps nothing; finish() rejects exactly its own buffered deliveries",
    "R-C01-AWAITED: no asynchronous operation is created and dropped in the anchored files (every property has this rule under its own id)",
    "R-C01-TRANSFER / R-C01-SOURCE (Redis sweep rules): key constructors by partial evaluation (qnc / mnc templates per flag row, defaults False); claim flow (no name -> nothing claimed; LREM for lists / ZREM for the delayed set, marked, returned after the transaction; claimed -> data read; complete data only); lifecycle (poll task kept, pause lock protocol, gate, hand-over); defaults only for what is missing (given parameters stored as given; reject uses stored parameters / target; maintenance data guard)",
    "R-C01-SOURCE (sweep stage two): in-memory reject decision table",
]
NOT_DECIDED = ["the whole-history statement under concurrent clients of Redis/RabbitMQ (partly C14)", "server-side behaviour", "'well-behaved client' preconditions"]
ASSUMPTIONS = ["redis-py pipeline(transaction=True) buffers commands and sends them in one MULTI/EXEC on execute()", "asyncio: code between two awaits is atomic"]


def run(ctx: Ctx) -> None:
    from .shared import every_operation_awaited

    every_operation_awaited(ctx, "R-C01-AWAITED")  # in the files this property is anchored in, no asynchronous operation is created and dropped
    from .brokers import inmem_reject_table

    inmem_reject_table(ctx, "R-C01-SOURCE")
    from .brokers import redis_lifecycle

    redis_lifecycle(ctx, "R-C01-TRANSFER")  # Redis consumer: poll task, pause lock protocol, gate, hand-over
    from .brokers import redis_claim_flow

    redis_claim_flow(ctx, "R-C01-TRANSFER")  # the Redis take, guard by guard (no name -> nothing claimed; claimed -> removed from the right structure, marked, data read; complete data only)
    from .brokers import redis_name_constructors

    redis_name_constructors(ctx, "R-C01-TRANSFER")  # the Redis key constructors every place rule trusts
    from .brokers import redis_defaults_only_when_missing

    redis_defaults_only_when_missing(ctx, "R-C01-SOURCE")  # Redis reject uses the stored parameters / reject target when present; maintenance returns (not drops) entries that have data
    from .shared import category_equality

    category_equality(ctx, "R-C01-SOURCE")
    inmem_storage(ctx)
    inmem_transfer_atomic(ctx)
    inmem_consume_rules(ctx, rule_a="R-C01-ATOMIC")
    inmem_source(ctx)
    redis_txn_rules(ctx)
    redis_source_rules(ctx)
    redis_op_fields(ctx, "R-C01-TRANSFER")
    redis_orphan(ctx)
    redis_queue_names(ctx, "R-C01-TRANSFER")
    from .C12 import gate

    with ctx.as_rule("R-C01-TRANSFER"):
        gate(ctx)  # dead-lettering on delivery happens only for NORMAL consumers: a nack issued by a DELAYED / DEAD reader has no dead-letter target and destroys the message
    rabbit_rules(ctx)
    from .C05 import compare

    with ctx.as_rule("R-C01-TRANSFER"):
        compare(ctx, "R-C01-TRANSFER")  # the delayed -> waiting promotion moves exactly the entries it removes (one clock reading, selection used for both)
    from .brokers import rabbit_consume_keeps_fetched

    rabbit_consume_keeps_fetched(ctx, "R-C01-TRANSFER")
    from .brokers import rabbit_delivery_table, rabbit_lifecycle

    rabbit_delivery_table(ctx, "R-C01-TRANSFER")
    rabbit_lifecycle(ctx, "R-C01-TRANSFER")
    from .brokers import rabbit_consume_releases_get, rabbit_delivery_details, rabbit_start_fails_loudly

    rabbit_delivery_details(ctx, "R-C01-TRANSFER")
    from .brokers import rabbit_enqueue_contract

    rabbit_enqueue_contract(ctx, "R-C01-TRANSFER")
    rabbit_consume_releases_get(ctx, "R-C01-TRANSFER")  # a leaked getter task swallows the next delivery: that message is in no place
    rabbit_start_fails_loudly(ctx, "R-C01-TRANSFER")
    from .brokers import redis_fetch_reads_server
    from .C03 import finish

    redis_fetch_reads_server(ctx, "R-C01-TRANSFER")
    with ctx.as_rule("R-C01-TRANSFER"):
        finish(ctx, "R-C01-TRANSFER")  # finish() gives back exactly the deliveries this consumer buffered, one reject per message (a batched multiple-nack also requeues what other consumers of the channel hold)
    from .shared import clock_family

    clock_family(ctx, "R-C01-TRANSFER")  # maintenance hands a held message back only when it really timed out: its age is computed with the same clock reading as every other expiry test
    own_rules(ctx)
    terminal_callers_rule(ctx, "R-OWN")


def inmem_source(ctx: Ctx, rule="R-C01-SOURCE") -> None:
    f = ctx.func(f"{C.INMEM_BROKER}.reject")
    g = ctx.icfg(f, exclude=tuple(C.BROKER_OPS))
    adds = [(n, inmem_event(n)) for n in g.calls() if inmem_event(n) and inmem_event(n)[0] == "+"]
    places = sorted({e[1] for _, e in adds})
    reads_source = any("category" in unparse(n.ast) or "taken_from" in unparse(n.ast) or "source" in unparse(n.ast) for n in g.nodes if n.kind in ("test", "call", "store") and n.ast is not None)
    if len(places) == 1 and not reads_source:
        n0 = adds[0][0]
        ctx.fail(rule, f, f"reject inserts into {places[0]} regardless of the category the message was taken from",
                 f"in-memory reject always re-inserts the held message into '{places[0]}' ({unparse(n0.ast)[:60]}): a message taken through the DELAYED or DEAD category and rejected "
                 "lands in the normal queue (reject must return it to the category it was taken from)", node=n0, instance="in-memory reject: source")
    else:
        ctx.check(reads_source and len(places) >= 2, rule, f, "in-memory reject dispatches on the recorded source", f"places {places}",
                  f"in-memory reject inserts into {places} without reading a recorded source", instance="in-memory reject: source")
        # decision table: recorded category -> place the message returns to
        cat_names = {x.id for n in g.nodes if n.kind == "test" and n.ast is not None for x in ast.walk(n.ast) if isinstance(x, ast.Name)} | {"category"}

        def env(cat, due):
            def fn(text, node):
                if isinstance(node, ast.Compare) and isinstance(node.ops[0], ast.Eq):
                    sides = [dotted(node.left) or "", dotted(node.comparators[0]) or ""]
                    lit = [x for x in sides if x.startswith("MessageCategory.")]
                    if lit and any(x.split(".")[-1] in cat_names or "category" in x for x in sides if x not in lit):
                        return lit[0].endswith("." + cat)
                if isinstance(node, ast.Compare) and isinstance(node.ops[0], ast.Is) and C.is_const(node.comparators[0], None) and isinstance(node.left, ast.Name) \
                        and any("wait_until" in unparse(x) for x in C.expand_locals(f, node.left)):
                    # `delay is None`: the due time of a message taken from the delayed category
                    return (not due) if cat == "DELAYED" else True
                if isinstance(node, ast.Compare) and isinstance(node.ops[0], ast.Is) and C.is_const(node.comparators[0], None) and isinstance(node.left, ast.Name):
                    return False  # the held message was found
                return None
            return {"*cat": fn}

        for cat, due, want in (("NORMAL", False, "waiting"), ("DELAYED", True, "delayed"), ("DEAD", False, "dead")):
            r = flow.reach_under(g, env(cat, due), flow.NORMAL_KINDS)
            got = sorted({e[1] for n, e in adds if n.id in r})
            ctx.check(got == [want], rule, f, f"in-memory reject of a message taken as {cat}", f"-> {want}",
                      f"in-memory reject returns a message that was taken through the {cat} category to {got or 'no place'} instead of '{want}': it changes category by being looked at "
                      "(a rejected delayed message becomes deliverable early, a rejected dead letter comes back to life)", instance=f"in-memory reject: source[{cat}]")
        # the record read is the one consume writes (holder of the message), and it is consumed with the message
        cons = ctx.func(f"{C.INMEM_CONS}.consume")
        rec = [n for n in ast.walk(cons.node) if isinstance(n, ast.Assign) and isinstance(n.targets[0], ast.Subscript) and "holders" in unparse(n.targets[0].value) and dotted(n.value) == "self"]
        reads = [c for c in ast.walk(f.node) if isinstance(c, ast.Call) and isinstance(c.func, ast.Attribute) and c.func.attr in ("pop", "get") and "holders" in unparse(c.func.value)]
        ctx.check(len(rec) == 1 and len(reads) == 1, rule, f, "in-memory reject reads the holder record consume writes", "holders[msg] = self / holders.pop(msg)",
                  "in-memory reject does not read the holder record that consume() writes for every handed-out message", instance="in-memory reject: record agreement")


def redis_orphan(ctx: Ctx, rule="R-C01-TRANSFER") -> None:
    f = ctx.func(f"{C.REDIS_CONS}.__get_message_details")
    pipes = [w for w in ast.walk(f.node) if isinstance(w, ast.AsyncWith)]
    ok = len(pipes) == 1
    if ok:
        cmds = [(c.func.attr, unparse(c.args[0]), unparse(c.args[-1])) for c in ast.walk(pipes[0]) if isinstance(c, ast.Call) and isinstance(c.func, ast.Attribute) and dotted(c.func.value) == "pipe"
                and c.func.attr != "execute"]
        ok = sorted(cmds) == sorted([("zrem", "self.broker.processing_queue", "msg_short_name"), ("lpush", "qnc(self.queue_name, dead=True)", "msg_short_name")]) or \
            (len(cmds) == 2 and {c[0] for c in cmds} == {"zrem", "lpush"} and all(c[2] == "msg_short_name" for c in cmds) and any("dead=True" in c[1] for c in cmds))
        ex = [c for c in ast.walk(pipes[0]) if isinstance(c, ast.Call) and dotted(c.func) == "pipe.execute"]
        ok = ok and len(ex) == 1
    ctx.check(ok, rule, f, "redis orphan-data branch: -held +dead of the same name in one transaction", "zrem(processing, name); lpush(dead, name); execute",
              "redis __get_message_details: a name without data is not moved from processing to dead in one transaction", instance="redis orphan branch")


def inmem_storage(ctx: Ctx, rule="R-C01-TRANSFER") -> None:
    """The places themselves: per-queue, created once, never silently replaced."""
    dq = ctx.prog.cls("repid.connections.in_memory.utils.DummyQueue")
    for name in ("simple", "delayed", "dead", "processing"):
        v = dq.attrs.get(name)
        ok = isinstance(v, ast.Call) and dotted(v.func) == "field" and C.kw(v, "default_factory") is not None and C.kw(v, "default") is None
        ctx.check(ok, rule, dq.qualname, f"DummyQueue.{name} has its own container per queue", "field(default_factory=...)",
                  f"DummyQueue.{name} is declared as {unparse(v) if v is not None else 'missing'}: without a default_factory every queue shares one container, so messages of different queues mix",
                  instance=f"DummyQueue.{name} per instance")
    f = ctx.func(f"{C.INMEM_BROKER}.queue_declare")
    g = ctx.cfg(f)
    creates = [n for n in g.nodes if n.kind == "store" and isinstance(n.ast, ast.Subscript) and dotted(n.ast.value) == "self.queues"]
    ctx.require(bool(creates), f"{f.qualname}: queue creation not found")

    def env(exists):
        def fn(text, node):
            if isinstance(node, ast.Compare) and isinstance(node.ops[0], ast.In) and dotted(node.comparators[0]) == "self.queues":
                return exists
            return None
        return {"*q": fn}

    r = flow.reach_under(g, env(True), flow.NORMAL_KINDS)
    ctx.check(not any(c.id in r for c in creates), rule, f, "declaring an existing queue keeps its messages", "creation only when the queue does not exist",
              "in-memory queue_declare replaces an existing queue by an empty one: every declare (the worker declares its queues on each start) drops all waiting, delayed, dead and in-flight messages",
              instance="queue_declare idempotent")
    r = flow.reach_under(g, env(False), flow.NORMAL_KINDS)
    ctx.check(all(c.id in r for c in creates), rule, f, "declaring a new queue creates it", "created", "in-memory queue_declare does not create a missing queue", instance="queue_declare creates")
    init = ctx.func(f"{C.INMEM_CONS}.__init__")
    st = [n for n in ast.walk(init.node) if isinstance(n, ast.Assign) and any(dotted(t) == "self._queue" for t in n.targets)]
    ok = len(st) == 1 and C.utext(init, st[0].value) == "broker.queues[queue_name]"
    ctx.check(ok, rule, init, "consumer reads the broker's queue of its own name", "broker.queues[queue_name]", f"in-memory consumer binds its queue to {unparse(st[0].value) if st else '?'}", instance="consumer queue binding")
    for op in ("enqueue", "ack", "nack", "reject", "requeue"):
        of = ctx.func(f"{C.INMEM_BROKER}.{op}")
        subs = {C.utext(o, s_.slice) for o, s_ in C.flat_walk(ctx, of) if isinstance(s_, ast.Subscript) and dotted(s_.value) == "self.queues"}
        ctx.check(subs == {"key.queue"}, rule, of, f"in-memory {op} works on the queue named by the key", "self.queues[key.queue]", f"in-memory {op} indexes the queues with {sorted(subs)}",
                  instance=f"in-memory {op}: queue selection")
