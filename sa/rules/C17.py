"""C17 - Middleware only observes."""
from __future__ import annotations

import ast

from .. import flow
from ..cfg import handler_classes
from ..engine import Ctx
from ..model import dotted, unparse
from . import common as C
from .shared import _mentions, await_map

SUMMARY = "Event protocol of the wrapper (before / call / after), context isolation, wrapped-method table, subscriber isolation, emitter ownership."
DECIDED = [
    "R-C17-PROTOCOL: in _middleware_wrapper.__call__ the nested / no-emitter branch emits nothing and calls the function once; the other "
    "branch emits exactly one before_<name>, then runs the function once, then emits exactly one after_<name> carrying result, returns "
    "the function's value, has no handler around the call and hands *args/**kwargs over unmodified (signals get a copy)",
    "R-C17-CONTEXT: the nesting flag is set only inside the coroutine that __call__ runs through create_task (fresh context), never in the caller's context",
    "R-C17-TABLE: WRAPPED = union of the three __WRAPPED_METHODS__ + actor_run; each name is an abstract method of its ABC and implemented "
    "by every concrete class; instances wrap exactly those methods in __new__",
    "R-C17-ISOLATE: the subscriber wrapper encloses the subscriber call in `except Exception` that does not re-raise and cannot raise itself "
    "(constant log message with extra); emit_signal awaits only those wrappers",
    "R-C17-EMITTER-OWN: _repid_signal_emitter is stored only on wrapper objects created per instance, never on a class-level decorated "
    "function shared by all instances; brokers/consumers/processors take the emitter of their own connection",
    "R-C17-ISOLATE (signature): subscriber kwargs are filtered by the subscriber's own signature, not the asyncify wrapper's; R-C17-TABLE (names): every implementation of a wrapped operation keeps the declared parameter names",
    "R-C17-PROTOCOL (wrapped only): the unwrapped _actor_run is referenced only where it is wrapped",
    "R-C17-EMITTER-OWN (round 5): the wiring loop over emitters has no break / return (every emitter gets its subscribers)",
    "R-C17-PROTOCOL / R-C17-CONTEXT (round 6): after_<op> is not reachable from the exception / cancellation edges of the wrapped run; consume() spawns no task that performs broker operations",
    "R-C17-AWAITED: in the files this property is anchored in, no bare statement calls a coroutine function (the operation would never run)",
]
NOT_DECIDED = ["subscriber slowness", "argument fidelity for exotic call styles as values"]
ASSUMPTIONS = ["asyncio.create_task copies the current context: a ContextVar set inside the task does not leak to the caller"]

WRAPPER = "repid.middlewares.wrapper._middleware_wrapper"
MIDDLEWARE = "repid.middlewares.middleware.Middleware"
ABC = "repid.connections.abc"


def run(ctx: Ctx) -> None:
    from .shared import every_operation_awaited

    every_operation_awaited(ctx, "R-C17-AWAITED")  # in the files this property is anchored in, no asynchronous operation is created and dropped
    protocol(ctx)
    after_only_on_success(ctx)
    from .brokers import no_spawn_inside_wrapped

    no_spawn_inside_wrapped(ctx, "R-C17-CONTEXT")
    wrapped_only(ctx)
    context(ctx)
    table(ctx)
    isolate(ctx)
    emitter_own(ctx)


def after_only_on_success(ctx: Ctx, rule="R-C17-PROTOCOL") -> None:
    """after_<op> reports a completed operation and carries its result: it is not emitted when the operation raised or was cancelled (there is no result; subscribers would see
    after_consume(result=None) on every worker shutdown and after_enqueue for a message that was never enqueued)."""
    f = ctx.func(f"{WRAPPER}.__call__")
    g = ctx.icfg(f, exclude=("call_set_context", "fn"), substitute=True)  # an extracted `_emit(stage, kwargs)` helper is part of the protocol
    task_names = {t.id for st in ast.walk(f.node) if isinstance(st, ast.Assign) and isinstance(st.value, ast.Call) and (dotted(st.value.func) or "").endswith("create_task") for t in st.targets if isinstance(t, ast.Name)}
    runs = [n for n in g.nodes if n.kind == "await" and n.func is f and n.ast is not None and (
        any(isinstance(c, ast.Call) and (dotted(c.func) or "").endswith(("create_task", "call_set_context")) for c in ast.walk(n.ast))
        or any(isinstance(c, ast.Name) and c.id in task_names for c in ast.walk(n.ast)))]
    afters = [n.id for n in g.calls() if (n.callee or "").endswith("_repid_signal_emitter") and n.ast.args and "after" in unparse(n.ast.args[0])]
    ctx.require(bool(afters) and bool(runs), f"{f.qualname}: after-signal emission not found")
    bad = False
    for r in runs:
        ab = [d for d, k in g.succ[r.id] if k in ("exc", "cancel")]
        if set(afters) & flow.reach(g, ab, flow.ALL_KINDS, include_start=True):
            bad = True
    ctx.check(not bad, rule, f, "after_<op> only after the operation completed", "not reachable from the failing / cancelled run",
              "_middleware_wrapper.__call__ emits after_<op> also when the wrapped operation raised or was cancelled (e.g. from a finally block): subscribers receive after_ signals with result=None "
              "for operations that never happened", instance="protocol: after only on success")


def protocol(ctx: Ctx, rule="R-C17-PROTOCOL") -> None:
    f = ctx.func(f"{WRAPPER}.__call__")
    g = ctx.icfg(f, exclude=("call_set_context", "fn"), substitute=True)  # an extracted `_emit(stage, kwargs)` helper is part of the protocol
    aw = await_map(g)

    def emit_tag(n) -> str:
        """'before_' / 'after_' for f"before_{self.name}" (constant pieces folded, e.g. after substituting a helper's `stage` parameter)."""
        a0 = n.ast.args[0] if n.ast.args else None
        a0 = C.inline_locals(n.func, a0) if a0 is not None else None
        if isinstance(a0, ast.BinOp) and isinstance(a0.op, ast.Add):  # "before_" + self.name
            a0 = ast.JoinedStr(values=[x if isinstance(x, ast.Constant) else ast.FormattedValue(value=x, conversion=-1) for x in (a0.left, a0.right)])
        if not isinstance(a0, ast.JoinedStr):
            return "?"
        parts: list = []
        for v in a0.values:
            piece = v.value if isinstance(v, ast.Constant) else (v.value.value if isinstance(v, ast.FormattedValue) and isinstance(v.value, ast.Constant) and isinstance(v.value.value, str) else None)
            if piece is not None:
                if parts and isinstance(parts[-1], str):
                    parts[-1] += piece
                else:
                    parts.append(piece)
            else:
                parts.append(v)
        if not parts or not isinstance(parts[0], str):
            return "?"
        tag = parts[0]
        rest = parts[1:]
        if not (len(rest) == 1 and isinstance(rest[0], ast.FormattedValue) and dotted(rest[0].value) == "self.name"):
            tag += "<not self.name>"
        return tag

    def sym(n):
        if n.meta.get("inlined"):
            return None
        if n.kind == "call":
            d = n.callee or ""
            if d.endswith("_repid_signal_emitter"):
                return ("emit", emit_tag(n), "awaited" if n.id in aw else "NOT-awaited")
            if d == "self.fn":
                return ("call", unparse(n.ast)[len("self.fn"):])
            if d == "self.call_set_context":
                return ("call", unparse(n.ast)[len("self.call_set_context"):])
        if n.kind == "return" and n.func is f:
            return ("return", unparse(n.ast.value) if n.ast.value is not None else "")
        return None

    def env(nested: bool, no_emitter: bool):
        def fn(text, node):
            if isinstance(node, ast.Call) and (dotted(node.func) or "").endswith("IsInsideMiddleware.get"):
                return nested
            if isinstance(node, ast.Compare) and isinstance(node.ops[0], ast.Is) and _mentions(node.left, "_repid_signal_emitter") \
                    and isinstance(node.comparators[0], ast.Constant) and node.comparators[0].value is None:
                return no_emitter
            return None
        return {"*mw": fn}

    for nested, noem in ((True, False), (False, True), (True, True)):
        trs = flow.traces(g, sym, loop_bound=1, env=env(nested, noem))
        ok = bool(trs) and all(len(t) == 3 and t[0] == ("call", "(*args, **kwargs)") and t[1][0] == "return" and t[2] == "$exit" for t in trs)
        ctx.check(ok, rule, f, f"nested={nested}, emitter {'unset' if noem else 'set'}: no signals, one call",
                  "the function is called once with *args, **kwargs and nothing is emitted",
                  f"_middleware_wrapper.__call__ with nested={nested}, emitter {'unset' if noem else 'set'} has event sequences {sorted(trs, key=str)[:3]} "
                  "(expected: exactly one self.fn(*args, **kwargs), no emits)", instance=f"protocol[nested={nested},noemitter={noem}]")
    trs = flow.traces(g, sym, loop_bound=1, env=env(False, False))
    want = [("emit", "before_", "awaited"), ("call", "(*args, **kwargs)"), ("emit", "after_", "awaited")]
    ok = bool(trs) and all(list(t[:3]) == want and t[3][0] == "return" and t[4] == "$exit" and len(t) == 5 for t in trs)
    ctx.check(ok, rule, f, "outermost call with emitter: before -> call -> after -> return", "exactly one before, one call, one after, in that order",
              f"_middleware_wrapper.__call__ (outermost, emitter set) has event sequences {sorted(trs, key=str)[:3]} instead of "
              "before_<name> -> self.fn(*args, **kwargs) -> after_<name> -> return", instance="protocol[outermost]")
    # the call runs in a child task and its awaited value is what is returned and what `after` carries
    src = ctx.cfg(f)
    ct = [n for n in src.calls() if (n.callee or "").endswith("create_task") and any(isinstance(c, ast.Call) and (dotted(c.func) or "").endswith("call_set_context")
                                                                                     for a in n.ast.args for c in ast.walk(a))]
    task_names = {t.id for n in ast.walk(f.node) if isinstance(n, ast.Assign) and ct and n.value is ct[0].ast for t in n.targets if isinstance(t, ast.Name)}
    awaited_task = ct and (ct[0].id in await_map(src) or any(isinstance(a, ast.Await) and isinstance(a.value, ast.Name) and a.value.id in task_names for a in ast.walk(f.node)))
    ctx.check(len(ct) == 1 and bool(awaited_task), rule, f, "function run through an awaited create_task(self.call_set_context(...))", "fresh context, awaited",
              "__call__ does not run the wrapped function in an awaited child task", instance="protocol: child task awaited")
    if ct:
        inner = [c for a in ct[0].ast.args for c in ast.walk(a) if isinstance(c, ast.Call) and (dotted(c.func) or "").endswith("call_set_context")][0]
        ok = len(inner.args) == 1 and isinstance(inner.args[0], ast.Starred) and dotted(inner.args[0].value) == "args" and len(inner.keywords) == 1 \
            and inner.keywords[0].arg is None and dotted(inner.keywords[0].value) == "kwargs"
        ctx.check(ok, rule, f, "call_set_context(*args, **kwargs)", "arguments handed over unmodified", f"the wrapped function is invoked with {unparse(inner)[:80]}",
                  instance="protocol: arguments unmodified")
    res_names = {t.id for n in ast.walk(f.node) if isinstance(n, ast.Assign) and isinstance(n.value, ast.Await)
                 and ((isinstance(n.value.value, ast.Call) and (dotted(n.value.value.func) or "").endswith("create_task"))
                      or (isinstance(n.value.value, ast.Name) and n.value.value.id in task_names)) for t in n.targets if isinstance(t, ast.Name)}
    rets = [n for n in ast.walk(f.node) if isinstance(n, ast.Return)]
    ok = bool(res_names) and all((isinstance(r.value, ast.Name) and r.value.id in res_names) or
                                 (isinstance(r.value, ast.Await) and isinstance(r.value.value, ast.Call) and dotted(r.value.value.func) == "self.fn") for r in rets)
    ctx.check(ok, rule, f, "returned value is the function's awaited value", "result unchanged", "__call__ returns something else than the wrapped function's result",
              instance="protocol: result returned")
    upd = [n for n in ast.walk(f.node) if isinstance(n, ast.Call) and (dotted(n.func) or "").endswith("signal_kwargs.update") and n.args and isinstance(n.args[0], ast.Dict)]
    ok = any(any(isinstance(k, ast.Constant) and k.value == "result" and isinstance(v, ast.Name) and v.id in res_names for k, v in zip(u.args[0].keys, u.args[0].values)) for u in upd)
    sub = [n for n in ast.walk(f.node) if isinstance(n, ast.Assign) and any(isinstance(t, ast.Subscript) and dotted(t.value) == "signal_kwargs" and C.is_const(t.slice, "result") for t in n.targets)]
    ctx.check(ok or bool(sub), rule, f, "after signal carries result", "signal_kwargs['result'] = awaited value", "the after signal does not carry the operation's result",
              instance="protocol: after carries result")
    # ... on every path, whatever the result is (None is a result too)
    after_emits = [n for n in g.calls() if (n.callee or "").endswith("_repid_signal_emitter") and n.ast.args and emit_tag(n).startswith("after_")]
    res_stores = [n.id for n in g.nodes if (n.kind == "call" and (n.callee or "").endswith("signal_kwargs.update") and "result" in unparse(n.ast)) or
                  (n.kind == "store" and isinstance(n.ast, ast.Subscript) and dotted(n.ast.value) == "signal_kwargs" and C.is_const(n.ast.slice, "result"))]
    calls_ = [n for n in g.nodes if n.kind == "call" and (n.callee or "") == "self.call_set_context"]
    ok_all = bool(after_emits) and bool(calls_) and all(flow.must_pass(g, calls_[0].id, [a.id], res_stores, flow.NORMAL_KINDS) for a in after_emits)
    ctx.check(ok_all, rule, f, "after signal carries result on every path", "unconditional signal_kwargs['result'] = result",
              "the 'result' entry of the after signal is set only conditionally: for some results (e.g. None) after-subscribers that declare `result` are called without it (or not at all)",
              instance="protocol: result unconditional")
    sk = [n for n in ast.walk(f.node) if isinstance(n, ast.Assign) and any(dotted(t) == "signal_kwargs" for t in n.targets)]
    sk += [n for n in ast.walk(f.node) if isinstance(n, ast.AnnAssign) and dotted(n.target) == "signal_kwargs" and n.value is not None]
    skv = sk[0].value if len(sk) == 1 else None
    # a new mapping built from kwargs: kwargs.copy() / dict(kwargs, ...) / {**kwargs, ...} / kwargs | {...}
    ok = (isinstance(skv, ast.Call) and dotted(skv.func) in ("kwargs.copy", "dict")) or \
         (isinstance(skv, ast.Dict) and any(k is None and dotted(v) == "kwargs" for k, v in zip(skv.keys, skv.values))) or \
         (isinstance(skv, ast.BinOp) and isinstance(skv.op, ast.BitOr) and "kwargs" in (dotted(skv.left), dotted(skv.right)))
    ctx.check(ok, rule, f, "signals get a copy of kwargs", "the call's own kwargs are not mutated", f"signal_kwargs = {unparse(sk[0].value) if sk else '?'}: the operation's kwargs "
              "object is shared with (and mutated for) the signals", instance="protocol: kwargs copied")
    zp = [n for n in ast.walk(f.node) if isinstance(n, ast.Call) and dotted(n.func) == "zip" and len(n.args) == 2 and dotted(n.args[0]) == "self.parameters" and dotted(n.args[1]) == "args"]
    ctx.check(len(zp) == 1, rule, f, "positional arguments mapped to parameter names", "zip(self.parameters, args)", "positional arguments are not mapped to their parameter names for the signals",
              instance="protocol: args by name")
    tries = [n for n in ast.walk(f.node) if isinstance(n, ast.Try)]
    ctx.check(not any(h for t in tries for h in t.handlers), rule, f, "no exception handler in __call__", "exceptions of the operation propagate unchanged",
              "__call__ catches exceptions around the operation", instance="protocol: no handler")
    init = ctx.func(f"{WRAPPER}.__init__")
    st = [n for n in ast.walk(init.node) if isinstance(n, ast.Assign) and any(dotted(t) == "self.parameters" for t in n.targets)]
    ok = len(st) == 1 and "signature(fn).parameters" in unparse(st[0].value)
    ctx.check(ok, rule, init, "self.parameters = signature(fn).parameters.keys()", "names of the wrapped function", "wrapper parameters are not taken from the wrapped function's signature",
              instance="protocol: parameter names")
    nm = [n for n in ast.walk(init.node) if isinstance(n, ast.Assign) and any(dotted(t) == "self.name" for t in n.targets)]
    ok = len(nm) == 1 and isinstance(nm[0].value, ast.BoolOp) and isinstance(nm[0].value.op, ast.Or) and dotted(nm[0].value.values[0]) == "name" and dotted(nm[0].value.values[1]) == "fn.__name__"
    ctx.check(ok, rule, init, "self.name = name or fn.__name__", "signal name", f"wrapper name is {unparse(nm[0].value) if nm else '?'}", instance="protocol: signal name")


def context(ctx: Ctx, rule="R-C17-CONTEXT") -> None:
    sets = []
    for fn in ctx.prog.iter_functions():
        for n in ast.walk(fn.node):
            if isinstance(n, ast.Call) and (dotted(n.func) or "").endswith("IsInsideMiddleware.set"):
                sets.append((fn, n))
    ctx.floor(rule, len(sets), 1, "IsInsideMiddleware.set(...) sites")
    for fn, n in sets:
        ok = fn.qualname == f"{WRAPPER}.call_set_context" and n.args and C.is_const(n.args[0], True)
        ctx.check(ok, rule, fn, f"IsInsideMiddleware.set in {fn.short()}", "flag set only inside the child-task coroutine",
                  f"{fn.short()} sets the nesting flag ({unparse(n)}) outside the coroutine that runs in its own task: the flag leaks into the caller's context "
                  "(e.g. after a failing operation) and later operations of that task emit no signals", node=n, instance=f"flag set in {fn.short()}")
    refs = []
    for fn in ctx.prog.iter_functions():
        for n in ast.walk(fn.node):
            if isinstance(n, ast.Attribute) and n.attr == "call_set_context":
                refs.append((fn, n))
    for fn, n in refs:
        ok = fn.qualname == f"{WRAPPER}.__call__" and any(isinstance(c, ast.Call) and (dotted(c.func) or "").endswith("create_task") and any(x is n for a in c.args for x in ast.walk(a))
                                                           for c in ast.walk(fn.node))
        ctx.check(ok, rule, fn, f"call_set_context used in {fn.short()}", "only as the argument of create_task",
                  f"{fn.short()} runs call_set_context outside create_task: the flag is set in the caller's own context", node=n, instance=f"call_set_context in {fn.short()}")
    if f"{WRAPPER}.call_set_context" not in ctx.prog.functions:
        return  # reported above: the flag is then set outside the dedicated child-task coroutine
    csc = ctx.func(f"{WRAPPER}.call_set_context")
    g = ctx.cfg(csc)
    calls = [n for n in g.calls() if n.callee == "self.fn"]
    st = [n for n in g.calls() if (n.callee or "").endswith("IsInsideMiddleware.set")]
    ok = len(calls) == 1 and len(st) == 1 and flow.must_pass(g, g.entry.id, [calls[0].id], [st[0].id], flow.NORMAL_KINDS) and unparse(calls[0].ast) == "self.fn(*args, **kwargs)"
    ctx.check(ok, rule, csc, "call_set_context: set flag, then self.fn(*args, **kwargs)", "nested operations see the flag", "call_set_context does not set the flag before calling the function unmodified",
              instance="call_set_context body")


def table(ctx: Ctx, rule="R-C17-TABLE") -> None:
    m = ctx.prog.module("repid.middlewares.consts")
    w = m.assigns.get("WRAPPED")
    ctx.require(isinstance(w, (ast.Tuple, ast.List)), "repid.middlewares.consts.WRAPPED not found")
    wrapped = {e.value for e in w.elts if isinstance(e, ast.Constant)}
    union = set()
    for base in ("ConsumerT", "MessageBrokerT", "BucketBrokerT"):
        c = ctx.prog.cls(f"{ABC}.{base}")
        wm = c.attrs.get("__WRAPPED_METHODS__")
        ctx.require(isinstance(wm, (ast.Tuple, ast.List)), f"{c.qualname}.__WRAPPED_METHODS__ not found")
        names = [e.value for e in wm.elts if isinstance(e, ast.Constant)]
        union |= set(names)
        for nm in names:
            meth = c.methods.get(nm)
            ok = meth is not None and "abstractmethod" in meth.decorators and meth.is_async
            ctx.check(ok, rule, c.qualname, f"{base}.{nm} is an abstract async method", "every implementation must define it",
                      f"{base}.__WRAPPED_METHODS__ lists '{nm}' which is not an abstract async method of {base}", instance=f"{base}.{nm} abstract")
            for sub in ctx.prog.subclasses(c.qualname):
                if any("Protocol" in b for b in sub.base_exprs):
                    continue
                impl = ctx.prog.find_method(sub.qualname, nm)
                ok = impl is not None and impl.cls is not None and impl.cls.qualname != c.qualname and impl.is_async
                ctx.check(ok, rule, sub.qualname, f"{sub.name}.{nm} implemented", "wrapped on every instance", f"{sub.name} does not implement wrapped operation '{nm}'",
                          instance=f"{sub.name}.{nm}")
    # implementations keep the declared parameter names: signals are keyed by them and callers pass them by keyword
    for base in ("ConsumerT", "MessageBrokerT", "BucketBrokerT"):
        c = ctx.prog.cls(f"{ABC}.{base}")
        wm = c.attrs.get("__WRAPPED_METHODS__")
        for nm in [e.value for e in wm.elts if isinstance(e, ast.Constant)]:
            decl = c.methods.get(nm)
            if decl is None:
                continue
            want_p = [p_.arg for p_ in decl.params()]
            for sub in ctx.prog.subclasses(c.qualname):
                impl = sub.methods.get(nm)
                if impl is None or any("Protocol" in b for b in sub.base_exprs):
                    continue
                got_p = [p_.arg for p_ in impl.params()]
                a_ = impl.node.args
                n_pos = len(a_.posonlyargs) + len(a_.args)
                with_default = {x.arg for x in (a_.posonlyargs + a_.args)[n_pos - len(a_.defaults):]} | {x.arg for x, d_ in zip(a_.kwonlyargs, a_.kw_defaults) if d_ is not None}
                extras = [x for x in got_p if x not in want_p]
                # the declared names, in the declared order; additional parameters only if optional (nobody has to pass them)
                ctx.check([x for x in got_p if x in want_p] == want_p and all(x in with_default for x in extras), rule, impl, f"{sub.name}.{nm}{tuple(got_p[1:])} keeps the declared parameter names", f"{want_p[1:]}",
                          f"{sub.name}.{nm} takes {got_p[1:]} but {base}.{nm} declares {want_p[1:]}: before_/after_ signals of this implementation carry other argument names than "
                          "subscribers are written for, and callers that pass the declared names by keyword fail", instance=f"{sub.name}.{nm}: parameter names")
    ctx.check(wrapped == union | {"actor_run"}, rule, "repid.middlewares.consts", "WRAPPED == union(__WRAPPED_METHODS__) + actor_run", "signal names cover exactly the wrapped operations",
              f"WRAPPED differs from the wrapped methods: missing {sorted((union | {'actor_run'}) - wrapped)}, extra {sorted(wrapped - union - {'actor_run'})}: subscribers for those "
              "operations are refused or never called", instance="WRAPPED table")
    sn = m.assigns.get("SUBSCRIBERS_NAMES")
    ok = sn is not None and "before_" in unparse(sn) and "after_" in unparse(sn) and "WRAPPED" in unparse(sn)
    ctx.check(ok, rule, "repid.middlewares.consts", "SUBSCRIBERS_NAMES = before_/after_ x WRAPPED", "both signals for every operation", "SUBSCRIBERS_NAMES is not before_/after_ x WRAPPED",
              instance="SUBSCRIBERS_NAMES")
    new = ctx.func(f"{ABC}._WrappedABC.__new__")
    loops = [n for n in ast.walk(new.node) if isinstance(n, ast.For) and (dotted(n.iter) or "").endswith("__WRAPPED_METHODS__")]
    ok = False
    if len(loops) == 1 and isinstance(loops[0].target, ast.Name):
        v = loops[0].target.id
        for c in ast.walk(loops[0]):
            if isinstance(c, ast.Call) and dotted(c.func) == "setattr" and len(c.args) == 3 and dotted(c.args[1]) == v:
                a2 = C.inline_locals(new, c.args[2])
                if isinstance(a2, ast.Call) and dotted(a2.func) == "middleware_wrapper" and isinstance(a2.args[0], ast.Call) and dotted(a2.args[0].func) == "getattr" \
                        and dotted(a2.args[0].args[1]) == v and dotted(c.args[0]) == dotted(a2.args[0].args[0]):
                    ok = True
    ctx.check(ok, rule, new, "__new__ wraps every listed method of the new instance", "per-instance wrappers for exactly the listed methods",
              "_WrappedABC.__new__ does not wrap each method of __WRAPPED_METHODS__ on the instance with middleware_wrapper", instance="__new__ wraps listed methods")


def isolate(ctx: Ctx, rule="R-C17-ISOLATE") -> None:
    f = ctx.func(f"{MIDDLEWARE}.add_subscriber")
    # the isolating wrapper: the nested coroutine function (of add_subscriber or of a private helper it calls) that calls the asyncified subscriber
    owners = [f] + C.helper_callees(ctx, f)
    cands = []
    for o in owners:
        asy = {t.id for a in ast.walk(o.node) if isinstance(a, ast.Assign) and isinstance(a.value, ast.Call) and (dotted(a.value.func) or "").split(".")[-1] == "asyncify"
               for t in a.targets if isinstance(t, ast.Name)}
        for nf in o.nested.values():
            cs = [n for n in ast.walk(nf.node) if isinstance(n, ast.Call) and isinstance(n.func, ast.Name) and n.func.id in asy]
            if cs and nf.is_async:
                cands.append((o, nf, cs))
    ctx.require(len(cands) == 1, f"{f.qualname}: nested wrapper not found")
    owner, w, calls = cands[0]
    asy_names = {t.id for a in ast.walk(owner.node) if isinstance(a, ast.Assign) and isinstance(a.value, ast.Call) and (dotted(a.value.func) or "").split(".")[-1] == "asyncify"
                 for t in a.targets if isinstance(t, ast.Name)}
    ctx.require(len(calls) == 1, f"{w.qualname}: subscriber call not found")
    tries = [t for t in ast.walk(w.node) if isinstance(t, ast.Try) and any(x is calls[0] for st in t.body for x in ast.walk(st))]
    if not ctx.check(len(tries) == 1, rule, w, "subscriber call inside try", "isolated", "the subscriber is called outside any try: its exception fails the operation", node=calls[0],
                     instance="subscriber in try"):
        return
    t = tries[0]
    hs = [h for h in t.handlers if handler_classes(h) == ["Exception"]]
    ctx.check(len(hs) == 1 and len(t.handlers) == 1, rule, w, "except Exception around the subscriber", "any subscriber Exception is contained",
              f"the subscriber call is guarded by {[handler_classes(h) for h in t.handlers]} instead of `except Exception`", instance="subscriber handler class")
    for h in t.handlers:
        rr = [n for st in h.body for n in ast.walk(st) if isinstance(n, ast.Raise)]
        ctx.check(not rr, rule, w, "subscriber handler does not re-raise", "swallowed and logged", "the subscriber exception handler re-raises: a failing subscriber fails the operation",
                  node=h, instance="subscriber handler swallows")
        for c in [n for st in h.body for n in ast.walk(st) if isinstance(n, ast.Call)]:
            if (dotted(c.func) or "").startswith("logger."):
                a0 = c.args[0] if c.args else None
                has_extra = C.kw(c, "extra") is not None
                ok = isinstance(a0, ast.Constant) and isinstance(a0.value, str)
                ctx.check(ok or not has_extra, rule, w, f"log call in the subscriber handler: {unparse(c)[:60]}", "constant message template",
                          "the subscriber exception handler logs a computed message together with extra=...: the logger adapter runs str.format on it, so "
                          "braces in the exception text raise inside the handler and the subscriber's failure escapes into the operation", node=c,
                          instance="subscriber handler log message")
            else:
                ctx.check(False, rule, w, f"call in the subscriber handler: {unparse(c)[:60]}", "", f"the subscriber exception handler calls {unparse(c)[:60]}, which can raise",
                          node=c, instance="subscriber handler extra call")
    # kwargs filtered by the subscriber's signature; registered under its name
    # the kwargs filter uses the SUBSCRIBER's own signature (the asyncify wrapper of a sync function accepts *args/**kwargs: its argspec names nothing)
    fparam0 = [p_.arg for p_ in f.params()][1]
    specs = [c for o_ in owners for c in ast.walk(o_.node) if isinstance(c, ast.Call) and (dotted(c.func) or "").split(".")[-1] in ("getfullargspec", "signature", "getargspec")]
    ok_spec = bool(specs) and all(len(c.args) == 1 and (C.utext(owner, c.args[0]) == fparam0 or (owner is not f and isinstance(c.args[0], ast.Name) and c.args[0].id in [p_.arg for p_ in owner.params()]
                                                                                                 and c.args[0].id not in asy_names)) for c in specs)
    ctx.check(ok_spec, rule, f, "subscriber kwargs filtered by the subscriber's own signature", f"getfullargspec({fparam0})",
              f"add_subscriber inspects {[unparse(c)[:50] for c in specs]}: the signature of the asyncify wrapper (not of the subscriber) names no parameters, so synchronous "
              "subscribers that declare arguments are called without them, fail with TypeError (logged) and never observe the signal", instance="subscriber signature source")

    def is_wrapper(e_):
        """e_ (in add_subscriber) denotes the isolating wrapper: the nested function itself or what the helper that defines it returns."""
        if isinstance(e_, ast.Name) and owner is f and e_.id == w.name:
            return True
        for x in C.expand_locals(f, e_):
            if isinstance(x, ast.Call) and any(cal.qualname == owner.qualname for cal in ctx.res.callees(f, x, record=False)):
                rets = C.own_returns(owner)
                return bool(rets) and all(isinstance(r.value, ast.Name) and r.value.id == w.name for r in rets)
        return False

    ap = [n for n in ast.walk(f.node) if isinstance(n, ast.Call) and isinstance(n.func, ast.Attribute) and n.func.attr == "append" and n.args and is_wrapper(n.args[0])]
    fparam = [p_.arg for p_ in f.params()][1]
    key_txt = f"{fparam}.__name__"  # the subscriber is filed under its own function name
    ap_txt = C.utext(f, ap[0].func) if len(ap) == 1 else ""
    # `add_subscriber(fn, *, name=None)` with `if name is None: name = fn.__name__`: by default the key is still the function's own name
    for sub_ in [x for x in ast.walk(ap[0].func) if isinstance(x, ast.Name)] if len(ap) == 1 else []:
        dflt = C.injected_default(f, sub_)
        if dflt is not sub_:
            ap_txt = ap_txt.replace(f"[{sub_.id}]", f"[{unparse(dflt)}]").replace(f"({sub_.id},", f"({unparse(dflt)},")
    ctx.check(len(ap) == 1 and ap_txt in (f"self.subscribers[{key_txt}].append", f"self.subscribers.setdefault({key_txt}, []).append"), rule, f, "wrapper registered under the subscriber's name", "self.subscribers[name].append(wrapper)",
              "add_subscriber does not register the isolating wrapper", instance="wrapper registered")
    e = ctx.func(f"{MIDDLEWARE}.emit_signal")
    gat = [n for n in ast.walk(e.node) if isinstance(n, ast.Call) and (dotted(n.func) or "").endswith("gather")]
    ok = len(gat) == 1 and len(gat[0].args) == 1 and isinstance(gat[0].args[0], ast.Starred) and not C.kw(gat[0], "return_exceptions")
    if ok:
        src = gat[0].args[0].value
        built = None
        if isinstance(src, (ast.ListComp, ast.GeneratorExp)) and len(src.generators) == 1:
            built = (src.generators[0].target, src.generators[0].iter, src.elt, list(src.generators[0].ifs))
        elif isinstance(src, ast.Name):
            cb = C.collection_build(e, src.id)
            built = cb[1:] if cb else None
        ok = built is not None
        if ok:
            tgt, it, elt, guards = built
            ok = isinstance(tgt, ast.Name) and C.utext(e, it) == "self.subscribers[name]" and not guards and isinstance(elt, ast.Call) and dotted(elt.func) == tgt.id \
                and not elt.args and len(elt.keywords) == 1 and elt.keywords[0].arg is None and dotted(elt.keywords[0].value) == "kwargs"
    ctx.check(ok, rule, e, "emit_signal awaits the registered wrappers of that signal", "gather(*[fn(**kwargs) for fn in self.subscribers[name]])",
              f"emit_signal calls {unparse(gat[0])[:100] if gat else 'nothing'}", instance="emit_signal calls wrappers")
    aws = [n for n in ast.walk(e.node) if isinstance(n, ast.Await) and gat and n.value is gat[0]]
    ctx.check(bool(aws), rule, e, "emit_signal awaits the subscribers", "awaited", "emit_signal does not await the subscribers", instance="emit_signal awaited")


def wrapped_only(ctx: Ctx, rule="R-C17-PROTOCOL") -> None:
    """The unwrapped implementation `_actor_run` is only ever handed to middleware_wrapper; everybody calls the wrapped `actor_run` - a 'fast path' around the wrapper
    also skips the nesting flag, so operations performed inside the actor emit signals of their own."""
    n = 0
    for fn in ctx.prog.iter_functions():
        for a in ast.walk(fn.node):
            if isinstance(a, ast.Attribute) and a.attr == "_actor_run" and isinstance(a.ctx, ast.Load):
                n += 1
                par_ok = fn.qualname == f"{C.PROCESSOR}.__init__"
                ctx.check(par_ok, rule, fn, f"{unparse(a)} referenced in {fn.short()}", "only wrapped in __init__",
                          f"{fn.short()} uses the unwrapped {unparse(a)} directly: that execution emits no actor_run signals and is not marked as 'inside middleware', so operations "
                          "performed by the actor (enqueue, ack ...) emit their own before_/after_ signals", node=a, instance=f"_actor_run used in {fn.short()}")
    ctx.floor(rule, n, 1, "references of _actor_run")


def emitter_own(ctx: Ctx, rule="R-C17-EMITTER-OWN") -> None:
    sites = []
    for fn in ctx.prog.iter_functions():
        for n in ast.walk(fn.node):
            if isinstance(n, ast.Assign):
                for t in n.targets:
                    if isinstance(t, ast.Attribute) and t.attr == "_repid_signal_emitter":
                        sites.append((fn, n, t))
            elif isinstance(n, ast.AnnAssign) and isinstance(n.target, ast.Attribute) and n.target.attr == "_repid_signal_emitter":
                sites.append((fn, n, n.target))
    ctx.floor(rule, len(sites), 3, "stores of _repid_signal_emitter")
    for fn, n, t in sites:
        obj = C.inline_locals(fn, t.value) if isinstance(t.value, ast.Name) and t.value.id != "self" else t.value
        if fn.qualname == f"{WRAPPER}.__init__" and dotted(obj) == "self":
            ctx.ok(rule, f"emitter store in {fn.short()}", "wrapper's own initial value")
            continue
        if isinstance(obj, ast.Call) and dotted(obj.func) == "getattr" and dotted(obj.args[0]) == "self" and fn.cls is not None \
                and fn.cls.qualname == f"{ABC}._WrappedABC":
            ctx.ok(rule, f"emitter store in {fn.short()}", "on the per-instance wrappers created in __new__")
            continue
        ok = False
        why = f"{unparse(obj)} is not a wrapper owned by the instance"
        if isinstance(obj, ast.Attribute) and dotted(obj.value) == "self" and fn.cls is not None:
            attr = obj.attr
            inst_assign = False
            for c in ctx.prog.mro(fn.cls.qualname):
                for mname in ("__init__", "__new__"):
                    m = c.methods.get(mname)
                    if m is None:
                        continue
                    for a in ast.walk(m.node):
                        if isinstance(a, ast.Assign) and any(dotted(x) == f"self.{attr}" for x in a.targets) and isinstance(a.value, ast.Call) \
                                and (dotted(a.value.func) or "").endswith("middleware_wrapper"):
                            inst_assign = True
            class_level = any(attr in c.methods and any("middleware_wrapper" in d for d in c.methods[attr].decorators) for c in ctx.prog.mro(fn.cls.qualname))
            ok = inst_assign and not class_level
            if class_level:
                why = (f"self.{attr} is a class-level @middleware_wrapper function: one wrapper object is shared by every instance, so the emitter stored by the "
                       "last created processor/connection receives the signals of all of them")
            elif not inst_assign:
                why = f"self.{attr} is not created per instance with middleware_wrapper(...) in __init__/__new__"
        ctx.check(ok, rule, fn, f"{unparse(t)} = ... in {fn.short()}", "emitter stored on a per-instance wrapper",
                  f"{fn.short()} stores a signal emitter on a shared object: {why}", node=n, instance=f"emitter store in {fn.short()}")
    # which emitter: the own connection's
    p = ctx.func(f"{C.PROCESSOR}.__init__")
    st = [n for fn, n, t in sites if fn is p]
    ok = len(st) == 1 and dotted(st[0].value) == "self._conn.middleware.emit_signal"
    ctx.check(ok, rule, p, "processor takes the emitter of its own connection", "self._conn.middleware.emit_signal", "the processor's actor_run does not emit to its own connection's middleware",
              instance="processor emitter source")
    cp = ctx.func("repid.connection.Connection.__post_init__")
    st = [n for n in ast.walk(cp.node) if isinstance(n, ast.Assign) and any(isinstance(t, ast.Attribute) and t.attr == "_signal_emitter" for t in n.targets)]
    three = ("message_broker", "args_bucket_broker", "results_bucket_broker")
    ok = bool(st) and all(dotted(x.value) == "self.middleware.emit_signal" for x in st)
    loops = [n for n in ast.walk(cp.node) if isinstance(n, ast.For) and st and any(x is st[0] for x in ast.walk(n))]
    if len(st) == 1 and len(loops) == 1:
        srcs = " ".join(unparse(x) for _, x in C.deep_defs(ctx, cp, loops[0].iter))  # the collection may come from a helper
        ok = ok and all(nm in srcs for nm in three)
        ok = ok and not any(isinstance(x, (ast.Break, ast.Return)) for b_ in loops[0].body for x in ast.walk(b_))  # a missing broker is skipped, the others are still wired
    else:
        # written out (or a loop over a literal list, read as unrolled): one store per broker
        bases = {dotted(t.value) for x in st for t in x.targets if isinstance(t, ast.Attribute)}
        ok = ok and bases == {f"self.{nm}" for nm in three}
    ctx.check(ok, rule, cp, "Connection gives its middleware's emitter to all three brokers", "every broker emits to its own connection", "Connection.__post_init__ does not set the emitter "
              "of its own middleware on all three brokers", instance="connection emitter wiring")
    conn = ctx.prog.cls("repid.connection.Connection")
    mv = conn.attrs.get("middleware")
    ok = isinstance(mv, ast.Call) and dotted(mv.func) == "field" and dotted(C.kw(mv, "default_factory")) == "Middleware" and C.kw(mv, "default") is None
    ctx.check(ok, rule, conn.qualname, "every Connection has its own Middleware (subscriber table)", "field(default_factory=Middleware)",
              f"Connection.middleware is declared as {unparse(mv) if mv is not None else 'missing'}: all connections of the process share one subscriber table, so signals of one connection "
              "reach the subscribers of another", instance="middleware per connection")
    mi = ctx.func(f"{MIDDLEWARE}.__init__")
    st = [n for n in ast.walk(mi.node) if isinstance(n, (ast.Assign, ast.AnnAssign)) and n.value is not None and dotted(n.targets[0] if isinstance(n, ast.Assign) else n.target) == "self.subscribers"]
    ctx.check(len(st) == 1 and isinstance(st[0].value, ast.Dict) and not st[0].value.keys, rule, mi, "Middleware.subscribers is a fresh dict per instance", "{}", "Middleware.subscribers is not a fresh per-instance dict",
              instance="subscribers per middleware")
    gc = ctx.func(f"{ABC}.MessageBrokerT.get_consumer")
    st = [n for n in ast.walk(gc.node) if isinstance(n, ast.Assign) and any(dotted(t) == "consumer._signal_emitter" for t in n.targets)]
    ctx.check(len(st) == 1 and dotted(st[0].value) == "self._signal_emitter", rule, gc, "consumer inherits the broker's emitter", "consume signals go to the same connection",
              "get_consumer does not hand the broker's emitter to the consumer", instance="consumer emitter")
    setter = ctx.func(f"{ABC}._WrappedABC._signal_emitter.setter")
    ok = any(isinstance(n, ast.For) and (dotted(n.iter) or "").endswith("__WRAPPED_METHODS__") for n in ast.walk(setter.node))
    ctx.check(ok, rule, setter, "emitter propagated to every wrapped method", "all operations of the instance emit", "the emitter setter does not reach every wrapped method",
              instance="setter covers wrapped methods")
