"""Shared vocabulary extracted from the repository (DESIGN.md section 2)."""
from __future__ import annotations

import ast

from ..cfg import CFG, Node
from ..engine import Ctx
from ..model import FuncInfo, dotted, unparse

BROKER_OPS = ("enqueue", "ack", "nack", "reject", "requeue")
TERMINAL_OPS = ("ack", "nack", "reject", "requeue")
BUCKET_OPS = ("get_bucket", "store_bucket", "delete_bucket")
CONSUMER_OPS = ("consume", "finish", "start", "pause", "unpause")

MB = "repid.connections.abc.MessageBrokerT"
CONS = "repid.connections.abc.ConsumerT"
BB = "repid.connections.abc.BucketBrokerT"

INMEM_BROKER = "repid.connections.in_memory.message_broker.InMemoryMessageBroker"
INMEM_CONS = "repid.connections.in_memory.consumer._InMemoryConsumer"
REDIS_BROKER = "repid.connections.redis.message_broker.RedisMessageBroker"
REDIS_CONS = "repid.connections.redis.consumer._RedisConsumer"
RABBIT_BROKER = "repid.connections.rabbitmq.message_broker.RabbitMessageBroker"
RABBIT_CONS = "repid.connections.rabbitmq.consumer._RabbitConsumer"

MESSAGE = "repid.message.Message"
MSGDEP = "repid.dependencies.message_dependency.MessageDependency"
PARAMS = "repid.data._parameters.Parameters"
PROCESSOR = "repid._processor._Processor"
RUNNER = "repid._runner._Runner"
WORKER = "repid.worker.Worker"


def op_of_call(ctx: Ctx, f: FuncInfo, call: ast.Call, base: str, names: tuple[str, ...]) -> str | None:
    """Name of the abstract operation (a method of `base` or of a subclass) a call resolves to, else None."""
    fe = call.func
    if not isinstance(fe, ast.Attribute) or fe.attr not in names:
        return None
    for cal in ctx.res.callees(f, call):
        if cal.cls is not None and cal.name == fe.attr and ctx.prog.is_subclass_of(cal.cls.qualname, base):
            return fe.attr
    return None


def broker_op(ctx: Ctx, n: Node, names=BROKER_OPS) -> str | None:
    if n.kind != "call" or not isinstance(n.ast, ast.Call):
        return None
    return op_of_call(ctx, n.func, n.ast, MB, names)


def bucket_op(ctx: Ctx, n: Node, names=BUCKET_OPS) -> str | None:
    if n.kind != "call" or not isinstance(n.ast, ast.Call):
        return None
    return op_of_call(ctx, n.func, n.ast, BB, names)


def consumer_op(ctx: Ctx, n: Node, names=CONSUMER_OPS) -> str | None:
    if n.kind != "call" or not isinstance(n.ast, ast.Call):
        return None
    return op_of_call(ctx, n.func, n.ast, CONS, names)


def attr_chain(e: ast.AST) -> list[str]:
    """['self', '_queue', 'simple', 'put_nowait'] for self._queue.simple.put_nowait ; subscripts/calls are skipped through."""
    parts: list[str] = []
    while True:
        if isinstance(e, ast.Attribute):
            parts.append(e.attr)
            e = e.value
        elif isinstance(e, ast.Subscript):
            parts.append("[]")
            e = e.value
        elif isinstance(e, ast.Call):
            parts.append("()")
            e = e.func
        elif isinstance(e, ast.Name):
            parts.append(e.id)
            break
        else:
            parts.append("?")
            break
    return list(reversed(parts))


def reads_attr(e: ast.AST, attr: str) -> bool:
    for n in ast.walk(e):
        if isinstance(n, ast.Attribute) and n.attr == attr:
            return True
    return False


def names_in(e: ast.AST) -> set[str]:
    return {n.id for n in ast.walk(e) if isinstance(n, ast.Name)}


def kw(call: ast.Call, name: str) -> ast.expr | None:
    for k in call.keywords:
        if k.arg == name:
            return k.value
    return None


def arg(call: ast.Call, pos: int, name: str | None = None) -> ast.expr | None:
    if len(call.args) > pos and not any(isinstance(a, ast.Starred) for a in call.args[: pos + 1]):
        return call.args[pos]
    if name is not None:
        return kw(call, name)
    return None


def is_const(e: ast.AST | None, value) -> bool:
    return isinstance(e, ast.Constant) and e.value is value or (isinstance(e, ast.Constant) and e.value == value and type(e.value) is type(value))


def local_defs(f: FuncInfo, name: str) -> list[ast.expr]:
    """Value expressions assigned to local `name` in f (flow-insensitive)."""
    out = []
    for n in ast.walk(f.node):
        if isinstance(n, ast.Assign):
            for t in n.targets:
                if isinstance(t, ast.Name) and t.id == name:
                    out.append(n.value)
                elif isinstance(t, (ast.Tuple, ast.List)):
                    for i, el in enumerate(t.elts):
                        if isinstance(el, ast.Name) and el.id == name:
                            if isinstance(n.value, (ast.Tuple, ast.List)) and len(n.value.elts) == len(t.elts):
                                out.append(n.value.elts[i])
                            else:
                                out.append(n.value)
        elif isinstance(n, ast.AnnAssign) and isinstance(n.target, ast.Name) and n.target.id == name and n.value is not None:
            out.append(n.value)
        elif isinstance(n, ast.NamedExpr) and isinstance(n.target, ast.Name) and n.target.id == name:
            out.append(n.value)
    return out


def expand_locals(f: FuncInfo, e: ast.AST, depth: int = 3) -> list[ast.AST]:
    """e plus the definitions of local names it mentions (transitively, bounded) - a cheap def-use closure."""
    out = [e]
    frontier = [e]
    seen: set[str] = set()
    for _ in range(depth):
        nxt = []
        for x in frontier:
            for nm in names_in(x):
                if nm in seen:
                    continue
                seen.add(nm)
                for d in local_defs(f, nm):
                    out.append(d)
                    nxt.append(d)
        frontier = nxt
    return out
