"""Shared vocabulary extracted from the repository (DESIGN.md section 2)."""
from __future__ import annotations

import ast

from ..cfg import CFG, Node
from ..engine import Ctx
from ..model import FuncInfo, dotted, unparse

BROKER_OPS = ("enqueue", "ack", "nack", "reject", "requeue")
TERMINAL_OPS = ("ack", "nack", "reject", "requeue")
BUCKET_OPS = ("get_bucket", "store_bucket", "delete_bucket")
CONSUMER_OPS = ("consume", "finish", "start", "pause", "unpause")

MB = "repid.connections.abc.MessageBrokerT"
CONS = "repid.connections.abc.ConsumerT"
BB = "repid.connections.abc.BucketBrokerT"

INMEM_BROKER = "repid.connections.in_memory.message_broker.InMemoryMessageBroker"
INMEM_CONS = "repid.connections.in_memory.consumer._InMemoryConsumer"
REDIS_BROKER = "repid.connections.redis.message_broker.RedisMessageBroker"
REDIS_CONS = "repid.connections.redis.consumer._RedisConsumer"
RABBIT_BROKER = "repid.connections.rabbitmq.message_broker.RabbitMessageBroker"
RABBIT_CONS = "repid.connections.rabbitmq.consumer._RabbitConsumer"

MESSAGE = "repid.message.Message"
MSGDEP = "repid.dependencies.message_dependency.MessageDependency"
PARAMS = "repid.data._parameters.Parameters"
PROCESSOR = "repid._processor._Processor"
RUNNER = "repid._runner._Runner"
WORKER = "repid.worker.Worker"


def op_of_call(ctx: Ctx, f: FuncInfo, call: ast.Call, base: str, names: tuple[str, ...]) -> str | None:
    """Name of the abstract operation (a method of `base` or of a subclass) a call resolves to, else None."""
    fe = call.func
    if not isinstance(fe, ast.Attribute) or fe.attr not in names:
        return None
    for cal in ctx.res.callees(f, call):
        if cal.cls is not None and cal.name == fe.attr and ctx.prog.is_subclass_of(cal.cls.qualname, base):
            return fe.attr
    return None


def broker_op(ctx: Ctx, n: Node, names=BROKER_OPS) -> str | None:
    if n.kind != "call" or not isinstance(n.ast, ast.Call):
        return None
    return op_of_call(ctx, n.func, n.ast, MB, names)


def bucket_op(ctx: Ctx, n: Node, names=BUCKET_OPS) -> str | None:
    if n.kind != "call" or not isinstance(n.ast, ast.Call):
        return None
    return op_of_call(ctx, n.func, n.ast, BB, names)


def consumer_op(ctx: Ctx, n: Node, names=CONSUMER_OPS) -> str | None:
    if n.kind != "call" or not isinstance(n.ast, ast.Call):
        return None
    return op_of_call(ctx, n.func, n.ast, CONS, names)


def attr_chain(e: ast.AST) -> list[str]:
    """['self', '_queue', 'simple', 'put_nowait'] for self._queue.simple.put_nowait ; subscripts/calls are skipped through."""
    parts: list[str] = []
    while True:
        if isinstance(e, ast.Attribute):
            parts.append(e.attr)
            e = e.value
        elif isinstance(e, ast.Subscript):
            parts.append("[]")
            e = e.value
        elif isinstance(e, ast.Call):
            parts.append("()")
            e = e.func
        elif isinstance(e, ast.Name):
            parts.append(e.id)
            break
        else:
            parts.append("?")
            break
    return list(reversed(parts))


def reads_attr(e: ast.AST, attr: str) -> bool:
    for n in ast.walk(e):
        if isinstance(n, ast.Attribute) and n.attr == attr:
            return True
    return False


def names_in(e: ast.AST) -> set[str]:
    return {n.id for n in ast.walk(e) if isinstance(n, ast.Name)}


def kw(call: ast.Call, name: str) -> ast.expr | None:
    for k in call.keywords:
        if k.arg == name:
            return k.value
    return None


def arg(call: ast.Call, pos: int, name: str | None = None) -> ast.expr | None:
    if len(call.args) > pos and not any(isinstance(a, ast.Starred) for a in call.args[: pos + 1]):
        return call.args[pos]
    if name is not None:
        return kw(call, name)
    return None


def is_const(e: ast.AST | None, value) -> bool:
    return isinstance(e, ast.Constant) and e.value is value or (isinstance(e, ast.Constant) and e.value == value and type(e.value) is type(value))


def local_defs(f: FuncInfo, name: str) -> list[ast.expr]:
    """Value expressions assigned to local `name` in f (flow-insensitive)."""
    out = []
    for n in ast.walk(f.node):
        if isinstance(n, ast.Assign):
            for t in n.targets:
                if isinstance(t, ast.Name) and t.id == name:
                    out.append(n.value)
                elif isinstance(t, (ast.Tuple, ast.List)):
                    for i, el in enumerate(t.elts):
                        if isinstance(el, ast.Name) and el.id == name:
                            if isinstance(n.value, (ast.Tuple, ast.List)) and len(n.value.elts) == len(t.elts):
                                out.append(n.value.elts[i])
                            else:
                                out.append(n.value)
        elif isinstance(n, ast.AnnAssign) and isinstance(n.target, ast.Name) and n.target.id == name and n.value is not None:
            out.append(n.value)
        elif isinstance(n, ast.NamedExpr) and isinstance(n.target, ast.Name) and n.target.id == name:
            out.append(n.value)
    return out


def expand_locals(f: FuncInfo, e: ast.AST, depth: int = 8) -> list[ast.AST]:
    """e plus the definitions of local names it mentions (transitively, bounded) - a cheap def-use closure."""
    out = [e]
    frontier = [e]
    seen: set[str] = set()
    for _ in range(depth):
        nxt = []
        for x in frontier:
            for nm in names_in(x):
                if nm in seen:
                    continue
                seen.add(nm)
                for d in local_defs(f, nm):
                    out.append(d)
                    nxt.append(d)
        frontier = nxt
    return out


PURE_CALLS = {
    "mnc", "qnc", "len", "str", "int", "float", "bool", "tuple", "list", "dict", "set", "frozenset", "zip", "min", "max", "sorted", "reversed", "getattr", "isinstance",
    "fromtimestamp", "fromisoformat", "timedelta", "total_seconds", "get_queue_marker", "full_message_name_from_short", "parse_short_message_name", "parse_message_name",
    "keys", "values", "items", "get", "encode", "decode", "copy", "format", "startswith", "split", "join", "partial", "cast", "construct", "deconstruct", "wait_until",
    "wait_timestamp", "signature", "asyncify", "ceil", "floor", "isoformat",
}


def _inlinable(v: ast.AST, calls: str, awaits: bool) -> bool:
    for n in ast.walk(v):
        if isinstance(n, (ast.Await, ast.Yield, ast.YieldFrom)) and not awaits:
            return False
        if isinstance(n, ast.Call) and calls != "all":
            d = dotted(n.func) or (n.func.attr if isinstance(n.func, ast.Attribute) else "")
            if d.split(".")[-1] not in PURE_CALLS:
                return False
        if isinstance(n, (ast.Lambda, ast.NamedExpr)):
            return False
    return True


def inline_locals(f: FuncInfo, e: ast.AST | None, depth: int = 8, calls: str = "pure", awaits: bool = False) -> ast.AST | None:
    """A copy of e in which every local name with exactly one plain definition is replaced by that definition (recursively).

    Makes comparisons robust against 'introduce a temporary' / 'inline a temporary' refactorings."""
    import copy

    if e is None:
        return None
    params = {p.arg for p in f.params()}
    single: dict[str, ast.expr] = {}
    counts: dict[str, int] = {}
    for n in ast.walk(f.node):
        tgts = []
        if isinstance(n, ast.Assign):
            for t in n.targets:
                if isinstance(t, ast.Name):
                    tgts.append((t.id, n.value))
                elif isinstance(t, (ast.Tuple, ast.List)):
                    for el in ast.walk(t):
                        if isinstance(el, ast.Name):
                            tgts.append((el.id, None))
        elif isinstance(n, ast.AnnAssign) and isinstance(n.target, ast.Name) and n.value is not None:
            tgts.append((n.target.id, n.value))
        elif isinstance(n, (ast.AugAssign, ast.NamedExpr)) and isinstance(n.target, ast.Name):
            tgts.append((n.target.id, None))
        elif isinstance(n, (ast.For, ast.AsyncFor, ast.comprehension)):
            for el in ast.walk(n.target):
                if isinstance(el, ast.Name):
                    tgts.append((el.id, None))
        elif isinstance(n, (ast.With, ast.AsyncWith)):
            for it in n.items:
                if it.optional_vars is not None:
                    for el in ast.walk(it.optional_vars):
                        if isinstance(el, ast.Name):
                            tgts.append((el.id, None))
        elif isinstance(n, ast.ExceptHandler) and n.name:
            tgts.append((n.name, None))
        for name, val in tgts:
            counts[name] = counts.get(name, 0) + 1
            if val is not None:
                single[name] = val
            else:
                single.pop(name, None)
                counts[name] += 1  # poison
    single = {k: v for k, v in single.items() if counts.get(k) == 1 and k not in params and _inlinable(v, calls, awaits)}

    class T(ast.NodeTransformer):
        def __init__(self, d):
            self.d = d

        def visit_Name(self, node):
            if isinstance(node.ctx, ast.Load) and node.id in single and self.d > 0:
                return T(self.d - 1).visit(copy.deepcopy(single[node.id]))
            return node

    return T(depth).visit(copy.deepcopy(e))


def resolve_base(f: FuncInfo, e: ast.AST, depth: int = 6) -> ast.AST:
    """e with only the *base name* of its attribute/subscript/call chain replaced by its single local definition
    (`bucket = q.delayed.setdefault(t, [])`; `bucket.append(m)` -> `q.delayed.setdefault(t, []).append(m)`); arguments are left alone."""
    import copy

    e = copy.deepcopy(e)
    for _ in range(depth):
        parent, cur = None, e
        while isinstance(cur, (ast.Attribute, ast.Subscript, ast.Call)):
            parent, cur = cur, (cur.func if isinstance(cur, ast.Call) else cur.value)
        if not isinstance(cur, ast.Name) or cur.id in ("self", "cls"):
            return e
        one = inline_locals(f, ast.Name(id=cur.id, ctx=ast.Load()), depth=1, calls="all")
        if isinstance(one, ast.Name) and one.id == cur.id:
            return e
        if parent is None:
            e = one
        elif isinstance(parent, ast.Call):
            parent.func = one
        else:
            parent.value = one
    return e


def utext(f: FuncInfo, e: ast.AST | None, calls: str = "pure", awaits: bool = False) -> str:
    """unparse(e) after inlining single-definition locals (pure definitions only, unless asked otherwise)."""
    return unparse(inline_locals(f, e, calls=calls, awaits=awaits)) if e is not None else ""


# ----------------------------------------------------------------------------- refactoring-tolerant views
def helper_callees(ctx, f: FuncInfo, depth: int = 2) -> list[FuncInfo]:
    """Same-class / same-module helpers (transitively) that f calls directly (sync, or async and awaited)."""
    out: list[FuncInfo] = []
    seen = {f.qualname}
    frontier = [f]
    for _ in range(depth):
        nxt = []
        for g in frontier:
            for c in ast.walk(g.node):
                if not isinstance(c, ast.Call):
                    continue
                for cal in ctx.res.callees(g, c):
                    if cal.qualname in seen or isinstance(cal.node, ast.Lambda):
                        continue
                    same = (cal.cls is not None and f.cls is not None and cal.cls.qualname in {k.qualname for k in ctx.prog.mro(f.cls.qualname)}) or \
                           (cal.cls is None and cal.module is f.module and cal.parent is None)
                    if same and cal.name not in ("__init__", "__new__", "__post_init__"):
                        seen.add(cal.qualname)
                        out.append(cal)
                        nxt.append(cal)
        frontier = nxt
    return out


def flat_walk(ctx, f: FuncInfo, depth: int = 2):
    """(owner function, ast node) for every node of f and of the helpers it calls (helper extraction tolerant)."""
    for n in ast.walk(f.node):
        yield f, n
    for h in helper_callees(ctx, f, depth):
        for n in ast.walk(h.node):
            yield h, n


def iterations(f: FuncInfo):
    """(target, iter expr, body nodes, node) for every for-loop / comprehension generator in f."""
    for n in ast.walk(f.node):
        if isinstance(n, (ast.For, ast.AsyncFor)):
            yield n.target, n.iter, n.body, n
        elif isinstance(n, (ast.ListComp, ast.SetComp, ast.GeneratorExp, ast.DictComp)):
            for g in n.generators:
                body = [n.elt] if not isinstance(n, ast.DictComp) else [n.key, n.value]
                yield g.target, g.iter, body, n


def origin_text(f: FuncInfo, e: ast.AST | None) -> str:
    return utext(f, e)


def is_param(f: FuncInfo, e: ast.AST | None, name: str | None = None, pos: int | None = None) -> bool:
    if not isinstance(e, ast.Name):
        return False
    params = [p.arg for p in f.params()]
    if e.id not in params:
        return False
    if name is not None and e.id != name:
        return False
    if pos is not None and params.index(e.id) != pos:
        return False
    return True


def negate_aware_ifexp(e: ast.AST):
    """(test, value_if_true, value_if_false) with `not`/IsNot/NotEq tests normalised to their positive form."""
    if not isinstance(e, ast.IfExp):
        return None
    t, a, b = e.test, e.body, e.orelse
    while isinstance(t, ast.UnaryOp) and isinstance(t.op, ast.Not):
        t, a, b = t.operand, b, a
    if isinstance(t, ast.Compare) and len(t.ops) == 1 and isinstance(t.ops[0], (ast.IsNot, ast.NotEq, ast.NotIn)):
        pos = {ast.IsNot: ast.Is, ast.NotEq: ast.Eq, ast.NotIn: ast.In}[type(t.ops[0])]()
        t = ast.Compare(left=t.left, ops=[pos], comparators=t.comparators)
        a, b = b, a
    return t, a, b


def deep_defs(ctx, f: FuncInfo, e: ast.AST, depth: int = 2) -> list[tuple[FuncInfo, ast.AST]]:
    """(function, expression) pairs e is computed from: e, the definitions of the locals it mentions (transitively) and - through calls of
    private helpers of the same class / module - the values those helpers return (parameters substituted by the caller's arguments)
    together with *their* local definitions. 'Extract function' tolerant def-use closure."""
    from .. import flow as _flow

    out: list[tuple[FuncInfo, ast.AST]] = []
    helpers = {h.qualname for h in helper_callees(ctx, f, depth)} if depth > 0 else set()
    for x in expand_locals(f, e):
        out.append((f, x))
        if depth <= 0:
            continue
        for c in ast.walk(x):
            if isinstance(c, ast.Call):
                for cal in ctx.res.callees(f, c, record=False):
                    if cal.qualname in helpers and not isinstance(cal.node, ast.Lambda):
                        sub = _flow._substituted(cal, c)
                        for r in own_returns(sub):
                            if r.value is not None:
                                out.extend(deep_defs(ctx, sub, r.value, depth - 1))
    return out


def _none_default_params(f: FuncInfo) -> set[str]:
    a_ = f.node.args
    allp = a_.posonlyargs + a_.args
    return {x.arg for x, dv in zip(allp[len(allp) - len(a_.defaults):], a_.defaults) if isinstance(dv, ast.Constant) and dv.value is None} | \
        {x.arg for x, dv in zip(a_.kwonlyargs, a_.kw_defaults) if isinstance(dv, ast.Constant) and dv.value is None}


def injected_default(f: FuncInfo, e: ast.AST | None) -> ast.AST | None:
    """'Optional dependency' idiom: what a name stands for in the default configuration.
      x = D if p is None else p   /   x = p if p is not None else D   /   x = p or D        -> x stands for D
      if p is None: p = D   (the only assignment of the parameter p)                        -> p stands for D
    where p is a parameter whose default is None. Otherwise e itself. (What callers inject is theirs to answer for.)"""
    if not isinstance(e, ast.Name) or isinstance(f.node, ast.Lambda):
        return e
    none_default = _none_default_params(f)
    if e.id in none_default:
        assigns = [(a, a.value) for a in ast.walk(f.node) if isinstance(a, ast.Assign) and any(isinstance(t, ast.Name) and t.id == e.id for t in a.targets)]
        if len(assigns) == 1:
            for i in ast.walk(f.node):
                if isinstance(i, ast.If) and not i.orelse and assigns[0][0] in i.body and isinstance(i.test, ast.Compare) and isinstance(i.test.ops[0], ast.Is) \
                        and dotted(i.test.left) == e.id and is_const(i.test.comparators[0], None):
                    return assigns[0][1]
        return e
    defs = local_defs(f, e.id)
    if len(defs) != 1:
        return e
    d = defs[0]
    t = negate_aware_ifexp(d)
    if t is not None and isinstance(t[0], ast.Compare) and isinstance(t[0].ops[0], ast.Is) and is_const(t[0].comparators[0], None) and dotted(t[0].left) in none_default \
            and dotted(t[2]) == dotted(t[0].left):
        return t[1]
    if isinstance(d, ast.BoolOp) and isinstance(d.op, ast.Or) and len(d.values) == 2 and dotted(d.values[0]) in none_default:
        return d.values[1]
    return e


def expand_helper_calls(ctx, f: FuncInfo, e: ast.AST, depth: int = 2) -> ast.AST:
    """A copy of e in which every call of a small pure private helper (see call_as_expr) is replaced by the expression it returns."""
    import copy

    class T(ast.NodeTransformer):
        def visit_Call(self, node):
            self.generic_visit(node)
            r = call_as_expr(ctx, f, node, depth)
            return r if r is not node else node

    return T().visit(copy.deepcopy(e))


def nested_of(f: FuncInfo, name: str | None, want_async: bool | None = None):
    """The nested function of f that the local `name` denotes: the nested def of that name, or the one a single-definition local alias points to
    (`_inner = store_result_bucket`); with name None the only nested function (optionally: the only async one)."""
    if name is not None:
        if name in f.nested:
            return f.nested[name]
        defs = local_defs(f, name)
        if len(defs) == 1 and isinstance(defs[0], ast.Name) and defs[0].id in f.nested:
            return f.nested[defs[0].id]
        return None
    cands = [n for n in f.nested.values() if want_async is None or n.is_async == want_async]
    return cands[0] if len(cands) == 1 else None


def emptiness_test(e: ast.AST) -> ast.AST | None:
    """X if e tests that the collection X is empty: `not X`, `len(X) == 0`, `len(X) < 1`, `not len(X)`; else None."""
    if isinstance(e, ast.UnaryOp) and isinstance(e.op, ast.Not):
        inner = e.operand
        if isinstance(inner, ast.Call) and isinstance(inner.func, ast.Name) and inner.func.id == "len" and len(inner.args) == 1:
            return inner.args[0]
        return inner
    if isinstance(e, ast.Compare) and len(e.ops) == 1 and isinstance(e.left, ast.Call) and isinstance(e.left.func, ast.Name) and e.left.func.id == "len" and len(e.left.args) == 1 \
            and isinstance(e.comparators[0], ast.Constant):
        k = (type(e.ops[0]), e.comparators[0].value)
        if k in ((ast.Eq, 0), (ast.Lt, 1), (ast.LtE, 0)):
            return e.left.args[0]
    return None


def stored_value(f: FuncInfo, target: str) -> ast.expr | None:
    """The value stored to `target` (dotted text, e.g. 'self.store_result') in f as ONE expression: the assigned value when there is a single
    store, or the equivalent conditional expression when the two arms of one if/else each store it once (`x = a if c else b` <-> if c: x = a else: x = b)."""
    def stores_in(stmts):
        return [n for st in stmts for n in ast.walk(st) if isinstance(n, (ast.Assign, ast.AnnAssign)) and n.value is not None
                and any(dotted(t) == target for t in (n.targets if isinstance(n, ast.Assign) else [n.target]))]

    all_st = stores_in(f.node.body)
    if len(all_st) == 1:
        return all_st[0].value
    if len(all_st) == 2:
        for i in ast.walk(f.node):
            if isinstance(i, ast.If) and i.orelse:
                a, b = stores_in(i.body), stores_in(i.orelse)
                if len(a) == 1 and len(b) == 1 and a[0] in i.body and b[0] in i.orelse:
                    return ast.copy_location(ast.IfExp(test=i.test, body=a[0].value, orelse=b[0].value), i)
        # default first, then conditionally overwritten:  x = d; if c: x = v   ==  v if c else d
        first, second = all_st
        for i in ast.walk(f.node):
            if isinstance(i, ast.If) and not i.orelse and second in i.body and first in f.node.body and f.node.body.index(first) < next(
                    (k for k, st in enumerate(f.node.body) if any(x is i for x in ast.walk(st))), -1):
                return ast.copy_location(ast.IfExp(test=i.test, body=second.value, orelse=first.value), i)
    return None


def call_as_expr(ctx, f: FuncInfo, e: ast.AST | None, depth: int = 2) -> ast.AST | None:
    """If e is a call of a small pure helper (one resolvable callee whose body is a chain of `if T: return A` ending in `return B`), the
    equivalent conditional expression in the caller's terms (parameters substituted); otherwise e itself. 'Extract function' tolerant."""
    from .. import flow as _flow

    if not isinstance(e, ast.Call) or depth <= 0:
        return e
    cals = ctx.res.callees(f, e, record=False)
    if len(cals) != 1 or cals[0].is_async:
        return e
    def conv(stmts):
        if not stmts:
            return None
        st = stmts[0]
        if isinstance(st, ast.Return):
            return st.value if st.value is not None else ast.Constant(value=None)
        if isinstance(st, ast.If):
            a = conv(st.body)
            b = conv(st.orelse) if st.orelse else conv(stmts[1:])
            if a is None or b is None:
                return None
            return ast.IfExp(test=st.test, body=a, orelse=b)
        return None

    def body_of(fi):
        return [st for st in fi.node.body if not (isinstance(st, ast.Expr) and isinstance(st.value, ast.Constant))]

    raw = conv(body_of(cals[0]))
    if raw is None:
        return e
    # every parameter the expression reads must be bound to a simple argument (the result has to read in the caller's terms)
    params = [p_.arg for p_ in cals[0].params()]
    if cals[0].cls is not None and "staticmethod" not in cals[0].decorators and params and isinstance(e.func, ast.Attribute):
        params = params[1:]
    bound = {params[i] for i, a in enumerate(e.args) if i < len(params) and isinstance(a, (ast.Name, ast.Attribute, ast.Constant))}
    bound |= {k.arg for k in e.keywords if k.arg is not None and isinstance(k.value, (ast.Name, ast.Attribute, ast.Constant))}
    used = {x.id for x in ast.walk(raw) if isinstance(x, ast.Name) and x.id in params}
    if not used <= bound:
        return e
    out = conv(body_of(_flow._substituted(cals[0], e)))
    if out is None:
        return e
    return ast.fix_missing_locations(ast.copy_location(out, e))


def multi_defs(f: FuncInfo, name: str) -> list[ast.expr]:
    return local_defs(f, name)


def returned_values(f: FuncInfo) -> list[ast.expr]:
    """Value expressions a function can return: direct return values, and for `return <local>` every definition of that local."""
    out: list[ast.expr] = []
    for r in ast.walk(f.node):
        if isinstance(r, ast.Return) and r.value is not None:
            v = r.value
            if isinstance(v, ast.Name) and v.id not in {p.arg for p in f.params()}:
                defs = local_defs(f, v.id)
                if defs:
                    out += defs
                    continue
            out.append(v)
    return out


def fstring_templates(f: FuncInfo, e: ast.AST, depth: int = 3) -> set[str]:
    """All shapes an f-string / str constant can take, '{}' for every non-constant hole; local names are expanded over all their definitions."""
    if isinstance(e, ast.Constant) and isinstance(e.value, str):
        return {e.value}
    if isinstance(e, ast.Name) and depth > 0:
        defs = local_defs(f, e.id)
        if defs and all(isinstance(d, (ast.JoinedStr, ast.Constant, ast.Name)) for d in defs):
            out: set[str] = set()
            for d in defs:
                out |= fstring_templates(f, d, depth - 1)
            return out
        return {"{}"}
    if isinstance(e, ast.JoinedStr):
        parts: list[set[str]] = []
        for v in e.values:
            if isinstance(v, ast.Constant):
                parts.append({str(v.value)})
            elif isinstance(v, ast.FormattedValue):
                if isinstance(v.value, ast.Name) and depth > 0 and local_defs(f, v.value.id) and all(
                        isinstance(d, (ast.JoinedStr, ast.Constant)) for d in local_defs(f, v.value.id)):
                    parts.append(fstring_templates(f, v.value, depth - 1))
                elif isinstance(v.value, ast.IfExp) and isinstance(v.value.body, ast.Constant) and isinstance(v.value.orelse, ast.Constant):
                    parts.append({str(v.value.body.value), str(v.value.orelse.value)})
                else:
                    parts.append({"{}"})
        res = {""}
        for p in parts:
            res = {a + b for a in res for b in p}
        return res
    return {"{}"}


def text_template(f: FuncInfo, e: ast.AST | None, depth: int = 3) -> str | None:
    """The text e evaluates to, with `{expr}` for every non-constant hole: f-strings, str constants, `+` concatenation, implicit joins
    (`sep.join([piece, ...])` with a literal list, possibly held in a single-definition local). None if e is not of that shape."""
    if e is None:
        return None
    if isinstance(e, ast.Constant) and isinstance(e.value, str):
        return e.value.replace("{", "{{").replace("}", "}}")
    if isinstance(e, ast.JoinedStr):
        out = ""
        for v in e.values:
            if isinstance(v, ast.Constant):
                out += str(v.value).replace("{", "{{").replace("}", "}}")
            else:
                out += "{" + unparse(v.value) + "}"
        return out
    if isinstance(e, ast.BinOp) and isinstance(e.op, ast.Add):
        a, b = text_template(f, e.left, depth), text_template(f, e.right, depth)
        return a + b if a is not None and b is not None else None
    if isinstance(e, ast.Call) and isinstance(e.func, ast.Attribute) and e.func.attr == "join" and len(e.args) == 1:
        sep = text_template(f, e.func.value, depth)
        seq = e.args[0]
        if isinstance(seq, ast.Name) and depth > 0:
            defs = local_defs(f, seq.id)
            seq = defs[0] if len(defs) == 1 else seq
        if sep is None or not isinstance(seq, (ast.List, ast.Tuple)):
            return None
        parts = [text_template(f, x, depth) for x in seq.elts]
        return sep.join(parts) if all(p_ is not None for p_ in parts) else None
    if isinstance(e, ast.Name):
        if depth > 0:
            defs = local_defs(f, e.id)
            if len(defs) == 1 and isinstance(defs[0], (ast.JoinedStr, ast.BinOp)) or (len(defs) == 1 and isinstance(defs[0], ast.Call) and isinstance(defs[0].func, ast.Attribute) and defs[0].func.attr == "join"):
                return text_template(f, defs[0], depth - 1)
        return "{" + e.id + "}"
    return "{" + unparse(e) + "}"


def collection_build(f: FuncInfo, name: str):
    """How the local list/dict `name` is built: ('comp', target, iter, elt/(key,value), ifs) or ('loop', target, iter, appended expr/(key,value), guards) or None.
    Guards of the loop form are the tests of the enclosing ifs plus `not c` for every `if c: continue` that precedes the insertion in the loop body."""
    for d in local_defs(f, name):
        if isinstance(d, (ast.ListComp, ast.DictComp)) and len(d.generators) == 1:
            g = d.generators[0]
            elt = d.elt if isinstance(d, ast.ListComp) else (d.key, d.value)
            return ("comp", g.target, g.iter, elt, list(g.ifs))

    def guards_of(lp, st):
        guards = [i.test for i in ast.walk(lp) if isinstance(i, ast.If) and any(x is st for b in i.body for x in ast.walk(b))]
        guards += [ast.UnaryOp(op=ast.Not(), operand=i.test) for i in ast.walk(lp) if isinstance(i, ast.If) and any(x is st for b in i.orelse for x in ast.walk(b))]
        for top in lp.body:
            if any(x is st for x in ast.walk(top)):
                break
            if isinstance(top, ast.If) and not top.orelse and top.body and isinstance(top.body[-1], ast.Continue):
                guards.append(ast.UnaryOp(op=ast.Not(), operand=top.test))
        return guards

    for lp in ast.walk(f.node):
        if isinstance(lp, ast.For):
            for st in ast.walk(lp):
                if isinstance(st, ast.Call) and isinstance(st.func, ast.Attribute) and dotted(st.func.value) == name and st.func.attr == "append" and len(st.args) == 1:
                    return ("loop", lp.target, lp.iter, st.args[0], guards_of(lp, st))
                if isinstance(st, ast.Assign) and len(st.targets) == 1 and isinstance(st.targets[0], ast.Subscript) and dotted(st.targets[0].value) == name:
                    return ("loop", lp.target, lp.iter, (st.targets[0].slice, st.value), guards_of(lp, st))
    return None


def deep_returns(ctx, f: FuncInfo, depth: int = 2) -> list[tuple[FuncInfo, ast.expr | None]]:
    """(function, returned expression) of f where `return helper(...)` of a private helper is replaced by the helper's own returns (parameters substituted)."""
    from .. import flow as _flow

    out = []
    helpers = {h.qualname for h in helper_callees(ctx, f)} if depth > 0 else set()
    for r in own_returns(f):
        v = r.value
        inner = v.value if isinstance(v, ast.Await) else v
        done = False
        if isinstance(inner, ast.Call):
            cals = [c for c in ctx.res.callees(f, inner, record=False) if c.qualname in helpers]
            if len(cals) == 1:
                out.extend(deep_returns(ctx, _flow._substituted(cals[0], inner), depth - 1))
                done = True
        if not done:
            out.append((f, v))
    return out


def feeds(f: FuncInfo, e: ast.AST, depth: int = 3) -> list[ast.AST]:
    """e, the definitions of the locals it mentions, and everything appended/added/extended into those locals (transitively)."""
    out = expand_locals(f, e, depth)
    names = set()
    for x in out:
        names |= names_in(x)
    for c in ast.walk(f.node):
        if isinstance(c, ast.Call) and isinstance(c.func, ast.Attribute) and c.func.attr in ("append", "add", "extend", "update") and isinstance(c.func.value, ast.Name) \
                and c.func.value.id in names:
            for a in c.args:
                out += expand_locals(f, a, depth)
    return out


def bind_call(callee: FuncInfo, call: ast.Call) -> dict[str, ast.expr]:
    """parameter name -> argument expression of `call` (self/cls skipped for methods called through an attribute)."""
    params = [p.arg for p in callee.params()]
    if callee.cls is not None and "staticmethod" not in callee.decorators and params and isinstance(call.func, ast.Attribute):
        params = params[1:]
    out: dict[str, ast.expr] = {}
    for i, a in enumerate(call.args):
        if isinstance(a, ast.Starred) or i >= len(params):
            break
        out[params[i]] = a
    for k in call.keywords:
        if k.arg is not None:
            out[k.arg] = k.value
    return out


def flat_walk_bound(ctx, f: FuncInfo, depth: int = 2):
    """Like flat_walk, but nodes of a helper are yielded with the helper's parameters replaced by the call-site arguments
    (only for helpers called from exactly one site), so that argument texts read as if the helper were inlined."""
    import copy

    for n in ast.walk(f.node):
        yield f, n
    frontier = [(f, f.node)]
    seen = {f.qualname}
    for _ in range(depth):
        nxt = []
        for owner, root in frontier:
            sites: dict[str, list[tuple[FuncInfo, ast.Call]]] = {}
            for c in ast.walk(root):
                if isinstance(c, ast.Call):
                    for cal in ctx.res.callees(owner, c):
                        if cal in helper_callees(ctx, f, depth) and cal.qualname not in seen:
                            sites.setdefault(cal.qualname, []).append((cal, c))
            for q, lst in sites.items():
                cal, c = lst[0]
                seen.add(q)
                body = copy.deepcopy(cal.node)
                if len(lst) == 1:
                    binding = bind_call(cal, c)

                    class T(ast.NodeTransformer):
                        def visit_Name(self, node):
                            if isinstance(node.ctx, ast.Load) and node.id in binding:
                                return copy.deepcopy(binding[node.id])
                            return node

                    body = T().visit(body)
                for n in ast.walk(body):
                    yield cal, n
                nxt.append((cal, body))
        frontier = nxt


def own_nodes(f: FuncInfo):
    """ast nodes of f's own body, not descending into nested function / class definitions or lambdas."""
    todo = list(f.node.body) if isinstance(f.node.body, list) else [f.node.body]
    while todo:
        n = todo.pop(0)
        if isinstance(n, (ast.FunctionDef, ast.AsyncFunctionDef, ast.ClassDef, ast.Lambda)):
            continue
        yield n
        for ch in ast.iter_child_nodes(n):
            todo.append(ch)


def own_returns(f: FuncInfo) -> list[ast.Return]:
    return [n for n in own_nodes(f) if isinstance(n, ast.Return)]


def constructions(ctx, f: FuncInfo, roots, ctor_last: str) -> list[tuple[ast.AST, dict[str, ast.expr]]]:
    """Constructions `<...>.<ctor_last>(kw=...)` found under `roots` (ast nodes of f), directly or through a local / private helper that returns
    such a construction: [(call site node in f, {keyword: value expression as seen from f})]."""
    import copy

    out = []
    for root in roots:
        for c in ast.walk(root):
            if not isinstance(c, ast.Call):
                continue
            d = dotted(c.func) or ""
            if d.split(".")[-1] == ctor_last:
                out.append((c, {k.arg: k.value for k in c.keywords if k.arg}))
                continue
            for cal in ctx.res.callees(f, c, record=False):
                if isinstance(cal.node, ast.Lambda) or not (cal.parent is f or (cal.cls is not None and f.cls is not None and cal.cls.qualname == f.cls.qualname)):
                    continue
                for r in own_returns(cal):
                    v = r.value
                    if isinstance(v, ast.Call) and (dotted(v.func) or "").split(".")[-1] == ctor_last:
                        binding = bind_call(cal, c)

                        class T(ast.NodeTransformer):
                            def visit_Name(self, node):
                                if isinstance(node.ctx, ast.Load) and node.id in binding:
                                    return copy.deepcopy(binding[node.id])
                                return node

                        out.append((c, {k.arg: T().visit(copy.deepcopy(k.value)) for k in v.keywords if k.arg}))
    return out


def values_under(g, f: FuncInfo, e: ast.AST | None, reach: set[int]) -> list[ast.AST]:
    """The expressions `e` can stand for on the paths in `reach`: for a local assigned in several branches, the values stored on reachable nodes."""
    if e is None:
        return []
    if isinstance(e, ast.Name) and len(local_defs(f, e.id)) > 1:
        vals = [s.meta.get("value") for s in g.nodes if s.kind == "store" and s.target == e.id and s.id in reach and s.func is f and s.meta.get("value") is not None]
        return vals or [e]
    return [inline_locals(f, e) or e]
