"""C09 - Concurrency never exceeds tasks_limit and the worker never stalls (safety half)."""
from __future__ import annotations

from ..engine import Ctx
from .runner import actor_contained, own_rule, pair_rule, pause_lock_protocol, pause_rule, rabbit_pause_flag, sync_actor_contained

SUMMARY = "Semaphore discipline: one permit per spawned processing task, released exactly once when the task ends; ownership of the limiter."
DECIDED = [
    "R-C09-PAIR: on every receive-to-receive segment of the consume loop #acquire - #release = #spawned tasks (<= 1), the task is spawned "
    "after the acquire and gets the done-callback; the callback releases exactly once on every path with nothing that can raise before it "
    "(or the task releases on all of its exits)",
    "R-C09-OWN: the limiter is touched only by the runner's loop/callback; actor_run is entered only from process(), process() only from "
    "_process_with_event, which is spawned only by the consume loop; the limiter is Semaphore(tasks_limit) (argument mapping Worker -> runner)",
    "R-C09-PAUSE: on the saturated arm pause -> acquire -> unpause in that order, no pause while a slot is free; in-memory pause is idempotent; "
    "the consumers' pause lock is a flag: only pause() keeps it, every other acquirer releases it again before its next suspension point (no reader holds it across a fetch); RabbitMQ: the flag pause() raises is the one "
    "on_new_message tests and unpause() lowers",
    "R-C09-CONTAIN: the coroutine of actor.fn(...) is awaited in place by actor_run (directly or as the operand of asyncio.wait_for): nothing detaches the actor body "
    "from the processing task whose end frees the slot; a synchronous actor runs in an executor that the asyncify wrapper creates and shuts down (waits for) around that one call",
    "R-C09-PAUSE (scan): the Redis fetch pages until a page is empty (no other bound on the paging loop); R-C09-OWN (topics): C11's registry rules reused - every registered topic is consumed",
    "R-C09-PAUSE (round 5): every guarded poll step of the Redis background consume task catches Exception (redis-py errors are not builtin ConnectionErrors): the task nobody awaits cannot die of one hiccup; R-C09-OWN: _forget_topic tests and deletes the set it discarded from",
    "R-C09-PAIR / R-C09-PAUSE (round 6 + sweep): explicit `await consumer.consume()` loops are receive events for the slot pairing; RabbitMQ pause / unpause move the prefetch window, a paused consumer bounces, re-subscription after a server-side cancel",
    "R-C09-AWAITED: in the files this property is anchored in, no bare statement calls a coroutine function (the operation would never run)",
    "R-C09-PAUSE (Redis sweep rules): Redis pause lock protocol, gate before every take, poll task created and kept",
]
NOT_DECIDED = ["'makes progress / every job eventually executed' (liveness)", "lost wake-ups inside asyncio primitives"]
ASSUMPTIONS = ["asyncio.Semaphore counts permits correctly; a done-callback runs exactly once when its task ends (normally, by exception or cancellation)"]


def run(ctx: Ctx) -> None:
    from .shared import every_operation_awaited

    every_operation_awaited(ctx, "R-C09-AWAITED")  # in the files this property is anchored in, no asynchronous operation is created and dropped
    from .brokers import redis_lifecycle

    redis_lifecycle(ctx, "R-C09-PAUSE")  # Redis consumer: poll task, pause lock protocol, gate, hand-over
    from .brokers import rabbit_delivery_details, rabbit_delivery_table, rabbit_lifecycle

    rabbit_lifecycle(ctx, "R-C09-PAUSE")  # RabbitMQ pause / unpause really move the prefetch window; a started consumer is marked consuming
    rabbit_delivery_table(ctx, "R-C09-PAUSE")  # a paused consumer bounces deliveries, an unpaused consuming one accepts them
    rabbit_delivery_details(ctx, "R-C09-PAUSE")  # no-stall: headers read when present, re-subscription after a server-side cancel, fast path only on a non-empty buffer
    pair_rule(ctx, "R-C09-PAIR")
    own_rule(ctx, "R-C09-OWN")
    pause_rule(ctx, "R-C09-PAUSE")
    pause_lock_protocol(ctx, "R-C09-PAUSE")
    rabbit_pause_flag(ctx, "R-C09-PAUSE")
    from .C11 import sync

    with ctx.as_rule("R-C09-OWN"):
        sync(ctx, "R-C09-OWN")  # every registered actor's topic is among the topics its queue is consumed for: no enqueued job is left unconsumed
    from .brokers import redis_poll_errors_contained

    redis_poll_errors_contained(ctx, "R-C09-PAUSE")
    from .brokers import redis_scan_exhaustive

    redis_scan_exhaustive(ctx, "R-C09-PAUSE")  # no-stall: deliverable messages behind foreign ones are found
    actor_contained(ctx, "R-C09-CONTAIN")
    sync_actor_contained(ctx, "R-C09-CONTAIN")
