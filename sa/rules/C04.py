"""C04 - Retries are bounded, counted and backed off as configured."""
from __future__ import annotations

import ast

from .. import flow
from ..engine import Ctx
from ..model import dotted, unparse
from . import common as C
from .ladder import (
    check_ladder,
    check_ladder_arguments,
    check_prepare_reschedule,
    check_prepare_retry,
    is_plus_one_of,
)
from .shared import category_env, flag_env, message_action_facts, ord_env
from .delay import check_route

SUMMARY = "Transfer function of one attempt (guard, counter +1, back-off from the policy); the N+1 bound follows by induction."
DECIDED = [
    "R-C04-GUARD: the retry guard of report_to_broker admits a retry iff already_tried < max_amount (three orderings "
    "evaluated) and Message.retry refuses iff already_tried >= max_amount - exact complements; force_retry has no budget guard",
    "R-C04-STEP: _prepare_retry stores already_tried + 1 and next_execution_time = now + back-off on a copy only; the "
    "processor calls the actor's retry policy with already_tried + 1",
    "R-C04-ORDER: in the ladder a failure with budget left is retried even for recurring jobs; a success is never retried",
    "R-C04-ROUTE: every broker's requeue routes the message by its next execution time (shared with C05)",
    "R-C04-MSG: Message.retry/force_retry pass _prepare_retry(next_retry) to requeue; the eager retry defaults to the "
    "policy value for already_tried + 1",
    "R-C04-ROUTE (rounding): the due time of a retry is not moved earlier by its conversion for the broker (C05's rounding lattice and the whole-duration rule reused)",
    "R-C04-STEP (stored): Redis requeue overwrites the stored parameters (HSET), so the incremented counter is what the next delivery sees",
    "R-C04-STEP (round 5): RabbitMQ terminal operations pop and use the delivery tag of key.id_; requeue acks the failed delivery before it publishes the retry copy (same id: the copy's delivery would overwrite the tag)",
    "R-C04-GUARD / R-C04-ORDER (round 6): a refused eager retry stays the actor's failure (retry() does not nack on its own); report_to_broker is not shielded from the runner's cancel + reject",
    "R-C04-AWAITED: in the files this property is anchored in, no bare statement calls a coroutine function (the operation would never run)",
    "R-C04-ROUTE (sweep stage two): an explicit next_retry is the retry's delay; only a missing one is replaced (zero in Message, the policy's delay for attempt k+1 in MessageDependency)",
]
NOT_DECIDED = ["delivery time versus the policy value as a measured quantity", "user-supplied retry policies"]
ASSUMPTIONS = ["attempt counting is by induction over deliveries: each delivery applies the transfer function exactly once (C02)"]


def run(ctx: Ctx) -> None:
    from .shared import every_operation_awaited

    every_operation_awaited(ctx, "R-C04-AWAITED")  # in the files this property is anchored in, no asynchronous operation is created and dropped
    from .shared import retry_delay_defaults

    retry_delay_defaults(ctx, "R-C04-ROUTE")  # the k-th retry's delay: the explicit one, else the policy's for k (never dropped to zero, never None)
    lt = check_ladder(ctx, "R-C04-GUARD", rows=lambda s, b, d, c: not s)
    check_ladder(ctx, "R-C04-ORDER", rows=lambda s, b, d, c: (not s and b == "lt" and (d or c)) or s)
    check_ladder_arguments(ctx, "R-C04-STEP", lt, kinds=("retry",))
    check_prepare_retry(ctx, "R-C04-STEP")
    check_prepare_reschedule(ctx, "R-C04-STEP")  # N+1 executions *per scheduling*: a new scheduling starts with a fresh counter
    message_retry(ctx)
    check_route(ctx, "R-C04-ROUTE", ops=("requeue",))
    from .brokers import redis_op_fields

    redis_op_fields(ctx, "R-C04-STEP")  # the parameters with the incremented counter are really stored on requeue (HSET overwrites)
    from .shared import no_shield

    no_shield(ctx, "R-C04-ORDER", ("repid/_processor.py", "repid/_runner.py", "repid/worker.py", "repid/message.py", "repid/dependencies/message_dependency.py", "repid/connections/redis/consumer.py", "repid/connections/redis/message_broker.py", "repid/connections/rabbitmq/consumer.py", "repid/connections/rabbitmq/message_broker.py", "repid/connections/in_memory/consumer.py", "repid/connections/in_memory/message_broker.py"), "a shielded report_to_broker survives the runner's cancel + reject: the retry copy is enqueued next to the returned original - two live copies, more than N+1 executions")
    from .shared import eager_action_rules

    eager_action_rules(ctx, "R-C04-GUARD")  # a refused eager retry is the actor's failure: the ladder (nack, or reschedule for a recurring job) decides, not a nack issued by retry() itself
    from .brokers import rabbit_rules

    rabbit_rules(ctx, rule_t="R-C04-STEP", rule_a="R-C04-STEP", atomic_finding=False)  # the retry copy (counter k+1) is published after the failed delivery's tag was used: the ack never hits the new copy
    from .C05 import rounding
    from .delay import whole_duration_rule

    with ctx.as_rule("R-C04-ROUTE"):
        rounding(ctx, "R-C04-ROUTE")  # the back-off is not shortened by how the due time is converted for the broker (never earlier than failure + policy(k))
        whole_duration_rule(ctx, "R-C04-ROUTE")


def message_retry(ctx: Ctx) -> None:
    kinds = flow.NORMAL_KINDS + ("raise",)
    for action, guarded in (("retry", True), ("force_retry", False)):
        f = ctx.func(f"{C.MESSAGE}.{action}")
        g = flow.inline(f, ctx.res, 3, lambda n, cal: cal.cls is not None and cal.cls.qualname == C.MESSAGE and cal.name not in ("ack", "nack", "reject", "reschedule", "retry", "force_retry"))
        facts = message_action_facts(ctx, f, g)
        rq = [n for n, op in facts["broker_calls"] if op == "requeue"]
        ctx.require(len(rq) == 1, f"{f.qualname}: expected one requeue call, found {len(rq)}")
        b = rq[0]
        for ordering in ("lt", "eq", "gt"):
            env = {**flag_env(False), **category_env(True), **ord_env(g, f, "already_tried", "max_amount", ordering)}
            r = flow.reach_under(g, env, kinds)
            want = (ordering == "lt") or not guarded
            ctx.check((b.id in r) == want, "R-C04-GUARD", f, f"budget guard of Message.{action} [{ordering}]",
                      f"already_tried {ordering} max_amount -> requeue {'reachable' if want else 'refused'}",
                      f"Message.{action}: with already_tried {ordering} max_amount the requeue is {'reachable' if b.id in r else 'refused'} "
                      f"but must be {'reachable' if want else 'refused'}", node=b, instance=f"Message.{action}: ordering {ordering}")
        call = b.ast
        p = C.arg(call, 2, "params")
        prep = None
        for x in C.expand_locals(f, p) if p is not None else []:
            for sub in ast.walk(x):
                if isinstance(sub, ast.Call) and isinstance(sub.func, ast.Attribute) and sub.func.attr == "_prepare_retry":
                    prep = sub
        ok = prep is not None and dotted(prep.func.value) == "self.parameters"
        ctx.check(ok, "R-C04-MSG", f, f"requeue(params=self.parameters._prepare_retry(...)) in Message.{action}",
                  "the re-queued parameters carry the incremented counter and back-off",
                  f"Message.{action} does not requeue self.parameters._prepare_retry(...)", node=b, instance=f"Message.{action}: prepare_retry")
        if prep is not None:
            a = C.arg(prep, 0, "next_retry")
            ok = a is not None and any("next_retry" in C.names_in(x) for x in C.expand_locals(f, a))
            ctx.check(ok, "R-C04-MSG", f, f"next_retry forwarded in Message.{action}", "the caller's back-off is honoured",
                      f"Message.{action} ignores its next_retry argument", node=b, instance=f"Message.{action}: next_retry forwarded")
        k = C.arg(call, 0, "key")
        pl = C.arg(call, 1, "payload")
        ctx.check(dotted(k) == "self._key" and dotted(pl) == "self.raw_payload", "R-C04-MSG", f, f"requeue(key, payload) in Message.{action}",
                  "same key, same payload", f"Message.{action} requeues ({unparse(k)}, {unparse(pl)}) instead of (self._key, self.raw_payload)",
                  node=b, instance=f"Message.{action}: key/payload")
    # eager retry / force_retry default to policy(already_tried + 1)
    for action in ("retry", "force_retry"):
        f = ctx.func(f"{C.MSGDEP}.{action}")
        sup = [n for n in ast.walk(f.node) if isinstance(n, ast.Call) and isinstance(n.func, ast.Attribute) and n.func.attr == action
               and isinstance(n.func.value, ast.Call) and dotted(n.func.value.func) == "super"]
        ctx.require(len(sup) == 1, f"{f.qualname}: super().{action}() call not found")
        a = C.arg(sup[0], 0, "next_retry")
        ok = False
        why = "next_retry is not forwarded"
        if a is not None:
            # the expression itself, the locals it uses, and the bodies of private helpers it calls
            exprs = list(C.expand_locals(f, a))
            for x in list(exprs):
                for c in ast.walk(x):
                    if isinstance(c, ast.Call):
                        for cal in ctx.res.callees(f, c):
                            if cal.cls is not None and cal.cls.qualname == C.MSGDEP:
                                exprs += [r.value for r in ast.walk(cal.node) if isinstance(r, ast.Return) and r.value is not None]
                                exprs += [arg_ for arg_ in c.args] + [k.value for k in c.keywords]
            pol = [c for x in exprs for c in ast.walk(x) if isinstance(c, ast.Call) and isinstance(c.func, ast.Attribute) and c.func.attr == "retry_policy"]
            uses_arg = any("next_retry" in C.names_in(x) for x in exprs)
            if pol and uses_arg:
                pa = C.arg(pol[0], 0, "retry_number")
                ok = pa is not None and is_plus_one_of(pa, "already_tried")
                why = f"default back-off uses retry_policy({unparse(pa) if pa else ''}) instead of already_tried + 1"
            elif not pol:
                why = "no default from the actor's retry policy"
        ctx.check(ok, "R-C04-MSG", f, f"default back-off of eager {action}", "policy value for the k-th retry",
                  f"MessageDependency.{action}: {why}", node=sup[0], instance=f"eager {action}: default back-off")
