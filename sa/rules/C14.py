"""C14 - A message is held by at most one consumer at a time."""
from __future__ import annotations

import ast

from .. import flow
from ..engine import Ctx
from ..model import dotted, unparse
from . import common as C
from .brokers import inmem_consume_rules, inmem_transfer_atomic, rabbit_rules, redis_txn_rules, terminal_callers_rule
from .C02 import race
from .shared import _mentions, await_map

SUMMARY = "Atomic test-and-remove of the take, ownership of what finish() returns, enumeration of the events that make a held message deliverable again."
DECIDED = [
    "R-C14-SHUTDOWN: Worker.run hands held messages back (finish() of the consumers) only after finish_gracefully ended the executions holding them - order "
    "consumers -> finish_gracefully -> finish() -> unregister on every normal path (C03's SHUTDOWN rules, reused)",
    "R-C14-TAKE: in-memory - no suspension point between removing a message from its place and adding it to the processing set; Redis - removal and held-mark are one "
    "MULTI/EXEC transaction AND the transaction's reply must be used to learn whether this consumer actually removed the name (the name was read in an earlier, separate command)",
    "R-C14-FINISH-OWN: finish() may return only what this consumer holds: the container it drains is created by this consumer, not state shared by all consumers of the queue",
    "R-C14-REDELIVER: the only call sites that make a held message deliverable again (reject, requeue) are the processor's ladder, the runner's cancel/limit path, the Message API, "
    "consumer shutdown and Redis maintenance; the runner cancels the processing task before returning its message; maintenance rejects only after the execution timeout",
    "R-C14-TAKE (bounce): a RabbitMQ delivery that was bounced is not also registered / handed to the local queue",
    "R-C14-REDELIVER (finish): C03's finish rules reused - every prefetched message is returned individually by its own tag",
    "R-C14-TAKE (round 6 + sweep): the Redis fetch keeps no names between calls; RabbitMQ delivery decision table",
    "R-C14-AWAITED: in the files this property is anchored in, no bare statement calls a coroutine function (the operation would never run)",
    "R-C14-TAKE (Redis sweep rules): Redis claim flow",
]
NOT_DECIDED = ["cross-process interleavings as such", "RabbitMQ's server-side exclusive delivery of unacked messages (trusted)"]
ASSUMPTIONS = ["asyncio atomicity between awaits (single process)", "Redis MULTI/EXEC atomicity"]


def run(ctx: Ctx) -> None:
    from .shared import every_operation_awaited

    every_operation_awaited(ctx, "R-C14-AWAITED")  # in the files this property is anchored in, no asynchronous operation is created and dropped
    from .brokers import redis_claim_flow

    redis_claim_flow(ctx, "R-C14-TAKE")  # the Redis take, guard by guard (no name -> nothing claimed; claimed -> removed from the right structure, marked, data read; complete data only)
    from .brokers import rabbit_delivery_table

    rabbit_delivery_table(ctx, "R-C14-TAKE")  # RabbitMQ: a delivery is either bounced to the server or remembered (tag) and handed out - never both, never neither
    inmem_consume_rules(ctx, rule_t="R-C14-TAKE", rule_a="R-C14-TAKE")
    redis_txn_rules(ctx, ops=(), rule_t="R-C14-TAKE", rule_a="R-C14-TAKE")
    redis_take_reply(ctx)
    inmem_transfer_atomic(ctx, ops=("reject", "requeue"), rule_t="R-C14-REDELIVER", rule_a="R-C14-REDELIVER")
    rabbit_rules(ctx, rule_t="R-C14-REDELIVER", rule_a="R-C14-REDELIVER", atomic_finding=False)
    finish_own(ctx)
    from .brokers import redis_fetch_reads_server

    redis_fetch_reads_server(ctx, "R-C14-TAKE")
    terminal_callers_rule(ctx, "R-C14-REDELIVER", ops=("reject", "requeue"))
    race(ctx, "R-C14-REDELIVER")
    maintenance(ctx, "R-C14-REDELIVER")
    from .C03 import finish

    with ctx.as_rule("R-C14-REDELIVER"):
        finish(ctx, "R-C14-REDELIVER")  # finish() returns exactly the messages this consumer prefetched, one by one by their own tags
    from .brokers import rabbit_bounce_rules

    rabbit_bounce_rules(ctx, "R-C14-TAKE")
    from .C03 import shutdown

    shutdown(ctx, "R-C14-SHUTDOWN")  # held messages are handed back (finish) only after the executions holding them have ended


def redis_take_reply(ctx: Ctx, rule="R-C14-TAKE") -> None:
    f = ctx.func(f"{C.REDIS_CONS}.__get_message_name")
    ex = [n for n in ast.walk(f.node) if isinstance(n, ast.Await) and isinstance(n.value, ast.Call) and dotted(n.value.func) == "pipe.execute"]
    ctx.require(len(ex) >= 1, f"{f.qualname}: pipe.execute() not found")
    used = False
    for n in ast.walk(f.node):
        if isinstance(n, (ast.Assign, ast.AnnAssign, ast.NamedExpr)) and getattr(n, "value", None) in ex:
            used = True
        if isinstance(n, (ast.Compare, ast.Subscript, ast.If)) and any(x in ex for x in ast.walk(n) if isinstance(x, ast.Await)) and not isinstance(n, ast.If):
            used = True
    watch = any(isinstance(c, ast.Call) and isinstance(c.func, ast.Attribute) and c.func.attr in ("watch", "eval", "evalsha", "lmove", "rpoplpush", "blmove", "zpopmin", "register_script") for c in ast.walk(f.node))
    if used or watch:
        ctx.ok(rule, "redis take: removal reply checked", "the transaction's reply (or WATCH / an atomic move) decides who won the race")
    else:
        ctx.fail(rule, f, "await pipe.execute() result discarded in the take transaction",
                 "redis __get_message_name reads a candidate name with LRANGE/ZRANGE and removes it in a later MULTI/EXEC whose reply is discarded: two consumers that read the same name both "
                 "proceed (an LREM/ZREM that removed nothing is not noticed), mark the message held and deliver it twice", node=ex[0], instance="redis take: removal reply checked")


def finish_own(ctx: Ctx, rule="R-C14-FINISH-OWN") -> None:
    for q in (C.INMEM_CONS, C.REDIS_CONS, C.RABBIT_CONS):
        fin = ctx.func(f"{q}.finish")
        init = ctx.func(f"{q}.__init__")
        # containers drained: receivers of pop / get_nowait inside finish
        drained = set()

        def owned_element_removal(c) -> bool:
            """`shared.remove(m)` / `shared.pop(m)` for m ranging over the elements whose recorded holder is this consumer (`... if holder is self`)."""
            if c.func.attr not in ("remove", "pop", "discard") or len(c.args) != 1 or not isinstance(c.args[0], ast.Name):
                return False
            var = c.args[0].id
            for lp in ast.walk(fin.node):
                if isinstance(lp, ast.For) and any(x is c for x in ast.walk(lp)) and var in C.names_in(lp.target):
                    it = C.inline_locals(fin, lp.iter, calls="all") or lp.iter
                    tests = [t for comp in ast.walk(it) if isinstance(comp, (ast.ListComp, ast.GeneratorExp, ast.SetComp)) for g_ in comp.generators for t in g_.ifs]
                    tests += [i.test for i in ast.walk(lp) if isinstance(i, ast.If) and any(x is c for b in i.body for x in ast.walk(b))]
                    for t in tests:
                        for cmp_ in ast.walk(t):
                            if isinstance(cmp_, ast.Compare) and isinstance(cmp_.ops[0], (ast.Is, ast.Eq)) and "self" in (dotted(cmp_.left), dotted(cmp_.comparators[0])):
                                return True
            return False

        n_owned = 0
        for c in ast.walk(fin.node):
            if isinstance(c, ast.Call) and isinstance(c.func, ast.Attribute) and c.func.attr in ("pop", "get_nowait", "popleft", "popitem", "remove", "discard"):
                recv = c.func.value
                if isinstance(recv, ast.Attribute) and recv.attr == "_id_to_delivery_tag":
                    continue  # keyed pop of this consumer's own message ids
                if owned_element_removal(c):
                    n_owned += 1
                    ctx.ok(rule, f"{q.split('.')[-1]}.finish removes {unparse(c)[:50]}", "one element at a time, restricted to the messages whose recorded holder is this consumer")
                    continue
                drained.add(C.utext(fin, recv))
        if n_owned:
            # the holder record finish() relies on is written for every message handed out, in the same atomic step as marking it held
            cons = ctx.func(f"{q}.consume")
            gcons = ctx.cfg(cons)
            adds = [n for n in gcons.calls() if isinstance(n.ast.func, ast.Attribute) and n.ast.func.attr == "add" and "processing" in unparse(n.ast.func)]
            recs = [n for n in gcons.nodes if n.kind == "store" and isinstance(n.ast, ast.Subscript) and dotted(n.meta.get("value")) == "self"]
            ok_rec = bool(adds) and bool(recs) and all(
                flow.must_pass(gcons, a.id, [gcons.exit.id] + [x.id for x in gcons.nodes if flow.is_suspension(x) and x.id in flow.reach(gcons, [a.id], flow.NORMAL_KINDS)],
                               [r_.id for r_ in recs], flow.NORMAL_KINDS) for a in adds)
            ctx.check(ok_rec, rule, cons, f"{q.split('.')[-1]}.consume records itself as holder of every message it marks held", "holders[msg] = self before the next suspension point",
                      f"{cons.short()} does not record the holder of each handed-out message (atomically with marking it held): finish() filters by that record, so unrecorded messages are "
                      "never given back and wrongly recorded ones are taken from another consumer", instance=f"{q.split('.')[-1]}: holder recorded")
        if n_owned and not drained:
            continue
        if not ctx.check(bool(drained), rule, fin, f"{fin.short()}: drains a container", str(sorted(drained)), f"{fin.short()} returns nothing", instance=f"{q.split('.')[-1]}: drains"):
            continue
        for d in sorted(drained):
            parts = d.split(".")
            root_attr = parts[1] if len(parts) > 1 and parts[0] == "self" else None
            created = False
            shared_why = ""
            if root_attr is not None:
                for n in ast.walk(init.node):
                    if isinstance(n, (ast.Assign, ast.AnnAssign)):
                        tgts = n.targets if isinstance(n, ast.Assign) else [n.target]
                        if any(dotted(t) == f"self.{root_attr}" for t in tgts) and n.value is not None:
                            v = n.value
                            if isinstance(v, ast.Call) and not _mentions(v, "broker"):
                                created = len(parts) == 2
                            else:
                                shared_why = f"self.{root_attr} = {unparse(v)[:50]} is taken from the broker"
                if len(parts) > 2 and not shared_why:
                    shared_why = f"{d} is reached through self.{root_attr}"
            if created:
                ctx.ok(rule, f"{q.split('.')[-1]}.finish drains {d}", "a container created by this consumer in __init__")
            else:
                ctx.fail(rule, fin, f"finish drains {d}",
                         f"{fin.short()} drains {d}, which is not owned by this consumer ({shared_why or 'not created in its __init__'}): finishing one consumer returns messages that another "
                         "consumer of the same queue currently holds, so they are delivered a second time while still being processed", instance=f"{q.split('.')[-1]}: finish drains own container")


def maintenance(ctx: Ctx, rule: str) -> None:
    f = ctx.func(f"{C.REDIS_BROKER}.maintenance")
    g = ctx.cfg(f)
    rejects = [n for n in g.calls() if C.broker_op(ctx, n, ("reject",))]
    ctx.require(len(rejects) == 1, f"{f.qualname}: reject not found")
    tests = [t for t in g.nodes if t.kind == "test" and _mentions(t.ast, "execution_timeout")]
    ok = False
    why = f"guard is {[t.label[:80] for t in tests]}"
    tests = tests or [t for t in g.nodes if t.kind == "test" and any(_mentions(x, "execution_timeout") for x in C.expand_locals(f, t.ast))]
    if len(tests) == 1 and isinstance(C.inline_locals(f, tests[0].ast), ast.Compare) and len(C.inline_locals(f, tests[0].ast).ops) == 1:
        c = C.inline_locals(f, tests[0].ast)
        l, r, op = c.left, c.comparators[0], c.ops[0]
        if isinstance(op, ast.Lt):
            l, r, op = r, l, ast.Gt()
        elapsed = isinstance(l, ast.BinOp) and isinstance(l.op, ast.Sub) and dotted(l.left) == "now" and isinstance(l.right, ast.Call) and (dotted(l.right.func) or "").endswith("fromtimestamp") \
            and dotted(l.right.args[0]) == "processing_start_time"
        ok = isinstance(op, ast.Gt) and elapsed and isinstance(r, ast.Attribute) and r.attr == "execution_timeout"
        ok = ok and rejects[0].id in (flow.reach(g, [tests[0].id], ("T",)) | flow.reach(g, flow.reach(g, [tests[0].id], ("T",)), flow.NORMAL_KINDS)) \
            and flow.must_pass(g, g.entry.id, [rejects[0].id], [tests[0].id], flow.NORMAL_KINDS)
    ctx.check(ok, rule, f, "maintenance rejects only when now - taken_at > execution_timeout", "elapsed <= timeout never rejects",
              f"redis maintenance returns in-flight messages under another condition than 'now - processing start > execution_timeout' ({why}): a message still being processed "
              "by a live worker becomes deliverable again", instance="maintenance guard")
    zs = [n for n in ast.walk(f.node) if isinstance(n, ast.AsyncFor) and "zscan_iter" in unparse(n.iter)]
    ok = len(zs) == 1 and "processing_queue" in unparse(zs[0].iter) and isinstance(zs[0].target, ast.Tuple) and [dotted(e) for e in zs[0].target.elts] == ["short_name", "processing_start_time"]
    ctx.check(ok, rule, f, "maintenance iterates (name, taken_at) of the processing zset", "zscan_iter(processing)", "redis maintenance does not iterate the processing zset with its scores", instance="maintenance scan")
    now = C.local_defs(f, "now")
    ctx.check(len(now) == 1 and unparse(now[0]) == "datetime.now()", rule, f, "maintenance compares with the current time", "now = datetime.now()", "redis maintenance does not compare with the current time", instance="maintenance now")
    for fn_name in ("connect", "disconnect"):
        cf = ctx.func(f"{C.REDIS_BROKER}.{fn_name}")
        ctx.check(any(isinstance(c, ast.Call) and dotted(c.func) == "self.maintenance" for c in ast.walk(cf.node)), "R-C03-MAINT", cf, f"maintenance runs on {fn_name}", "crashed workers' messages are recovered",
                  f"redis {fn_name} does not run maintenance", instance=f"maintenance on {fn_name}")
    rk = [c for c in ast.walk(f.node) if isinstance(c, ast.Call) and dotted(c.func) == "self.ROUTING_KEY_CLASS"]
    pm = [n for n in ast.walk(f.node) if isinstance(n, ast.Assign) and isinstance(n.value, ast.Call) and (dotted(n.value.func) or "").endswith("parse_message_name")]
    tn = [dotted(e) for e in pm[0].targets[0].elts] if len(pm) == 1 and isinstance(pm[0].targets[0], ast.Tuple) else []
    ok = len(rk) == 1 and len(tn) == 4 and {k.arg: unparse(k.value) for k in rk[0].keywords} == {"id_": tn[0], "topic": tn[1], "queue": tn[2], "priority": tn[3]}
    rj_arg = rejects[0].ast.args[0] if rejects and rejects[0].ast.args else None
    ok = ok and rj_arg is not None and any(x is rk[0] or unparse(x) == unparse(rk[0]) for x in [C.inline_locals(f, rj_arg, calls="all")])
    ctx.check(ok, rule, f, "maintenance rejects the timed-out message itself", "routing key rebuilt from its full name", "redis maintenance rejects another key than the timed-out message's", instance="maintenance key")
