"""C16 - Message handles are single-use and respect their category (typestate over the Message actions)."""
from __future__ import annotations

import ast

from .. import flow
from ..engine import Ctx
from ..model import dotted, unparse
from . import common as C
from .shared import (
    category_env,
    eager_action_rules,
    flag_env,
    lazy_callback_rules,
    message_action_facts,
    ord_env,
)

SUMMARY = "Typestate (usable -> read-only) over the six Message actions, category/budget guards, eager-response protocol."
DECIDED = [
    "R-C16-TYPESTATE: in each Message action the read-only guard dominates the broker call; with the flag set no "
    "broker call and no store to the handle is reachable and the action ends in a raise; the flag is stored True "
    "on every normal path after the broker call and on no path before it",
    "R-C16-CATEGORY: nack/retry/force_retry are unreachable past the category guard for non-NORMAL messages; "
    "ack/reject/reschedule stay reachable; Queue.get_messages hands its category to the consumer and to Message",
    "R-C16-BUDGET: Message.retry refuses (raise, nothing stored, no broker call) iff already_tried >= max_amount "
    "(all three orderings evaluated); force_retry has no budget guard",
    "R-C16-EAGER: each MessageDependency action = exactly one super().<same action>(), then the callbacks, then "
    "raise _NoAction on every normal path; _NoAction is a BaseException that is not an Exception",
    "R-C16-CALLBACKS: set_result/set_exception overwrite one lazy slot that inserts at the position current at call "
    "time; __execute_callbacks fires the slot first and then awaits the callbacks in list order",
    "R-C16-TYPESTATE (connection): a Message handle is created on the connection of the queue it was taken from (connection propagation rule)",
    "R-C16-CALLBACKS (writers): the lazy result slot is written only by set_result / set_exception (directly or through their private helper)",
    "R-C16-CATEGORY (round 5): category comparisons by equality; Message.__init__ defaults exactly a None category to NORMAL; R-C16-CALLBACKS: the callback loop iterates the live list (a callback registered by a running callback runs)",
    "R-C16-EAGER (round 6): an eager action performs the action it is named after and no other; an eager response inside a dependency propagates out of the gathers (C18 chain reused)",
    "R-C16-AWAITED: in the files this property is anchored in, no bare statement calls a coroutine function (the operation would never run)",
    "R-C16-CALLBACKS / R-C16-EAGER (sweep stage two): an eager response reports the outcome recorded last if any, else the action's default; the retry delay chosen by presence",
]
NOT_DECIDED = ["user code catching BaseException inside an actor (outside the analysed program)"]
ASSUMPTIONS = ["Message actions are only reachable through the methods analysed (no monkey-patching)"]

ACTIONS = {
    "ack": ("ack", False, False),
    "nack": ("nack", True, False),
    "reject": ("reject", False, False),
    "reschedule": ("requeue", False, False),
    "retry": ("requeue", True, True),
    "force_retry": ("requeue", True, False),
}


def run(ctx: Ctx) -> None:
    from .shared import every_operation_awaited

    every_operation_awaited(ctx, "R-C16-AWAITED")  # in the files this property is anchored in, no asynchronous operation is created and dropped
    from .shared import eager_outcome_defaults, retry_delay_defaults

    eager_outcome_defaults(ctx, "R-C16-CALLBACKS")  # the result store takes the outcome set last, else the action's default
    retry_delay_defaults(ctx, "R-C16-EAGER")
    from .C18 import DEPENDS, chain

    with ctx.as_rule("R-C16-EAGER"):
        # an eager response given inside a dependency (_NoAction, a BaseException) propagates out of the gathers: it is never turned into a value, so the actor body does not run after it
        for q, provider in ((f"{DEPENDS}.resolve", "self._fn"), (f"{C.PROCESSOR}._actor_run", "actor.fn")):
            chain(ctx, ctx.func(q), provider, "R-C16-EAGER")
    from .shared import category_equality

    category_equality(ctx, "R-C16-CATEGORY")
    from .shared import connection_propagation

    connection_propagation(ctx, "R-C16-TYPESTATE")  # a handle acts on the broker it was taken from
    n_actions = 0
    for action, (op, cat_guard, budget_guard) in ACTIONS.items():
        f = ctx.func(f"{C.MESSAGE}.{action}")
        # private helpers of Message (e.g. an extracted guard) are part of the action
        g = flow.inline(f, ctx.res, 3, lambda n, cal: cal.cls is not None and cal.cls.qualname == C.MESSAGE and cal.name not in ACTIONS)
        facts = message_action_facts(ctx, f, g)
        n_actions += 1
        bcalls = facts["broker_calls"]
        if not ctx.check(
            len(bcalls) == 1 and bcalls[0][1] == op, "R-C16-TYPESTATE", f, f"broker call of Message.{action}",
            f"exactly one broker operation ({op}) in the body",
            f"Message.{action} must perform exactly one broker operation '{op}', found {[o for _, o in bcalls]}",
            instance=f"Message.{action}: single broker op",
        ):
            continue
        b = bcalls[0][0]
        baw = facts["await_of"].get(b.id)
        if not ctx.check(baw is not None, "R-C16-TYPESTATE", f, f"await {b.label}",
                         "broker call is awaited", f"the broker coroutine of Message.{action} is never awaited: no terminal action happens",
                         node=b, instance=f"Message.{action}: broker op awaited"):
            continue
        kinds = flow.NORMAL_KINDS + ("raise",)
        # ---- flag set -> refused, nothing touched
        r = flow.reach_under(g, flag_env(True), kinds)
        stores = [n for n in g.nodes if n.id in r and n.kind == "store" and (n.target or "").startswith("self.")]
        bad = []
        if b.id in r:
            bad.append("broker call reachable")
        if stores:
            bad.append("store to the handle: " + ", ".join(s.label for s in stores))
        if g.exit.id in r:
            bad.append("normal return reachable (no raise)")
        ctx.check(not bad, "R-C16-TYPESTATE", f, f"read-only guard of Message.{action}",
                  "with the read-only flag set: only a raise is reachable, no broker call, no store",
                  f"a used (read-only) message handle is not refused in Message.{action}: " + "; ".join(bad),
                  node=b, instance=f"Message.{action}: used handle refused")
        # ---- flag clear (+ other guards passing) -> broker call reachable, flag set afterwards
        env_ok = dict(flag_env(False))
        env_ok.update(category_env(True))
        env_ok.update(ord_env(g, f, "already_tried", "max_amount", "lt"))
        r2 = flow.reach_under(g, env_ok, kinds)
        ctx.check(b.id in r2, "R-C16-TYPESTATE", f, f"fresh handle reaches broker call in Message.{action}",
                  "with a fresh NORMAL handle the broker call is reachable",
                  f"Message.{action} can never reach its broker call for a fresh NORMAL message", node=b,
                  instance=f"Message.{action}: fresh handle accepted")
        flag_stores = facts["flag_stores"]
        true_stores = [s for s in flag_stores if C.is_const(s.meta.get("value"), True)]
        after = flow.must_pass(g, baw.id, [g.exit.id], [s.id for s in true_stores], flow.NORMAL_KINDS)
        ctx.check(after, "R-C16-TYPESTATE", f, f"flag store after broker call in Message.{action}",
                  "every normal path from the broker call to the return stores the flag True",
                  f"Message.{action}: a normal path from the broker call to the return does not mark the handle read-only "
                  "(a second terminal action would be accepted)", node=b, instance=f"Message.{action}: flag set after op")
        before = flow.reach_back(g, [b.id], flow.NORMAL_KINDS) & {s.id for s in flag_stores}
        ctx.check(not before, "R-C16-TYPESTATE", f, f"flag store before broker call in Message.{action}",
                  "no store to the flag precedes the broker call",
                  f"Message.{action} marks the handle read-only before the broker call returned: a failing broker call "
                  "leaves an unusable handle and an undisposed message", node=b, instance=f"Message.{action}: flag not set early")
        # the flag must not be stored on the exception edge of the broker call
        exc_reach = flow.reach(g, [baw.id], ("exc", "cancel")) if baw else set()
        # ---- category
        r3 = flow.reach_under(g, {**flag_env(False), **category_env(False), **ord_env(g, f, "already_tried", "max_amount", "lt")}, kinds)
        if cat_guard:
            bad = []
            if b.id in r3:
                bad.append("broker call reachable")
            if g.exit.id in r3:
                bad.append("normal return reachable")
            st3 = [n for n in g.nodes if n.id in r3 and n.kind == "store" and (n.target or "").startswith("self.")]
            if st3:
                bad.append("handle modified")
            ctx.check(not bad, "R-C16-CATEGORY", f, f"category guard of Message.{action}",
                      "for a DELAYED/DEAD message only a raise is reachable",
                      f"Message.{action} is not refused for messages taken from the delayed/dead category: " + "; ".join(bad),
                      node=b, instance=f"Message.{action}: non-NORMAL refused")
        else:
            ctx.check(b.id in r3, "R-C16-CATEGORY", f, f"no category guard in Message.{action}",
                      "DELAYED/DEAD messages can still be " + action + "ed",
                      f"Message.{action} refuses messages of the delayed/dead category although {action} is allowed for every category",
                      node=b, instance=f"Message.{action}: every category accepted")
        # ---- budget
        for ordering in ("lt", "eq", "gt"):
            env = {**flag_env(False), **category_env(True), **ord_env(g, f, "already_tried", "max_amount", ordering)}
            r4 = flow.reach_under(g, env, kinds)
            if budget_guard and ordering in ("eq", "gt"):
                bad = []
                if b.id in r4:
                    bad.append("requeue reachable")
                if g.exit.id in r4:
                    bad.append("normal return reachable")
                st4 = [n for n in g.nodes if n.id in r4 and n.kind == "store" and (n.target or "").startswith("self.")]
                if st4:
                    bad.append("handle modified (" + ", ".join(s.label for s in st4) + ")")
                ctx.check(not bad, "R-C16-BUDGET", f, f"budget guard of Message.{action} [{ordering}]",
                          f"already_tried {ordering} max_amount: refused with a raise, handle untouched",
                          f"Message.{action} with already_tried {'==' if ordering == 'eq' else '>'} max_amount is not refused cleanly: " + "; ".join(bad),
                          node=b, instance=f"Message.{action}: budget ordering {ordering}")
            else:
                ctx.check(b.id in r4, "R-C16-BUDGET", f, f"budget of Message.{action} [{ordering}]",
                          f"already_tried {ordering} max_amount: requeue reachable",
                          f"Message.{action} is refused although already_tried {'<' if ordering == 'lt' else ordering} max_amount "
                          + ("leaves retries" if budget_guard else "and this action has no retry budget"),
                          node=b, instance=f"Message.{action}: budget ordering {ordering}")
    ctx.floor("R-C16-TYPESTATE", n_actions, 6, "Message actions")

    # Queue.get_messages passes the category on
    f = ctx.func("repid.queue.Queue.get_messages")
    cat_param = "category" in [p.arg for p in f.params()]
    ctx.require(cat_param, "Queue.get_messages has no 'category' parameter (anchor vanished)")
    msg_calls = [n for n in ast.walk(f.node) if isinstance(n, ast.Call) and ctx.prog.resolve_name(f.module, dotted(n.func) or "") == C.MESSAGE]
    ctx.floor("R-C16-CATEGORY", len(msg_calls), 1, "Message(...) constructions in Queue.get_messages")
    for mc in msg_calls:
        v = C.kw(mc, "_category")
        ctx.check(isinstance(v, ast.Name) and v.id == "category", "R-C16-CATEGORY", f, "Message(_category=...) in Queue.get_messages",
                  "the Message handle gets the category the consumer was created with",
                  f"Queue.get_messages builds Message handles with _category={unparse(v) if v else '<default NORMAL>'} instead of its "
                  "category argument: nack/retry would be accepted for delayed/dead messages", node=mc,
                  instance="Queue.get_messages: Message(_category=category)")
    gc = [n for n in ast.walk(f.node) if isinstance(n, ast.Call) and isinstance(n.func, ast.Attribute) and n.func.attr == "get_consumer"]
    ctx.floor("R-C16-CATEGORY", len(gc), 1, "get_consumer calls in Queue.get_messages")
    for c in gc:
        v = C.arg(c, 3, "category")
        ctx.check(isinstance(v, ast.Name) and v.id == "category", "R-C16-CATEGORY", f, "get_consumer(category=...) in Queue.get_messages",
                  "consumer category = requested category",
                  "Queue.get_messages does not pass its category to get_consumer", node=c, instance="Queue.get_messages: get_consumer(category)")
    # Message.__init__ stores the category it was given
    f = ctx.func(f"{C.MESSAGE}.__init__")
    st = [n for n in ast.walk(f.node) if isinstance(n, ast.Assign) and any(dotted(t) == "self._category" for t in n.targets)]
    ctx.floor("R-C16-CATEGORY", len(st), 1, "stores of self._category in Message.__init__")
    keeps = [s for s in st if "_category" in C.names_in(s.value)]
    others = [s for s in st if s not in keeps]
    # besides the store of the argument only the NORMAL default (for "no category given") may be stored
    ok = bool(keeps) and all(dotted(s.value) == "MessageCategory.NORMAL" for s in others)
    sv_ = C.stored_value(f, "self._category")
    t3_ = C.negate_aware_ifexp(sv_) if sv_ is not None else None
    if t3_ is not None:
        # `<default> if <test> else _category`: the default is taken exactly when no category was given
        ok = ok and isinstance(t3_[0], ast.Compare) and isinstance(t3_[0].ops[0], ast.Is) and dotted(t3_[0].left) == "_category" and C.is_const(t3_[0].comparators[0], None) \
            and dotted(t3_[1]) == "MessageCategory.NORMAL" and dotted(t3_[2]) == "_category"
    ctx.check(ok, "R-C16-CATEGORY", f, "self._category = ... in Message.__init__",
              "category stored from the constructor argument (NORMAL when none was given)",
              f"Message.__init__ does not keep the category it was constructed with (stores {[unparse(s.value) for s in st]})", node=st[0], instance="Message.__init__: category kept")
    prop = ctx.func(f"{C.MESSAGE}.category")
    rets = [n for n in ast.walk(prop.node) if isinstance(n, ast.Return)]
    ctx.check(len(rets) == 1 and dotted(rets[0].value) == "self._category", "R-C16-CATEGORY", prop, "Message.category returns self._category",
              "category property reads the stored category", "Message.category does not return the stored category", instance="Message.category")

    eager_action_rules(ctx, "R-C16-EAGER")
    lazy_callback_rules(ctx, "R-C16-CALLBACKS")
    from .shared import lazy_slot_writers

    lazy_slot_writers(ctx, "R-C16-CALLBACKS")
    from .shared import callbacks_live_iteration

    callbacks_live_iteration(ctx, "R-C16-CALLBACKS")
