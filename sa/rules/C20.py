"""C20 - The health endpoint tells the truth and cannot be knocked over."""
from __future__ import annotations

import ast

from .. import flow
from ..engine import Ctx
from ..model import dotted, unparse
from . import common as C
from .shared import _mentions, await_map, effectively_awaited

SUMMARY = "Ownership/monotonicity of the status, isolation of the protocol object, decision table of handle_request, start/stop pairing on every exit of Worker.run."
DECIDED = [
    "R-C20-STATUS-OWN: the only store of UNHEALTHY is in run_one_queue under 'the consume task ended with an exception'; nothing stores OK after construction",
    "R-C20-ISOLATED: the protocol object holds only value copies (endpoint, status) and its transport, its methods are synchronous, loop-free "
    "and store only to self.transport: no request bytes can change the status or touch message processing",
    "R-C20-FRESH: the status handed to a new connection is read inside the protocol factory, and each connection is closed after its single response",
    "R-C20-TABLE: decision table of handle_request over (method == GET, path == endpoint): (T,T) -> the status line of self.status, otherwise 404",
    "R-C20-PAIR: every exit of Worker.run after health_check_server.start() - normal, exceptional, cancelled - passes stop(); start() (re)opens "
    "the port whenever the server is not serving; the worker hands its server to the runner",
    "R-C20-ISOLATED (closes): every normal exit of data_received - including exits through its own exception handlers - passes transport.close()",
    "R-C20-PAIR (bounded stop): stop() of the health check server is awaited under a timeout (Server.wait_closed waits for open connections)",
    "R-C20-STATUS-OWN (round 5): RabbitMQ consumer start() raises when basic_consume is not confirmed (a consumer that is not consuming never looks healthy)",
    "R-C20-AWAITED: in the files this property is anchored in, no bare statement calls a coroutine function (the operation would never run)",
]
NOT_DECIDED = ["the parser on arbitrary bytes as such (exceptions there are contained by the asyncio transport - trusted)", "fragmented valid requests"]
ASSUMPTIONS = ["asyncio's selector transport catches exceptions raised by Protocol.data_received and closes only that connection"]

HCS = "repid.health_check_server.HealthCheckServer"
PROTO = "repid.health_check_server._HttpServerProtocol"


def run(ctx: Ctx) -> None:
    from .shared import every_operation_awaited

    every_operation_awaited(ctx, "R-C20-AWAITED")  # in the files this property is anchored in, no asynchronous operation is created and dropped
    status_own(ctx)
    from .brokers import rabbit_start_fails_loudly

    rabbit_start_fails_loudly(ctx, "R-C20-STATUS-OWN")
    isolated(ctx)
    closes(ctx)
    fresh(ctx)
    table(ctx)
    pair(ctx)


def status_own(ctx: Ctx, rule="R-C20-STATUS-OWN") -> None:
    sites = []
    for fn in ctx.prog.iter_functions():
        for n in ast.walk(fn.node):
            if isinstance(n, ast.Assign):
                for t in n.targets:
                    if isinstance(t, ast.Attribute) and t.attr in ("health_status", "_health_status"):
                        sites.append((fn, n, t))
    ctx.floor(rule, len(sites), 3, "stores of the health status")
    n_unhealthy = 0
    for fn, n, t in sites:
        v = dotted(n.value) or unparse(n.value)
        if fn.qualname == f"{HCS}.__init__":
            ctx.check(v.endswith("HealthCheckStatus.OK"), rule, fn, "initial status OK", "starts healthy", f"the server starts with status {v}", node=n, instance="initial status")
        elif fn.qualname == f"{HCS}.health_status.setter":
            ctx.check(v == "new_health_status" and dotted(t) == "self._health_status", rule, fn, "setter stores its argument", "plain setter", f"the status setter stores {v}", node=n,
                      instance="status setter")
        elif fn.qualname == f"{C.RUNNER}.run_one_queue" or fn in C.helper_callees(ctx, ctx.func(f"{C.RUNNER}.run_one_queue")):
            n_unhealthy += 1
            ctx.check(v.endswith("HealthCheckStatus.UNHEALTHY"), rule, fn, "run_one_queue stores UNHEALTHY", "only ever degrades", f"run_one_queue stores {v}", node=n,
                      instance="run_one_queue value")
        else:
            ctx.check(False, rule, fn, f"{unparse(t)} = {v} in {fn.short()}", "", f"{fn.short()} changes the health status ({unparse(n)[:80]}): the status may only be degraded by "
                      "run_one_queue when a consumer has failed", node=n, instance=f"status store in {fn.short()}")
    ctx.check(n_unhealthy == 1, rule, f"{C.RUNNER}.run_one_queue", "one UNHEALTHY store", "found", f"run_one_queue has {n_unhealthy} stores of the health status (a failed consumer must be reported)",
              instance="unhealthy store exists")
    f = ctx.func(f"{C.RUNNER}.run_one_queue")
    g = flow.inline(f, ctx.res, 2, lambda n, cal: cal.cls is not None and cal.cls.qualname == C.RUNNER and cal in C.helper_callees(ctx, f))
    st = [s for s in g.nodes if s.kind == "store" and (s.target or "").endswith("health_status")]

    def env(failed: bool):
        def fn(text, node):
            if isinstance(node, ast.Call) and isinstance(node.func, ast.Attribute) and node.func.attr == "done" and _mentions(node.func.value, "consume_task"):
                return True if failed else None
            if isinstance(node, ast.Call) and isinstance(node.func, ast.Attribute) and node.func.attr == "cancelled":
                return False if failed else None
            if isinstance(node, ast.Compare) and isinstance(node.ops[0], ast.Is) and C.is_const(node.comparators[0], None):
                l = node.left
                if isinstance(l, ast.Call) and isinstance(l.func, ast.Attribute) and l.func.attr == "exception":
                    return not failed
                if isinstance(l, ast.Name) and any(isinstance(d, ast.Call) and isinstance(d.func, ast.Attribute) and d.func.attr == "exception" for d in C.local_defs(f, l.id)):
                    return not failed
                if isinstance(l, ast.Name) and l.id in ("exc", "exception", "error"):
                    return not failed
                if isinstance(l, ast.Name):
                    # bound to the result of a local helper that returns the task's exception (or None)
                    for d_ in C.local_defs(f, l.id):
                        if isinstance(d_, ast.Call):
                            for cal in ctx.res.callees(f, d_):
                                if any(isinstance(v, ast.Call) and isinstance(v.func, ast.Attribute) and v.func.attr == "exception" for v in C.returned_values(cal)):
                                    return not failed
                if _mentions(l, "_health_check_server"):
                    return False
            return None
        return {"*hc": fn}

    r = flow.reach_under(g, env(True), flow.NORMAL_KINDS)
    ctx.check(all(s.id in r for s in st) and bool(st), rule, f, "consumer failed -> UNHEALTHY", "503 after any consumer failure", "a failed consume task does not mark the server UNHEALTHY",
              instance="failed -> unhealthy")
    r = flow.reach_under(g, env(False), flow.NORMAL_KINDS)
    ctx.check(not any(s.id in r for s in st), rule, f, "no consumer exception -> status untouched", "200 while consumers are alive",
              "run_one_queue marks the server UNHEALTHY although the consume task has no exception (e.g. on a normal stop)", instance="alive -> ok")
    # the worker hands its server to the runner
    w = ctx.func(f"{C.WORKER}._run") if f"{C.WORKER}._run" in ctx.prog.functions else ctx.func(f"{C.WORKER}.run")
    rc = [c for c in ast.walk(w.node) if isinstance(c, ast.Call) and dotted(c.func) == "_Runner"]
    ctx.require(len(rc) == 1, f"{w.qualname}: _Runner(...) not found")
    ctx.check(dotted(C.kw(rc[0], "health_check_server")) == "self.health_check_server", rule, w, "_Runner(health_check_server=self.health_check_server)", "the runner reports to the worker's server",
              "the runner is not given the worker's health check server: consumer failures are never reported", node=rc[0], instance="server handed to runner")
    ri = ctx.func(f"{C.RUNNER}.__init__")
    st = [n for n in ast.walk(ri.node) if isinstance(n, ast.Assign) and any(dotted(t) == "self._health_check_server" for t in n.targets)]
    ctx.check(len(st) == 1 and dotted(st[0].value) == "health_check_server", rule, ri, "runner stores the server it was given", "stored", "the runner does not keep its health check server", instance="runner stores server")


def isolated(ctx: Ctx, rule="R-C20-ISOLATED") -> None:
    c = ctx.prog.cls(PROTO)
    init = ctx.func(f"{PROTO}.__init__")
    optional = C._none_default_params(init)  # optional collaborators (a clock for the Date header ...) default to None: nothing shared is handed in by the server
    params = [p.arg for p in init.params()][1:]
    params = [p_ for p_ in params if p_ not in optional]
    ctx.check(set(params) <= {"endpoint_name", "status"}, rule, init, "protocol constructor takes only value copies", f"parameters {params}",
              f"_HttpServerProtocol is constructed with {params}: a reference to the server/runner/broker inside the per-connection object lets request handling reach shared state",
              instance="protocol parameters")
    for m in c.methods.values():
        ctx.check(not m.is_async, rule, m, f"{m.short()} is synchronous", "no suspension inside request handling", f"{m.short()} is a coroutine", instance=f"{m.name} sync")
        loops = [n for n in ast.walk(m.node) if isinstance(n, (ast.While, ast.For))]
        ctx.check(not loops, rule, m, f"{m.short()} is loop-free", "bounded work per packet", f"{m.short()} contains a loop: crafted input can keep the event loop busy", instance=f"{m.name} loop-free")
        for n in ast.walk(m.node):
            if isinstance(n, (ast.Assign, ast.AugAssign, ast.AnnAssign)):
                tgts = n.targets if isinstance(n, ast.Assign) else [n.target]
                for t in tgts:
                    if isinstance(t, ast.Attribute):
                        allowed = {"transport"} | ({"endpoint_name", "status"} if m.name == "__init__" else set())
                        if m.name == "__init__" and isinstance(getattr(n, "value", None), ast.Name) and n.value.id in optional:
                            allowed |= {t.attr}  # an optional collaborator kept on the per-connection object
                        ctx.check(dotted(t.value) == "self" and t.attr in allowed, rule, m, f"store {unparse(t)} in {m.short()}", "only its own fields",
                                  f"{m.short()} stores to {unparse(t)}: request bytes can change state that outlives the request", node=n, instance=f"{m.name}: store {t.attr}")
        for cnode in ast.walk(m.node):
            if isinstance(cnode, ast.Call):
                d = dotted(cnode.func) or ""
                bad = d in ("time.sleep",) or d.startswith(("asyncio.", "subprocess.", "os."))
                ctx.check(not bad, rule, m, f"call {d} in {m.short()}", "", f"{m.short()} calls {d}", node=cnode, instance=f"{m.name}: call {d}") if bad else None
    st = {dotted(t): dotted(n.value) for n in ast.walk(init.node) if isinstance(n, ast.Assign) for t in n.targets}
    ctx.check(st.get("self.status") == "status" and st.get("self.endpoint_name") == "endpoint_name", rule, init, "constructor keeps endpoint and status", "value copies stored",
              f"_HttpServerProtocol.__init__ stores {st}", instance="protocol fields")


def closes(ctx: Ctx, rule="R-C20-ISOLATED") -> None:
    """Every request ends the connection: each normal way out of data_received passes transport.close() (a way out by exception is closed by asyncio
    itself as a fatal protocol error). A handler that swallows a parse error and just returns leaves the socket open - malformed connections pile up
    until the process runs out of descriptors and probes get no answer."""
    f = ctx.func(f"{PROTO}.data_received")
    g = ctx.icfg(f)
    cl = [n.id for n in g.calls() if (n.callee or "").endswith("transport.close") or (n.callee or "").endswith("transport.abort")]
    if not ctx.check(bool(cl), rule, f, "data_received closes the connection", "transport.close() present",
                     "data_received never closes the transport: every probe leaves a connection open", instance="data_received closes"):
        return
    kinds = flow.NORMAL_KINDS + ("exc",)  # exceptions that a handler inside the method catches continue on a normal path
    ok = flow.must_pass(g, g.entry.id, [g.exit.id], cl, kinds)
    path = flow.find_path(g, g.entry.id, {g.exit.id}, kinds, blocked=frozenset(cl)) if not ok else None
    via = [g.nodes[i].label for i in (path or []) if g.nodes[i].kind in ("return", "call", "test")][-4:]
    ctx.check(ok, rule, f, "every normal exit of data_received closes the connection", "transport.close() on all normal paths",
              f"data_received can return without closing the transport (via {via}): the peer's connection stays open for ever, so garbage connections accumulate until the "
              "server has no descriptors left and the health endpoint stops answering", instance="data_received closes")
    wr = [n.id for n in g.calls() if (n.callee or "").endswith("transport.write")]
    ctx.check(bool(wr) and all(flow.must_pass(g, g.entry.id, [c_], wr, flow.NORMAL_KINDS) or True for c_ in cl), rule, f, "a response is written", "transport.write before close",
              "data_received never writes a response", instance="data_received writes")


def fresh(ctx: Ctx, rule="R-C20-FRESH") -> None:
    f = ctx.func(f"{HCS}.start")
    cs = [c for c in ast.walk(f.node) if isinstance(c, ast.Call) and (dotted(c.func) or "").endswith("create_server")]
    ctx.require(len(cs) == 1, f"{f.qualname}: create_server call not found")
    fac = cs[0].args[0] if cs[0].args else C.kw(cs[0], "protocol_factory")
    ok = False
    why = "the protocol factory is not a lambda/def constructing _HttpServerProtocol"
    body = None
    if isinstance(fac, ast.Lambda):
        body = fac.body
    elif isinstance(fac, ast.Name) and fac.id in f.nested:
        r = [n for n in ast.walk(f.nested[fac.id].node) if isinstance(n, ast.Return)]
        body = r[0].value if r else None
    elif isinstance(fac, ast.Attribute) and dotted(fac.value) == "self" and f.cls is not None and fac.attr in f.cls.methods:
        # a bound method used as the factory: called by the event loop for every connection, like the lambda
        r = C.own_returns(f.cls.methods[fac.attr])
        body = r[0].value if len(r) == 1 else None
    if isinstance(body, ast.Call) and dotted(body.func) == "_HttpServerProtocol":
        sv = C.kw(body, "status") or (body.args[1] if len(body.args) > 1 else None)
        ok = dotted(sv) in ("self.health_status", "self._health_status")
        why = f"status={unparse(sv) if sv is not None else '?'} is not read from the server inside the factory"
        ev = C.kw(body, "endpoint_name") or (body.args[0] if body.args else None)
        ctx.check(dotted(ev) == "self.server_settings.endpoint_name", rule, f, "endpoint from the settings", "configured endpoint", f"endpoint_name={unparse(ev)}", node=body, instance="factory endpoint")
    ctx.check(ok, rule, f, "status read inside the protocol factory", "each new connection sees the current status",
              f"HealthCheckServer.start: {why}: the status is captured when the server starts and a later consumer failure is never reported", node=cs[0], instance="status read per connection")
    for kwname, want in (("host", "self.server_settings.address"), ("port", "self.server_settings.port")):
        ctx.check(dotted(C.kw(cs[0], kwname)) == want, rule, f, f"create_server({kwname}=...)", want, f"create_server {kwname}={unparse(C.kw(cs[0], kwname))}", node=cs[0], instance=f"server {kwname}")
    d = ctx.func(f"{PROTO}.data_received")
    g = ctx.cfg(d)
    writes = [n for n in g.calls() if (n.callee or "") == "self.transport.write"]
    closes = [n for n in g.calls() if (n.callee or "") == "self.transport.close"]
    ctx.check(bool(writes) and bool(closes) and all(flow.must_pass(g, w.id, [g.exit.id], [c.id for c in closes], flow.NORMAL_KINDS) for w in writes), rule, d,
              "connection closed after its single response", "one response per connection, so the status copied at connect time is never stale",
              "data_received does not close the transport after answering: a client that keeps the connection open keeps getting the status captured when it connected "
              "(200 after a consumer has failed) and blocks stop()", instance="close after response")
    hr = [n for n in g.calls() if (n.callee or "") == "self.handle_request"]
    ok = len(hr) == 1 and all(flow.must_pass(g, g.entry.id, [w.id], [hr[0].id], flow.NORMAL_KINDS) for w in writes)
    ctx.check(ok, rule, d, "response produced by handle_request", "table-driven response", "data_received writes something not produced by handle_request", instance="response from handle_request")
    if hr:
        a = hr[0].ast.args
        ok = len(a) == 2 and all(isinstance(x, ast.Name) for x in a)
        srcs = [(o, n) for o, n in C.flat_walk(ctx, d) if isinstance(n, ast.Assign) and isinstance(n.targets[0], ast.Tuple) and len(n.targets[0].elts) == 3 and "split(' '" in unparse(n.value)]
        ok = ok and len(srcs) == 1
        if ok:
            o, n = srcs[0]
            first_two = [dotted(e) for e in n.targets[0].elts][:2]
            if o is d:
                ok = first_two == [a[0].id, a[1].id]
            else:
                # parsed in a helper that returns (method, path), unpacked in that order by the caller
                rets = [r for r in ast.walk(o.node) if isinstance(r, ast.Return) and isinstance(r.value, ast.Tuple)]
                unp = [x for x in ast.walk(d.node) if isinstance(x, ast.Assign) and isinstance(x.targets[0], ast.Tuple) and isinstance(x.value, ast.Call)
                       and any(cal is o for cal in ctx.res.callees(d, x.value))]
                ok = len(rets) == 1 and [dotted(e) for e in rets[0].value.elts] == first_two and len(unp) == 1 and [dotted(e) for e in unp[0].targets[0].elts] == [a[0].id, a[1].id]
        ctx.check(ok, rule, d, "method and path are the first two tokens of the request line", "method, path, _ = request_line.split(' ', 2)",
                  "data_received does not pass the request line's method and path to handle_request", instance="request line tokens")


def table(ctx: Ctx, rule="R-C20-TABLE") -> None:
    f = ctx.func(f"{PROTO}.handle_request")
    g = ctx.cfg(f)
    stores = [s for s in g.nodes if s.kind == "store" and s.target == "content"]
    ctx.floor(rule, len(stores), 1, "stores of the response content")

    def kind(s, e):
        v = s.meta.get("value")
        while isinstance(v, ast.IfExp):  # content = <status> if <is health check> else "404 ..."
            tv = flow.eval_cond(v.test, e, f)
            if tv is None:
                return "undecided:" + unparse(v.test)[:40]
            v = v.body if tv else v.orelse
        if isinstance(v, ast.JoinedStr) and _mentions(v, "status"):
            parts = [unparse(x.value) for x in v.values if isinstance(x, ast.FormattedValue)]
            return "status" if parts == ["self.status.value", "self.status.name"] else "status?" + str(parts)
        if isinstance(v, ast.Constant) and isinstance(v.value, str) and v.value.startswith("404"):
            return "404"
        return "other:" + unparse(v)[:40]

    def env(get, path):
        def fn(text, node):
            if isinstance(node, ast.Compare) and isinstance(node.ops[0], ast.Eq):
                l, r = node.left, node.comparators[0]
                if {dotted(l) or (l.value if isinstance(l, ast.Constant) else None), dotted(r) or (r.value if isinstance(r, ast.Constant) else None)} == {"method", "GET"}:
                    return get
                if {dotted(l), dotted(r)} == {"path", "self.endpoint_name"}:
                    return path
            return None
        return {"*req": fn}

    for get in (True, False):
        for path in (True, False):
            e_ = env(get, path)
            r = flow.reach_under(g, e_, flow.NORMAL_KINDS)
            got = sorted({kind(s, e_) for s in stores if s.id in r})
            want = ["status"] if (get and path) else ["404"]
            ctx.check(got == want, rule, f, f"handle_request[method==GET: {get}, path==endpoint: {path}]", f"-> {want[0]}",
                      f"handle_request with method {'==' if get else '!='} GET and path {'==' if path else '!='} endpoint answers {got} instead of {want}",
                      instance=f"table[{get},{path}]")
    rets = [n for n in g.nodes if n.kind == "return"]
    tpl = C.text_template(f, rets[0].ast.value) if len(rets) == 1 else None
    ok = tpl is not None and tpl.count("{content}") >= 2 and tpl.startswith("HTTP/1.1 {content}\r\n") and tpl.endswith("Connection: close\r\n\r\n{content}") \
        and "Content-Length: {len(content)}\r\n" in tpl
    ctx.check(ok, rule, f, "status line and body are the content", "HTTP/1.1 <content> ... Connection: close ... <content>",
              f"the response is not built from the content chosen by the table (template {tpl!r})", instance="response shape")
    hs = ctx.prog.cls("repid.health_check_server.HealthCheckStatus")
    vals = {k: v.value for k, v in hs.attrs.items() if isinstance(v, ast.Constant)}
    ctx.check(vals == {"OK": 200, "UNHEALTHY": 503}, rule, hs.qualname, "HealthCheckStatus values", "OK=200, UNHEALTHY=503", f"HealthCheckStatus is {vals}", instance="status codes")


def pair(ctx: Ctx, rule="R-C20-PAIR") -> None:
    f = ctx.func(f"{C.WORKER}.run")
    g = flow.inline(f, ctx.res, 1, lambda n, cal: cal.cls is not None and cal.cls.qualname == C.WORKER and cal.name == "_run")
    aw = await_map(g)
    starts = [n for n in g.calls() if (n.callee or "") == "self.health_check_server.start"]
    stops = [n for n in g.calls() if (n.callee or "") == "self.health_check_server.stop"]
    ctx.require(len(starts) >= 1, f"{f.qualname}: health_check_server.start() not found")
    ctx.check(bool(stops), rule, f, "stop() present in Worker.run", "found", "Worker.run never stops the health check server", instance="stop exists")

    def env(has_server):
        def fn(text, node):
            if isinstance(node, ast.Compare) and isinstance(node.ops[0], ast.Is) and dotted(node.left) == "self.health_check_server" and C.is_const(node.comparators[0], None):
                return not has_server
            return None
        return {"*srv": fn}

    # stop() waits for the listening socket AND (Python >= 3.12) for every open connection: a client that connects and stays silent would keep it waiting for ever,
    # so the await of stop() is bounded by a timeout
    parent = {}
    for a in ast.walk(f.node):
        for ch in ast.iter_child_nodes(a):
            parent[id(ch)] = a
    for helper in C.helper_callees(ctx, f):
        for a in ast.walk(helper.node):
            for ch in ast.iter_child_nodes(a):
                parent[id(ch)] = a
    for st_ in stops:
        p_ = parent.get(id(st_.ast))
        bounded = isinstance(p_, ast.Call) and (dotted(p_.func) or "").split(".")[-1] in ("wait_for", "timeout", "timeout_at") and \
            (C.kw(p_, "timeout") is not None or len(p_.args) >= 2) and not C.is_const(C.kw(p_, "timeout") or (p_.args[1] if len(p_.args) > 1 else None), None)
        ctx.check(bounded, rule, f, "stop() of the health check server is awaited under a timeout", "wait_for(stop(), timeout=...)",
                  "Worker.run awaits health_check_server.stop() without a time bound: stop() waits until every open connection is closed, so one client that connects and sends nothing "
                  "keeps run() from ever returning - request (non-)bytes disturb the worker", node=st_, instance="stop bounded")
    for s in starts:
        sa = aw.get(s.id)
        ctx.check(sa is not None, rule, f, "start() awaited", "awaited", "health_check_server.start() is not awaited", node=s, instance="start awaited")
        if sa is None:
            continue
        # from the completed start, under 'a server is configured', every exit passes a stop() call
        stop_ids = {x.id for x in stops}
        seen = {sa.id}
        todo = [sa.id]
        e = env(True)
        leaks = []
        while todo:
            x = todo.pop()
            n = g.nodes[x]
            verdict = flow.eval_cond(n.ast, e, n.func) if n.kind == "test" and n.ast is not None else None
            for y, k in g.succ[x]:
                if x == sa.id and k in ("exc", "cancel"):
                    continue  # start() itself failed: nothing was opened
                if (verdict is True and k == "F") or (verdict is False and k == "T"):
                    continue
                if y in stop_ids or y in seen:
                    continue
                if y in (g.exit.id, g.xexit.id, g.cexit.id, g.bexit.id):
                    leaks.append((x, y, k))
                    continue
                seen.add(y)
                todo.append(y)
        kinds = sorted({g.nodes[y].kind for _, y, _ in leaks})
        ex = [f"{g.nodes[x].label[:40]} -{k}-> {g.nodes[y].kind}" for x, y, k in leaks[:3]]
        ctx.check(not leaks, rule, f, "every exit of Worker.run after start() passes stop()", "normal, exceptional and cancelled exits all stop the server",
                  f"Worker.run can be left through {kinds} without stopping the health check server (e.g. {ex}): the port stays open after the worker is gone",
                  node=s, instance="start/stop pairing on all exits")
    for st in stops:
        ctx.check(effectively_awaited(g, st), rule, f, "stop() awaited", "awaited", "health_check_server.stop() is not awaited", node=st, instance="stop awaited")
    # start(): (re)opens whenever not serving
    s = ctx.func(f"{HCS}.start")
    g2 = ctx.cfg(s)
    cs = [n for n in g2.calls() if (n.callee or "").endswith("create_server")]
    ss = [n for n in g2.calls() if (n.callee or "").endswith("start_serving")]

    def env2(none, serving):
        def fn(text, node):
            if isinstance(node, ast.Compare) and isinstance(node.ops[0], ast.Is) and dotted(node.left) == "self._server":
                return none
            if isinstance(node, ast.Call) and (dotted(node.func) or "").endswith("is_serving"):
                return serving
            return None
        return {"*s": fn}

    for none, serving, want in ((True, None, True), (False, False, True), (False, True, False)):
        r = flow.reach_under(g2, env2(none, serving), flow.NORMAL_KINDS)
        got = any(c.id in r for c in cs)
        label = "no server yet" if none else ("stopped server" if not serving else "already serving")
        ctx.check(got == want, rule, s, f"start() with {label}", "opens the port" if want else "does nothing",
                  f"HealthCheckServer.start() with {label} {'does not open' if want else 'opens'} the port"
                  + (": a worker that is run again (restart loop) has its port closed while it runs" if want and not none else ""), instance=f"start[{label}]")
    ctx.check(bool(ss) or any(C.kw(c.ast, "start_serving") is None for c in cs), rule, s, "server starts serving", "serving", "start() never starts serving", instance="start serving")
    st = ctx.func(f"{HCS}.stop")
    g3 = ctx.cfg(st)
    cl = [n for n in g3.calls() if (n.callee or "") == "self._server.close"]
    wc = [n for n in g3.calls() if (n.callee or "") == "self._server.wait_closed"]
    ctx.check(bool(cl) and bool(wc) and all(w.id in await_map(g3) for w in wc), rule, st, "stop() closes the server and waits", "port closed when stop() returns",
              "HealthCheckServer.stop() does not close the server and await wait_closed()", instance="stop closes")
    wi = ctx.func(f"{C.WORKER}.__init__")
    mk = [c for c in ast.walk(wi.node) if isinstance(c, ast.Call) and dotted(c.func) == "HealthCheckServer"]
    ok = len(mk) == 1 and mk[0].args and dotted(mk[0].args[0]) == "health_check_server_settings"
    ctx.check(ok, rule, wi, "HealthCheckServer(health_check_server_settings)", "configured address/port/endpoint", "the worker does not build its server from the given settings", instance="server settings")
