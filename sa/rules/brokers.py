"""Place-event vocabulary of the three brokers and the rules built on it (shared by C01, C03, C14, C15)."""
from __future__ import annotations

import ast

from .. import flow
from ..cfg import Node
from ..engine import Ctx
from ..model import FuncInfo, dotted, unparse
from . import common as C
from .shared import _mentions, await_map, effectively_awaited

# ----------------------------------------------------------------------------- in-memory place events
PLACE_OF_FIELD = {"simple": "waiting", "delayed": "delayed", "dead": "dead", "processing": "held"}
ADD_METHODS = {"put_nowait", "append", "add", "insert", "extend", "put"}
REMOVE_METHODS = {"get_nowait", "pop", "remove", "discard", "popitem", "clear", "get"}


def inmem_event(n: Node):
    """('+'|'-', place, argument text) for a call that adds to / removes from a DummyQueue field."""
    if n.kind != "call" or not isinstance(n.ast, ast.Call):
        return None
    fe = n.ast.func
    if isinstance(fe, ast.Attribute) and isinstance(fe.value, ast.Name) and fe.value.id not in ("self", "q"):
        fe = C.resolve_base(n.func, fe)  # a local alias of a place (`bucket = self._queue.delayed[t]`)
    ch = C.attr_chain(fe)
    meth = ch[-1]
    fields = [x for x in ch[:-1] if x in PLACE_OF_FIELD]
    if not fields:
        return None
    place = PLACE_OF_FIELD[fields[-1]]
    if meth in ADD_METHODS:
        # delayed.setdefault(k, []).append(msg) / delayed[k].append(msg)
        return ("+", place, unparse(n.ast.args[-1]) if n.ast.args else "")
    if meth == "setdefault":
        return None
    if meth in REMOVE_METHODS:
        return ("-", place, unparse(n.ast.args[0]) if n.ast.args else "")
    return None


def same_class_policy(cls_q: str, exclude: tuple[str, ...] = ()):
    mod = cls_q.rsplit(".", 1)[0]

    def policy(n: Node, cal: FuncInfo) -> bool:
        if cal.cls is not None:
            return cal.cls.qualname == cls_q and cal.name not in exclude
        return cal.module.name == mod and cal.parent is None and not cal.is_async  # small module-level helpers of the same file
    return policy


def op_traces(ctx: Ctx, f: FuncInfo, policy, extra_symbol=None, kinds=flow.NORMAL_KINDS):
    g = flow.inline(f, ctx.res, ctx.depth, policy)

    def sym(n: Node):
        ev = inmem_event(n)
        if ev is not None:
            return ev
        if flow.is_suspension(n):
            return "await"
        if extra_symbol is not None:
            return extra_symbol(n)
        return None

    return g, flow.traces(g, sym, kinds=kinds, loop_bound=ctx.loop_bound)


def squeeze(t: tuple) -> tuple:
    """Drop awaits that are not between a removal and the next addition; keep place events and awaits 'in hand'."""
    out = []
    in_hand = 0
    for s in t:
        if isinstance(s, tuple) and s[0] == "-":
            in_hand += 1
            out.append(s[:2])
        elif isinstance(s, tuple) and s[0] == "+":
            in_hand = max(0, in_hand - 1)
            out.append(s[:2])
        elif s == "await":
            if in_hand > 0:
                out.append("AWAIT-IN-HAND")
        elif isinstance(s, str) and s.startswith("$"):
            out.append(s)
        else:
            out.append(s)
    return tuple(out)


INMEM_ALLOWED = {
    "enqueue": [(("+", "waiting"),), (("+", "delayed"),)],
    "ack": [(), (("-", "held"),)],
    "nack": [(), (("-", "held"), ("+", "dead"))],
    "reject": [(), (("-", "held"), ("+", "waiting")), (("-", "held"), ("+", "delayed")), (("-", "held"), ("+", "dead"))],
    "requeue": [(("+", "waiting"),), (("+", "delayed"),), (("-", "held"), ("+", "waiting")), (("-", "held"), ("+", "delayed"))],
}


def inmem_transfer_atomic(ctx: Ctx, ops=("enqueue", "ack", "nack", "reject", "requeue"), rule_t="R-C01-TRANSFER", rule_a="R-C01-ATOMIC") -> None:
    pol = same_class_policy(C.INMEM_BROKER)
    for op in ops:
        f = ctx.func(f"{C.INMEM_BROKER}.{op}")
        g, trs = op_traces(ctx, f, pol)
        shapes = set()
        for t in trs:
            if t[-1] != "$exit":
                continue
            sq = squeeze(t)
            # a search loop over the held set may run several iterations: collapse repeated (-held, +x) of a single op is not allowed,
            # but the loop bound enumerates the 'found in 2nd iteration' path with the same events
            shapes.add(tuple(x for x in sq if x != "$exit"))
        bad_atomic = sorted(s for s in shapes if "AWAIT-IN-HAND" in s) if op != "ack" else []  # ack: the token is consumed by the removal
        ctx.check(not bad_atomic, rule_a, f, f"in-memory {op}: no suspension point while the message is in no place",
                  f"{len(shapes)} distinct place-event sequence(s), none suspended between removal and re-insertion",
                  f"in-memory {op} can be suspended (and therefore cancelled) after the message was removed from one place and before it was put into the next: "
                  f"{[list(map(str, s)) for s in bad_atomic[:2]]} - a cancellation there loses the message", instance=f"in-memory {op}: atomic")
        plain = {tuple(x for x in s if x != "AWAIT-IN-HAND") for s in shapes}
        allowed = set(INMEM_ALLOWED[op])
        bad = sorted(p for p in plain if p not in allowed)
        ctx.check(not bad and bool(plain), rule_t, f, f"in-memory {op}: place transfers", f"{sorted(map(str, plain))}",
                  f"in-memory {op} moves the message by {[list(map(str, b)) for b in bad[:3]]}, allowed are {[list(map(str, a)) for a in allowed]}: a message would be lost or duplicated",
                  instance=f"in-memory {op}: transfer")
        if op in ("ack", "nack", "reject", "requeue"):
            ctx.check(any(("-", "held") in p for p in plain), rule_t, f, f"in-memory {op}: releases the held message", "-held present",
                      f"in-memory {op} never removes the message from the processing set (it stays in flight forever)", instance=f"in-memory {op}: releases")
        # identity: what is removed is what is added (nack / reject), found by id
        if op in ("nack", "reject"):
            evs = {inmem_event(n) for n in g.calls()} - {None}
            rem = {e[2] for e in evs if e[0] == "-" and e[1] == "held"}
            add = {e[2] for e in evs if e[0] == "+"}
            if add != rem and len(add) == 1 and len(rem) == 1:
                # removed inside a helper that returns the removed message, added by the caller under another name
                a_name = next(iter(add))
                for d_ in C.local_defs(f, a_name):
                    if isinstance(d_, ast.Call):
                        for cal in ctx.res.callees(f, d_, record=False):
                            if any(isinstance(r_.value, ast.Name) and r_.value.id in rem for r_ in C.own_returns(cal)):
                                add = set(rem)
            ctx.check(len(rem) == 1 and add == rem, rule_t, f, f"in-memory {op}: the removed message itself is re-inserted", f"{sorted(rem)}",
                      f"in-memory {op} removes {sorted(rem)} but inserts {sorted(add)}: the message re-inserted is not (only) the held message itself (payload/parameters/schedule may differ)",
                      instance=f"in-memory {op}: same message")
        if op in ("ack", "nack", "reject", "requeue"):
            tests = [t for t in g.nodes if t.kind == "test" and isinstance(t.ast, ast.Compare) and _mentions(t.ast, "id_")]
            ok = any(isinstance(t.ast.ops[0], ast.Eq) and {unparse(t.ast.left).split(".", 1)[-1], unparse(t.ast.comparators[0]).split(".", 1)[-1]} <= {"key.id_", "id_"}
                     and {unparse(t.ast.left), unparse(t.ast.comparators[0])} & {"msg.key.id_", "message.key.id_", "held.key.id_", "candidate.key.id_", "m.key.id_"} or
                     (isinstance(t.ast.ops[0], ast.Eq) and unparse(t.ast.left).endswith(".key.id_") != unparse(t.ast.comparators[0]).endswith(".key.id_")) for t in tests)
            ctx.check(ok, rule_t, f, f"in-memory {op}: held message selected by id", "msg.key.id_ == key.id_", f"in-memory {op} selects the held message by {[t.label for t in tests]}",
                      instance=f"in-memory {op}: selection")
        if op in ("enqueue", "requeue"):
            mk = [c for c in g.calls() if dotted(c.ast.func) == "Message"]
            margs = [C.arg(mk[0].ast, i, nm) for i, nm in enumerate(("key", "payload", "parameters"))] if len(mk) == 1 else []
            ok = len(mk) == 1 and all(a is not None for a in margs) and [unparse(a) for a in margs[:2]] == ["key", "payload"] and unparse(margs[2]).startswith("params")
            ctx.check(ok, rule_t, f, f"in-memory {op}: stores (key, payload, params) as given", "Message(key, payload, params or default)",
                      f"in-memory {op} stores {unparse(mk[0].ast) if mk else 'nothing'}", instance=f"in-memory {op}: stored triple")


def inmem_consume_rules(ctx: Ctx, rule_t="R-C01-TRANSFER", rule_a="R-C14-TAKE") -> None:
    f = ctx.func(f"{C.INMEM_CONS}.consume")
    done = set()
    g = None
    for reader in ("__consume_normal", "__consume_delayed", "__consume_dead"):
        # the reader is fixed per consumer (category dispatch table): analyse one reader at a time;
        # the delayed->waiting refresh is a synchronous copy-then-delete unit checked by R-C05-CMP
        pol = lambda n, cal, reader=reader: cal.cls is not None and cal.cls.qualname == C.INMEM_CONS and cal.name == reader
        g, trs = op_traces(ctx, f, pol)
        done |= {t for t in trs if t[-1] == "$exit"}
    ctx.floor(rule_t, len(done), 3, "distinct event sequences of in-memory consume")
    bad_atomic = set()
    bad_shape = set()
    for t in done:
        sq = squeeze(t)
        ev = [x for x in sq if x != "$exit"]
        if "AWAIT-IN-HAND" in ev:
            bad_atomic.add(tuple(map(str, ev)))
        plain = [x for x in ev if x != "AWAIT-IN-HAND"]
        # split into transfers: each removal must be followed by exactly one addition
        i = 0
        ok = True
        last_add = None
        while i < len(plain):
            x = plain[i]
            if x[0] == "-":
                if i + 1 >= len(plain) or plain[i + 1][0] != "+":
                    ok = False
                    break
                src, dst = x[1], plain[i + 1][1]
                if (src, dst) not in {("waiting", "held"), ("waiting", "dead"), ("waiting", "waiting"), ("delayed", "held"), ("dead", "held")}:
                    ok = False
                last_add = dst
                i += 2
            else:
                ok = False
                i += 1
        if not ok or last_add != "held":
            bad_shape.add(tuple(map(str, plain)))
    ctx.check(not bad_atomic, rule_a, f, "in-memory consume: no suspension point between taking a message and marking it held",
              f"{len(done)} event sequences", f"in-memory consume() can be suspended after a message was taken out of its queue and before it is in the processing set: "
              f"{sorted(bad_atomic)[:2]} - a cancellation there leaves the message in no place, and another consumer could not see it either", instance="in-memory consume: atomic take")
    ctx.check(not bad_shape, rule_t, f, "in-memory consume: every removal is followed by one insertion; the returned message ends up held",
              "waiting->held | waiting->dead (overdue) | waiting->waiting (foreign) | delayed->held | dead->held",
              f"in-memory consume() has event sequences {sorted(bad_shape)[:2]} that lose or duplicate a message", instance="in-memory consume: transfers")
    # what is added to processing is what is returned
    g = ctx.cfg(f)
    adds = [n for n in g.calls() if inmem_event(n) and inmem_event(n)[:2] == ("+", "held")]
    rets = [n for n in g.nodes if n.kind == "return" and n.ast.value is not None]
    ok = len(adds) == 1 and len(rets) == 1 and unparse(adds[0].ast.args[0]) == "msg" and unparse(rets[0].ast.value) == "(msg.key, msg.payload, msg.parameters)"
    ctx.check(ok, rule_t, f, "in-memory consume: the held message is the one returned", "processing.add(msg); return its triple", "in-memory consume() marks another message held than it returns",
              instance="in-memory consume: held == returned")
    # __consume_delayed: removes exactly the entry it returns
    d = ctx.func(f"{C.INMEM_CONS}.__consume_delayed")
    gd = ctx.cfg(d)
    rets = [n for n in gd.nodes if n.kind == "return" and not C.is_const(n.ast.value, None)]
    ctx.floor(rule_t, len(rets), 1, "returns of __consume_delayed")
    for r in rets:
        v = r.ast.value
        pops = [c for x in C.expand_locals(d, v) for c in ast.walk(x) if isinstance(c, ast.Call) and isinstance(c.func, ast.Attribute) and c.func.attr == "pop"]
        ok = len(pops) == 1
        ctx.check(ok, rule_t, d, f"__consume_delayed: `{unparse(v)[:60]}` removes exactly what it returns", "one pop per returned message",
                  f"__consume_delayed returns `{unparse(v)[:80]}`, which does not remove exactly the returned message from the delayed map", node=r, instance=f"consume_delayed: {unparse(v)[:40]}")
    def len_env(one: bool):
        def fn(text, node):
            if isinstance(node, ast.Compare) and isinstance(node.ops[0], ast.Eq) and isinstance(node.left, ast.Call) and dotted(node.left.func) == "len" and C.is_const(node.comparators[0], 1):
                return one
            if isinstance(node, ast.Compare) and isinstance(node.ops[0], ast.Gt) and isinstance(node.left, ast.Call) and dotted(node.left.func) == "len" and C.is_const(node.comparators[0], 1):
                return not one
            if dotted(node) == "self._queue.delayed":
                return True
            return None
        return {"*len": fn}

    def pop_kind(nn):
        fe = nn.ast.func
        if isinstance(fe, ast.Attribute) and isinstance(fe.value, ast.Name) and fe.value.id != "self":
            fe = C.resolve_base(d, fe)
        ch = C.attr_chain(fe)
        if ch[-1] != "pop" or "delayed" not in ch:
            return None
        return "bucket-deleted" if ch[-2] == "delayed" else "first-message-popped"

    for one in (True, False):
        r_ = flow.reach_under(gd, len_env(one), flow.NORMAL_KINDS)
        kinds_ = sorted({pop_kind(nn) for nn in gd.calls() if nn.id in r_ and pop_kind(nn)})
        want_k = ["bucket-deleted"] if one else ["first-message-popped"]
        ctx.check(kinds_ == want_k, rule_t, d, f"__consume_delayed: bucket with {'exactly one message' if one else 'several messages'}", "bucket deleted" if one else "first message popped, bucket kept",
                  f"__consume_delayed with {'one message' if one else 'several messages'} in the earliest bucket does {kinds_ or 'nothing'}: "
                  + ("the emptied bucket must be deleted" if one else "deleting the whole bucket makes the other messages due at the same instant vanish (and popping nothing hands the same message out again)"),
                  instance=f"consume_delayed: bucket[{'1' if one else 'n'}]")
    sm = [n for n in ast.walk(d.node) if isinstance(n, ast.Call) and dotted(n.func) == "min"]
    ctx.check(len(sm) == 1 and C.utext(d, sm[0].args[0]) == "self._queue.delayed", "R-C15-INMEM", d, "__consume_delayed takes the soonest due time", "min(delayed)", "__consume_delayed does not take the earliest bucket",
              instance="consume_delayed: soonest")
    # finish: everything held goes back
    fin = ctx.func(f"{C.INMEM_CONS}.finish")
    gf, trs = op_traces(ctx, fin, same_class_policy(C.INMEM_CONS))
    shapes = {tuple(x for x in squeeze(t) if x != "$exit") for t in trs if t[-1] == "$exit"}
    ok = all("AWAIT-IN-HAND" not in s for s in shapes) and all(all(s[i] == ("-", "held") and s[i + 1] == ("+", "waiting") for i in range(0, len(s), 2)) and len(s) % 2 == 0 for s in shapes)
    ctx.check(ok and any(s for s in shapes), "R-C03-FINISH", fin, "in-memory finish: every held message goes back to the waiting queue, atomically", f"{sorted(map(str, shapes))[:3]}",
              f"in-memory finish() has event sequences {sorted(map(str, shapes))[:3]}", instance="in-memory finish: transfers")


# ----------------------------------------------------------------------------- redis
REDIS_MUTATING = {"lpush", "rpush", "lrem", "zadd", "zrem", "hset", "hsetnx", "hdel", "delete", "lpop", "rpop", "set", "expire", "zpopmin", "rpoplpush", "lmove"}


def redis_cmd(n: Node):
    """(receiver, command, key text) for a redis command call (pipe.<cmd>(...) / self.conn.<cmd>(...))."""
    if n.kind != "call" or not isinstance(n.ast.func, ast.Attribute):
        return None
    recv = dotted(n.ast.func.value)
    cmd = n.ast.func.attr
    if recv in ("pipe", "self.conn", "self.broker.conn") and cmd in REDIS_MUTATING | {"execute", "pipeline"}:
        key = unparse(n.ast.args[0]) if n.ast.args else ""
        return (recv, cmd, key)
    return None


def redis_place(cmd: str, key: str) -> tuple[str, str] | None:
    """('+'|'-', place) of a mutating command given its key expression text."""
    if "processing_queue" in key:
        place = "held"
    elif key.startswith("qnc(") and "dead=True" in key:
        place = "dead"
    elif key.startswith("qnc(") and "delayed=True" in key:
        place = "delayed"
    elif key.startswith("qnc("):
        place = "waiting"
    elif key.startswith("mnc(") or key.startswith("full_message_name_from_short("):
        place = "data"
    elif key in ("full_queue_name", "queue_name", "source_queue", "full_name"):
        place = "source"
    else:
        place = "?" + key
    if cmd in ("lpush", "rpush", "zadd", "hset", "hsetnx", "set"):
        return ("+", place)
    if cmd in ("lrem", "zrem", "hdel", "delete", "lpop", "rpop", "zpopmin"):
        return ("-", place)
    return None


REDIS_ALLOWED = {
    "enqueue": [{("+", "data"), ("+", "waiting")}, {("+", "data"), ("+", "delayed")}],
    "ack": [{("-", "data"), ("-", "held")}],
    "nack": [{("+", "dead"), ("-", "held"), ("-", "data*")}],
    "reject": [{("+", "dead"), ("-", "held"), ("-", "data*")}, {("+", "waiting"), ("-", "held"), ("-", "data*")}, {("+", "delayed"), ("-", "held"), ("-", "data*")}],
    "requeue": [{("+", "data"), ("+", "waiting"), ("-", "held"), ("-", "data*")}, {("+", "data"), ("+", "delayed"), ("-", "held"), ("-", "data*")}],
    "take": [{("-", "source"), ("+", "held"), ("+", "data*")}],
    "orphan": [{("-", "held"), ("+", "dead")}],
}


def redis_queue_names(ctx: Ctx, rule: str) -> None:
    """A Redis list / sorted set is named after queue AND priority (`q:<queue>:<priority>:<marker>`); the readers of the consumer ask for one priority
    at a time. So every name built for a message must carry that message's priority - a name built with the default priority files HIGH / LOW
    messages where no reader of their priority ever looks (they are lost to every consumer)."""
    n = 0
    qn = ctx.func("repid.connections.redis.utils.qnc")
    prio_param = [p.arg for p in qn.params()][1]
    # one named exception: the orphan clean-up in __get_message_details has only the short name of a message whose data is gone
    exempt = {f"{C.REDIS_CONS}.__get_message_details"}
    for fn in ctx.prog.iter_functions():
        if not fn.module.name.startswith("repid.connections.redis") or fn.qualname == qn.qualname:
            continue
        for c in ast.walk(fn.node):
            if not (isinstance(c, ast.Call) and any(cal.qualname == qn.qualname for cal in ctx.res.callees(fn, c, record=False))):
                continue
            n += 1
            pr = C.arg(c, 1, prio_param)
            ptxt = C.utext(fn, pr) if pr is not None else None
            params = [p.arg for p in fn.params()]
            if fn.qualname in exempt and pr is None:
                ctx.ok(rule, f"{fn.short()}: {unparse(c)[:50]}", "orphan clean-up (message data already gone): named exception")
                continue
            ok = ptxt is not None and (ptxt.endswith(".priority") or ptxt in params or ptxt.endswith(".priority.value") or ptxt.endswith(".value"))
            ctx.check(ok, rule, fn, f"{unparse(c)[:60]} in {fn.short()}", f"named after the message's / the reader's priority ({ptxt})",
                      f"{fn.short()} builds the Redis queue name {unparse(c)[:80]} without the priority of the message (default priority used): messages of every other priority "
                      "are filed where no reader of their priority looks - they can never be consumed again", node=c, instance=f"{fn.short()}: {unparse(c)[:50]}")
    ctx.floor(rule, n, 8, "Redis queue names built")


def redis_txn_rules(ctx: Ctx, ops=("enqueue", "ack", "nack", "reject", "requeue"), rule_t="R-C01-TRANSFER", rule_a="R-C01-ATOMIC") -> None:
    targets = [(op, ctx.func(f"{C.REDIS_BROKER}.{op}"), same_class_policy(C.REDIS_BROKER, ("maintenance",))) for op in ops]
    targets.append(("take", ctx.func(f"{C.REDIS_CONS}.__get_message_name"),
                    lambda n, cal: cal.cls is not None and cal.cls.qualname == C.REDIS_CONS and not cal.is_async))
    for op, f, pol in targets:
        g = flow.inline(f, ctx.res, ctx.depth, pol)
        aw = await_map(g)

        def sym(n: Node):
            rc = redis_cmd(n)
            if rc is None:
                return None
            recv, cmd, key = rc
            if cmd == "pipeline":
                tx = C.kw(n.ast, "transaction")
                return ("pipeline", "transaction" if (tx is None or C.is_const(tx, True)) else "NO-transaction")
            if cmd == "execute":
                return ("execute", "awaited" if n.id in aw else "NOT-awaited")
            pl = redis_place(cmd, key)
            if pl is None:
                return None
            # the _reject_to marker is a field of the data hash: writes/deletes of it are bookkeeping ("data*")
            if pl[1] == "data" and cmd in ("hset", "hdel") and ("_reject_to" in unparse(n.ast)):
                pl = (pl[0], "data*")
            return (recv, pl)

        trs = flow.traces(g, sym, loop_bound=ctx.loop_bound)
        done = {t for t in trs if t[-1] == "$exit"}
        ctx.floor(rule_t, len(done), 1, f"event sequences of redis {op}")
        shapes = set()
        problems = set()
        for t in done:
            ev = [x for x in t if x != "$exit"]
            pipes = [x for x in ev if x[0] == "pipeline"]
            execs = [i for i, x in enumerate(ev) if x[0] == "execute"]
            muts = [(i, x) for i, x in enumerate(ev) if x[0] in ("pipe", "self.conn", "self.broker.conn")]
            if not muts:
                shapes.add(frozenset())
                continue
            if any(x[0] != "pipe" for _, x in muts):
                problems.add("a state-changing command is sent directly on the connection, outside the MULTI/EXEC transaction")
            if len(pipes) != 1 or pipes[0][1] != "transaction":
                problems.add(f"{len(pipes)} pipeline(s) {[p[1] for p in pipes]} instead of exactly one transactional pipeline")
            if len(execs) != 1:
                problems.add(f"{len(execs)} execute() calls instead of exactly one: the operation's place changes are not one atomic transaction "
                             "(a crash or cancellation between them leaves the message in no place or in two)")
            elif ev[execs[0]][1] != "awaited":
                problems.add("the transaction's execute() is not awaited: nothing is sent")
            elif any(i > execs[0] for i, _ in muts):
                problems.add("commands buffered after execute() are never sent")
            shapes.add(frozenset(x[1] for _, x in muts if x[1][1] != "data*"))
        ctx.check(not problems, rule_a, f, f"redis {op}: one MULTI/EXEC transaction holds all place changes", "one transactional pipeline, one awaited execute after all commands",
                  f"redis {op}: " + "; ".join(sorted(problems)), instance=f"redis {op}: atomic")
        allowed = [{e for e in a if e[1] != "data*"} for a in REDIS_ALLOWED[op]]
        bad = [s for s in shapes if s and s not in [frozenset(a) for a in allowed]]
        ctx.check(not bad and any(shapes), rule_t, f, f"redis {op}: place transfers", f"{[sorted(map(str, s)) for s in shapes]}",
                  f"redis {op} changes places by {[sorted(map(str, b)) for b in bad[:2]]}; allowed: {[sorted(map(str, a)) for a in allowed]} - the message would be lost, duplicated or left marked in flight",
                  instance=f"redis {op}: transfer")
    # helper key expressions: added and removed under the same short name
    b = ctx.prog.cls(C.REDIS_BROKER)
    for hname in ("__put_in_queue", "__mark_dead", "__unmark_processing"):
        h = b.methods.get(hname)
        ctx.require(h is not None, f"{C.REDIS_BROKER}.{hname} not found")
        for c in ast.walk(h.node):
            if isinstance(c, ast.Call) and isinstance(c.func, ast.Attribute) and dotted(c.func.value) == "pipe" and c.func.attr in ("lpush", "rpush", "lrem", "zrem"):
                member = c.args[-1] if c.func.attr != "zrem" else c.args[1]
                ctx.check(unparse(member) == "mnc(key, short=True)", rule_t, h, f"redis {hname}: member is the message's short name", "mnc(key, short=True)",
                          f"redis {hname} uses member {unparse(member)}: a message is removed under another name than it was added", node=c, instance=f"redis {hname}: {c.func.attr} member")
            if isinstance(c, ast.Call) and isinstance(c.func, ast.Attribute) and dotted(c.func.value) == "pipe" and c.func.attr == "zadd":
                mp = c.args[1] if len(c.args) > 1 else None
                ok = isinstance(mp, ast.Dict) and len(mp.keys) == 1 and unparse(mp.keys[0]) == "mnc(key, short=True)"
                ctx.check(ok, rule_t, h, f"redis {hname}: zadd member is the message's short name", "mnc(key, short=True)", f"redis {hname} zadds {unparse(mp)}", node=c, instance=f"redis {hname}: zadd member")
    t = ctx.func(f"{C.REDIS_CONS}.__get_message_name")
    blind = [c for _o, c in C.flat_walk(ctx, t) if isinstance(c, ast.Call) and isinstance(c.func, ast.Attribute) and dotted(c.func.value) == "pipe"
             and c.func.attr in ("rpop", "lpop", "zpopmin", "zpopmax", "rpoplpush", "lmove", "blpop", "brpop")]
    ctx.check(not blind, rule_t, t, "redis take removes the fetched name itself", "LREM/ZREM by name",
              f"redis take removes whatever element is at the end of the queue ({unparse(blind[0])[:60] if blind else ''}) instead of the name it fetched: with a topic filter the delivered message stays "
              "queued (and is delivered again) while a foreign message vanishes", node=blind[0] if blind else None, instance="redis take: removal by name")
    for _own, c in C.flat_walk_bound(ctx, t):
        if isinstance(c, ast.Call) and isinstance(c.func, ast.Attribute) and dotted(c.func.value) == "pipe" and c.func.attr in ("lrem", "zrem"):
            ok = unparse(c.args[0]) == "full_queue_name" and unparse(c.args[-1]) == "msg_short_name"
            ctx.check(ok, rule_t, t, f"redis take: {c.func.attr} removes the fetched name from the fetched queue", "same queue, same name", f"redis take removes {unparse(c)}", node=c,
                      instance=f"redis take: {c.func.attr}")
    mp = ctx.func(f"{C.REDIS_CONS}.__mark_processing")
    z = [c for c in ast.walk(mp.node) if isinstance(c, ast.Call) and isinstance(c.func, ast.Attribute) and c.func.attr == "zadd"]
    ok = len(z) == 1 and unparse(z[0].args[0]) == "self.broker.processing_queue" and isinstance(z[0].args[1], ast.Dict) and unparse(z[0].args[1].keys[0]) == "msg_short_name" \
        and "unix_time()" in unparse(z[0].args[1].values[0])
    ctx.check(ok, rule_t, mp, "redis take: held mark = processing zset, member short name, score now", "zadd(processing, {short: now})", f"redis __mark_processing does {unparse(z[0]) if z else '?'}",
              instance="redis take: held mark")


def piq_sites(ctx: Ctx, f: FuncInfo) -> list[ast.Call]:
    """Calls of the Redis routing helper __put_in_queue made by broker operation f - directly or through private helpers of the broker;
    arguments are expressed in f's own terms (helpers are inlined with their parameters substituted)."""
    g = ctx.icfg(f, exclude=("__put_in_queue",) + tuple(C.BROKER_OPS), substitute=True)
    return [n.ast for n in g.calls() if any(cal.name == "__put_in_queue" for cal in ctx.res.callees(n.func, n.ast, record=False)) or (n.callee or "").endswith("__put_in_queue")]


def redis_source_rules(ctx: Ctx, rule="R-C01-SOURCE") -> None:
    mp = ctx.func(f"{C.REDIS_CONS}.__mark_processing")
    hs = [c for c in ast.walk(mp.node) if isinstance(c, ast.Call) and isinstance(c.func, ast.Attribute) and c.func.attr == "hset"]
    ok = len(hs) == 1 and C.is_const(C.kw(hs[0], "key"), "_reject_to") and unparse(C.kw(hs[0], "value")) == "get_queue_marker(full_queue_name)" \
        and unparse(hs[0].args[0]) == "full_message_name_from_short(msg_short_name, full_queue_name)"
    ctx.check(ok, rule, mp, "redis take records the source queue marker on the message", "_reject_to = marker of the queue it was taken from", f"redis __mark_processing records {unparse(hs[0]) if hs else 'nothing'}",
              instance="redis: source recorded")
    rj = ctx.func(f"{C.REDIS_BROKER}.reject")
    hm = [c for c in ast.walk(rj.node) if isinstance(c, ast.Call) and isinstance(c.func, ast.Attribute) and c.func.attr == "hmget"]
    ok = len(hm) == 1 and "_reject_to" in unparse(hm[0]) and "parameters" in unparse(hm[0]) and unparse(hm[0].args[0]) == "mnc(key)"
    ctx.check(ok, rule, rj, "redis reject reads the recorded marker and the stored parameters", "hmget(mnc(key), ['parameters', '_reject_to'])", f"redis reject reads {unparse(hm[0])[:80] if hm else 'nothing'}",
              instance="redis: source read")
    # markers produced by qnc vs values reject dispatches on
    q = ctx.func("repid.connections.redis.utils.qnc")
    markers = set()
    for r in ast.walk(q.node):
        if isinstance(r, ast.Return) and isinstance(r.value, ast.JoinedStr):
            last = r.value.values[-1]
            if isinstance(last, ast.Constant):
                markers.add(last.value.split(":")[-1])
            elif isinstance(last, ast.FormattedValue) and isinstance(last.value, ast.IfExp):
                markers |= {last.value.body.value, last.value.orelse.value}
            elif isinstance(last, ast.FormattedValue) and isinstance(last.value, ast.Name):
                markers |= {d_.value for d_ in C.local_defs(q, last.value.id) if isinstance(d_, ast.Constant)}
    hm_names = {t.id for n in ast.walk(rj.node) if isinstance(n, (ast.Assign, ast.AnnAssign)) and isinstance(n.value, ast.Await) and isinstance(n.value.value, ast.Call)
                and isinstance(n.value.value.func, ast.Attribute) and n.value.value.func.attr == "hmget" for t in (n.targets if isinstance(n, ast.Assign) else [n.target]) if isinstance(t, ast.Name)}

    def from_marker(e):
        return any(isinstance(s_, ast.Subscript) and dotted(s_.value) in hm_names and C.is_const(s_.slice, 1) for x in C.expand_locals(rj, e) for s_ in ast.walk(x))

    disp = {c.comparators[0].value for c in ast.walk(rj.node) if isinstance(c, ast.Compare) and isinstance(c.ops[0], ast.Eq) and isinstance(c.comparators[0], ast.Constant)
            and isinstance(c.comparators[0].value, str) and from_marker(c.left)}
    ctx.check(markers == {"n", "d", "dead"} and disp == {"dead"}, rule, rj, "redis: every queue marker has a reject route", f"markers {sorted(markers)}; 'dead' explicit, n/d by due time",
              f"redis queue markers are {sorted(markers)} but reject dispatches on {sorted(disp)}", instance="redis: markers vs dispatch")
    piq = piq_sites(ctx, rj)
    ok = len(piq) == 1 and C.is_const(C.arg(piq[0], 3, "in_front"), True)
    ctx.check(ok, rule, rj, "redis reject returns the message in front", "in_front=True", "redis reject does not put the returned message at the consumption end", instance="redis: reject in front")
    piq_call = piq[0] if piq else None
    du = C.arg(piq_call, 2, "delay_until") if piq_call is not None else None
    src_ok = False
    if du is not None:
        for x in C.expand_locals(rj, du):
            for s_ in ast.walk(x):
                if isinstance(s_, ast.Call) and (dotted(s_.func) or "").endswith("PARAMETERS_CLASS.decode") and any(
                        isinstance(y, ast.Subscript) and dotted(y.value) in hm_names and C.is_const(y.slice, 0) for y in ast.walk(s_)):
                    src_ok = True
    ok = src_ok
    ctx.check(ok, rule, rj, "redis reject routes by the message's stored parameters", "PARAMETERS_CLASS.decode(stored)", "redis reject does not decode the stored parameters for routing", instance="redis: reject params")


# ----------------------------------------------------------------------------- rabbitmq
def rabbit_rules(ctx: Ctx, rule_t="R-C01-TRANSFER", rule_a="R-C01-ATOMIC", atomic_finding: bool = True) -> None:
    want = {"ack": ("basic_ack", {}), "nack": ("basic_nack", {"requeue": False}), "reject": ("basic_reject", {"requeue": True})}
    for op, (cmd, kws) in want.items():
        f = ctx.func(f"{C.RABBIT_BROKER}.{op}")
        g = ctx.icfg(f, exclude=tuple(C.BROKER_OPS), substitute=True)  # a shared 'pop the tag' helper is part of the operation
        pops = [n for n in g.calls() if (n.callee or "") == "self._id_to_delivery_tag.pop"]
        cmds = [n for n in g.calls() if (n.callee or "").startswith("self._channel.basic_")]
        ok = len(pops) == 1 and unparse(pops[0].ast.args[0]) == "key.id_" and len(cmds) == 1 and cmds[0].callee.endswith(cmd)
        ctx.check(ok, rule_t, f, f"rabbitmq {op}: pops the delivery tag of key.id_ and sends {cmd}", f"{cmd}", f"rabbitmq {op} does {[unparse(c.ast)[:50] for c in pops + cmds]}", instance=f"rabbitmq {op}: shape")
        if not ok:
            continue
        c = cmds[0]

        def from_pop(fn_, e, depth=3):
            """e (in fn_) is the popped tag: the pop itself, a local defined by it, or what a helper returns from it."""
            if e is pops[0].ast or (isinstance(e, ast.NamedExpr) and e.value is pops[0].ast):
                return True
            if depth <= 0:
                return False
            if isinstance(e, ast.Name):
                defs = C.local_defs(fn_, e.id)
                return len(defs) == 1 and from_pop(fn_, defs[0], depth - 1)
            if isinstance(e, ast.Call):
                for cal in ctx.res.callees(fn_, e, record=False):
                    # the inlined copy of the helper holds the pop node
                    for nn in g.nodes:
                        if nn.func.qualname == cal.qualname and nn.kind == "return" and isinstance(nn.ast, ast.Return) and nn.ast.value is not None and from_pop(nn.func, nn.ast.value, depth - 1):
                            return True
            return False

        ok = from_pop(c.func, c.ast.args[0]) if c.ast.args else False
        ctx.check(ok, rule_t, f, f"rabbitmq {op}: {cmd}(tag of this message)", "the popped tag", f"rabbitmq {op} sends {unparse(c.ast)}", node=c, instance=f"rabbitmq {op}: tag")
        for k, v in kws.items():
            got = C.kw(c.ast, k)
            okk = (got is None and v is True) or (got is not None and C.is_const(got, v))
            ctx.check(okk, rule_t, f, f"rabbitmq {op}: {k}={v}", f"{k}={v}", f"rabbitmq {op} sends {cmd} with {k}={unparse(got) if got is not None else '<default True>'}: "
                      + ("the message is not dead-lettered" if op == "nack" else "the message is dropped instead of returned"), node=c, instance=f"rabbitmq {op}: {k}")
        ctx.check(c.id in await_map(g), rule_t, f, f"rabbitmq {op}: {cmd} awaited", "awaited", f"rabbitmq {op} does not await {cmd}", node=c, instance=f"rabbitmq {op}: awaited")
        # unknown tag -> nothing sent
        def env(text, node):
            if isinstance(node, ast.Compare) and isinstance(node.ops[0], ast.Is) and C.is_const(node.comparators[0], None):
                return True
            return None
        r = flow.reach_under(g, {"*n": env}, flow.NORMAL_KINDS)
        ctx.check(c.id not in r, rule_t, f, f"rabbitmq {op}: unknown delivery tag -> nothing sent", "no server call without a tag", f"rabbitmq {op} sends {cmd} although the message is not held", instance=f"rabbitmq {op}: unknown tag")
    # requeue = ack then enqueue (non-atomic: known finding)
    f = ctx.func(f"{C.RABBIT_BROKER}.requeue")
    g = ctx.cfg(f)

    def sym(n: Node):
        if n.kind == "call" and n.callee in ("self.ack", "self.enqueue"):
            return n.callee.split(".")[-1]
        if flow.is_suspension(n):
            return "await"
        return None

    trs = {t for t in flow.traces(g, sym, loop_bound=1) if t[-1] == "$exit"}
    seq = sorted({tuple(x for x in t if x in ("ack", "enqueue")) for t in trs})
    ctx.check(seq in ([("ack", "enqueue")],), rule_t, f, "rabbitmq requeue: ack the held delivery, then publish the new message", "ack -> enqueue, once each",
              f"rabbitmq requeue performs {seq}: " + ("publishing before the old delivery is acked leaves two copies of the message when the call is interrupted in between "
                                                      "(the runner's reject then also returns the old copy)" if seq == [("enqueue", "ack")] else "the held message is not replaced by exactly one new message"),
              instance="rabbitmq requeue: order")
    calls = {n.callee: n for n in g.calls() if n.callee in ("self.ack", "self.enqueue")}
    if "self.enqueue" in calls:
        ok = [unparse(a) for a in calls["self.enqueue"].ast.args] == ["key", "payload", "params"]
        ctx.check(ok, rule_t, f, "rabbitmq requeue: enqueue(key, payload, params)", "same key, new payload and parameters", f"rabbitmq requeue publishes {unparse(calls['self.enqueue'].ast)}", instance="rabbitmq requeue: arguments")
    if seq == [("ack", "enqueue")] and atomic_finding:
        ctx.fail(rule_a, f, "await self.ack(key); await self.enqueue(key, payload, params)",
                 "rabbitmq requeue is 'await ack(); await enqueue()' on one channel without an AMQP transaction: a cancellation (worker shutdown) or connection loss after the ack "
                 "and before the publish is confirmed loses the message", instance="rabbitmq requeue: atomic")
    # on_new_message registers the tag before handing out
    o = ctx.func(f"{C.RABBIT_CONS}.on_new_message")
    go = ctx.cfg(o)
    st = [n for n in go.nodes if n.kind == "store" and isinstance(n.ast, ast.Subscript) and unparse(n.ast.value) == "self.broker._id_to_delivery_tag"]
    puts = [n for n in go.calls() if n.callee == "self.queue.put"]
    ok = len(st) == 1 and unparse(st[0].ast.slice) == "msg_id" and unparse(st[0].meta.get("value")) == "message.delivery_tag" and \
        all(flow.must_pass(go, go.entry.id, [p.id], [st[0].id], flow.NORMAL_KINDS) for p in puts)
    ctx.check(ok, rule_t, o, "rabbitmq consumer: delivery tag registered under the message id before hand-out", "_id_to_delivery_tag[msg_id] = delivery_tag", "rabbitmq on_new_message hands out a message whose delivery tag is not registered "
              "under its id (it can never be acked)", instance="rabbitmq consumer: tag registered")


def own_rules(ctx: Ctx, rule="R-OWN") -> None:
    """Who may touch the places."""
    n = 0
    for fn in ctx.prog.iter_functions():
        mod = fn.module.name
        for c in ast.walk(fn.node):
            if isinstance(c, ast.Call) and isinstance(c.func, ast.Attribute):
                ch = C.attr_chain(c.func)
                fields = [x for x in ch[:-1] if x in PLACE_OF_FIELD]
                if fields and ch[-1] in ADD_METHODS | REMOVE_METHODS and any(x in ("_queue", "queues", "q", "[]") or x == "self" for x in ch):
                    if "_queue" in ch or "queues" in ch or ch[0] == "q":
                        n += 1
                        ctx.check(mod.startswith("repid.connections.in_memory"), rule, fn, f"{unparse(c)[:60]} in {fn.short()}", "in-memory places mutated only by the in-memory broker",
                                  f"{fn.short()} mutates an in-memory queue place directly ({unparse(c)[:70]})", node=c, instance=f"in-memory place mutation in {fn.short()}")
                if ch[-1] in ("basic_ack", "basic_nack", "basic_reject", "basic_publish", "basic_consume", "basic_cancel", "basic_qos"):
                    n += 1
                    ctx.check(mod.startswith("repid.connections.rabbitmq"), rule, fn, f"{ch[-1]} in {fn.short()}", "AMQP calls only in the rabbitmq broker", f"{fn.short()} talks AMQP directly", node=c,
                              instance=f"AMQP call in {fn.short()}")
    ctx.floor(rule, n, 10, "place-mutating call sites")
    # redis key strings: only qnc / mnc build them (plus the scan patterns of flush / maintenance)
    allowed_fmt = {f"{C.REDIS_BROKER}.queue_flush", f"{C.REDIS_BROKER}.maintenance", "repid.connections.redis.utils.qnc", "repid.connections.redis.utils.mnc",
                   "repid.connections.redis.utils.full_message_name_from_short"}
    for fn in ctx.prog.iter_functions():
        if not fn.module.name.startswith("repid.connections.redis"):
            continue
        for j in ast.walk(fn.node):
            if isinstance(j, ast.JoinedStr) and j.values and isinstance(j.values[0], ast.Constant) and isinstance(j.values[0].value, str) and j.values[0].value.startswith(("m:", "q:")):
                is_pattern = isinstance(j.values[-1], ast.Constant) and isinstance(j.values[-1].value, str) and j.values[-1].value.endswith("*")  # a SCAN/KEYS glob, not the key of one message
                ctx.check(fn.qualname in allowed_fmt or is_pattern, rule, fn, f"redis key literal {unparse(j)[:40]} in {fn.short()}", "keys built only by qnc/mnc", f"{fn.short()} builds a redis key by hand: {unparse(j)[:60]}",
                          node=j, instance=f"redis key literal in {fn.short()}")


TERMINAL_CALLERS = {
    "repid._processor._Processor.report_to_broker": {"requeue", "ack", "nack"},
    "repid._runner._Runner._process_with_event": {"reject"},
    "repid._runner._Runner._run_consumer": {"reject"},
    "repid.message.Message.ack": {"ack"},
    "repid.message.Message.nack": {"nack"},
    "repid.message.Message.reject": {"reject"},
    "repid.message.Message.reschedule": {"requeue"},
    "repid.message.Message.retry": {"requeue"},
    "repid.message.Message.force_retry": {"requeue"},
    "repid.connections.redis.consumer._RedisConsumer.finish": {"reject"},
    "repid.connections.redis.consumer._RedisConsumer.consume_or_none": {"nack"},
    "repid.connections.redis.message_broker.RedisMessageBroker.maintenance": {"reject"},
    "repid.connections.rabbitmq.message_broker.RabbitMessageBroker.requeue": {"ack"},
    "repid.connections.in_memory.message_broker.InMemoryMessageBroker.requeue": set(),
}


def terminal_callers_rule(ctx: Ctx, rule="R-C14-REDELIVER", ops=C.TERMINAL_OPS, minimum: int | None = None) -> None:
    n = 0
    for fn in ctx.prog.iter_functions():
        if fn.module.name.startswith("repid.testing"):
            continue
        g = None
        for c in ast.walk(fn.node):
            if isinstance(c, ast.Call) and isinstance(c.func, ast.Attribute) and c.func.attr in ops:
                op = C.op_of_call(ctx, fn, c, C.MB, ops)
                if op is None:
                    continue
                n += 1
                ok = op in TERMINAL_CALLERS.get(fn.qualname, set())
                if not ok and fn.cls is not None:
                    # a private helper of an allowed owner (same class), e.g. an extracted `__requeue_as_retry`
                    for q_, ops_ in TERMINAL_CALLERS.items():
                        if op in ops_ and q_ in ctx.prog.functions and q_.rsplit(".", 1)[0] == fn.cls.qualname and fn in C.helper_callees(ctx, ctx.prog.functions[q_]):
                            ok = True
                ctx.check(ok, rule, fn, f"{op} called from {fn.short()}", "a known owner of terminal actions",
                          f"{fn.short()} applies the terminal broker operation '{op}': terminal actions may only come from the processor's ladder, the runner's cancel/limit path, the Message API, "
                          "consumer shutdown and Redis maintenance - anything else can return or dispose a message its holder is still working on", node=c, instance=f"{op} in {fn.short()}")
    ctx.floor(rule, n, minimum if minimum is not None else (14 if set(ops) == set(C.TERMINAL_OPS) else 9), "terminal broker operation call sites")


def redis_op_fields(ctx: Ctx, rule: str) -> None:
    """enqueue / requeue write both data fields of the message's own hash from the operation's payload and params."""
    for op, call_attr in (("enqueue", "hsetnx"), ("requeue", "hset")):
        of = ctx.func(f"{C.REDIS_BROKER}.{op}")
        w = {}
        how = {}
        for c in ast.walk(of.node):
            if isinstance(c, ast.Call) and isinstance(c.func, ast.Attribute) and c.func.attr in ("hsetnx", "hset"):
                if len(c.args) >= 3 and isinstance(c.args[1], ast.Constant):
                    w[c.args[1].value] = (unparse(c.args[0]), C.utext(of, c.args[2], calls="all"))
                    how[c.args[1].value] = c.func.attr
                for kname, vname in (("key", "value"),):
                    kk, vv = C.kw(c, kname), C.kw(c, vname)
                    if isinstance(kk, ast.Constant) and vv is not None:
                        w[kk.value] = (unparse(c.args[0]) if c.args else unparse(C.kw(c, "name")), C.utext(of, vv, calls="all"))
                        how[kk.value] = c.func.attr
                mp = C.kw(c, "mapping")
                mp = C.inline_locals(of, mp) if isinstance(mp, ast.Name) else mp
                if isinstance(mp, ast.Dict):
                    for k, v in zip(mp.keys, mp.values):
                        if isinstance(k, ast.Constant):
                            w[k.value] = (unparse(c.args[0]) if c.args else "", C.utext(of, v, calls="all"))
                            how[k.value] = c.func.attr
        ok = w == {"payload": ("mnc(key)", "payload"), "parameters": ("mnc(key)", "params.encode()")}
        ctx.check(ok, rule, of, f"redis {op} writes payload and parameters of the message's own hash", "mnc(key): payload, params.encode()",
                  f"redis {op} writes {w}: the {'re-queued' if op == 'requeue' else 'enqueued'} message does not carry its {'new ' if op == 'requeue' else ''}payload and parameters",
                  instance=f"redis {op} fields")
        if op == "requeue":
            keep_old = sorted(k for k, cmd in how.items() if cmd != "hset")
            ctx.check(not keep_old, rule, of, "redis requeue overwrites the stored payload and parameters", "HSET (not HSETNX) on the existing hash",
                      f"redis requeue writes {keep_old} with HSETNX: the message's hash already exists, so the new payload / parameters (retry counter, next execution time, restarted "
                      "time-to-live clock) are silently not stored and the old ones stay in force", instance="redis requeue overwrites")


def rabbit_bounce_rules(ctx: Ctx, rule: str) -> None:
    """RabbitMQ deliveries the consumer cannot take (paused, foreign topic, not consuming) are bounced with basic_reject: unconditionally with requeue
    (the default) - the message belongs to somebody else and must stay available - and a bounced delivery is not ALSO kept: nothing registers its
    delivery tag or hands it to the local queue afterwards (the server redelivers it, two holders would exist)."""
    f = ctx.func(f"{C.RABBIT_CONS}.on_new_message")
    g = ctx.icfg(f)
    aw = await_map(g)
    rejects = [n for n in g.calls() if (n.callee or "").endswith("basic_reject")]
    ctx.floor(rule, len(rejects), 2, "basic_reject calls in rabbitmq on_new_message")
    keeps = [n.id for n in g.calls() if (n.callee or "") == "self.queue.put"] + \
            [n.id for n in g.nodes if n.kind == "store" and isinstance(n.ast, ast.Subscript) and "_id_to_delivery_tag" in unparse(n.ast.value)]
    ctx.require(bool(keeps), f"{f.qualname}: hand-out to the local queue not found")
    for r in rejects:
        rq = C.kw(r.ast, "requeue")
        ok = rq is None or C.is_const(rq, True)
        ctx.check(ok, rule, f, f"{unparse(r.ast)[:60]}: bounced with requeue", "requeue (default True)",
                  f"rabbitmq on_new_message bounces a delivery with requeue={unparse(rq) if rq is not None else ''}: when the expression is false the message is dropped (or dead-lettered) although "
                  "it was never this consumer's to dispose of - the worker that has an actor for it never receives it", node=r, instance=f"rabbitmq bounce requeues: line {r.lineno}")
        start = aw.get(r.id, r)
        after = flow.reach(g, [start.id], flow.NORMAL_KINDS)
        ctx.check(not (after & set(keeps)), rule, f, f"{unparse(r.ast)[:60]}: a bounced delivery is not kept", "return after the bounce",
                  "rabbitmq on_new_message goes on after bouncing a delivery and also registers / hands out that message: the server redelivers it to another consumer while this one "
                  "keeps a copy - the message is held twice and a successful job runs twice", node=r, instance=f"rabbitmq bounce ends delivery: line {r.lineno}")


def rabbit_consume_keeps_fetched(ctx: Ctx, rule: str) -> None:
    """_RabbitConsumer.consume races `queue.get()` against the server-side-cancel event. A get that completed HAS removed a message from the local queue;
    whatever else happened in the same iteration (cancel event set, restart needed), that message must be returned - any path that loops again or
    awaits the restart first drops it (its delivery tag stays registered, nobody ever acks it)."""
    f = ctx.func(f"{C.RABBIT_CONS}.consume")
    g = ctx.cfg(f)
    gets = [t.id for n in ast.walk(f.node) if isinstance(n, ast.Assign) and isinstance(n.value, ast.Call) and (dotted(n.value.func) or "").endswith("create_task")
            and any(isinstance(c, ast.Call) and isinstance(c.func, ast.Attribute) and c.func.attr == "get" and "queue" in unparse(c.func.value) for c in ast.walk(n.value))
            for t in n.targets if isinstance(t, ast.Name)]
    ctx.require(len(gets) == 1, f"{f.qualname}: the task wrapping queue.get() not found")
    gt = gets[0]
    waits = [n for n in g.nodes if n.kind == "await" and isinstance(n.ast, ast.Await) and isinstance(n.ast.value, ast.Call) and (dotted(n.ast.value.func) or "").endswith("asyncio.wait")]
    ctx.require(len(waits) == 1, f"{f.qualname}: asyncio.wait(...) not found")

    def env(text, node):
        if isinstance(node, ast.Call) and isinstance(node.func, ast.Attribute) and dotted(node.func.value) == gt:
            return {"done": True, "cancelled": False}.get(node.func.attr)
        if isinstance(node, ast.Call) and isinstance(node.func, ast.Attribute) and node.func.attr == "is_set":
            return True  # ... and the server-side cancel arrived in the same iteration
        if isinstance(node, ast.Attribute) and node.attr.endswith("is_consuming"):
            return True
        return None

    r = flow.reach_under(g, {"*fetched": env}, flow.NORMAL_KINDS, start=waits[0].id)
    rets = [n for n in g.nodes if n.kind == "return" and n.id in r and isinstance(n.ast, ast.Return) and n.ast.value is not None and gt in C.names_in(n.ast.value)]
    # before that return nothing may suspend or loop: reach the return without passing another await
    others = [n.id for n in g.nodes if n.id in r and n.id != waits[0].id and (flow.is_suspension(n) or (n.kind == "stmt" and isinstance(n.ast, ast.Continue)))]
    ok = bool(rets) and all(flow.must_pass(g, waits[0].id, [o], [x.id for x in rets], flow.NORMAL_KINDS) for o in others)
    ctx.check(ok, rule, f, "a completed queue.get() is returned before anything else in that iteration", f"return {gt}.result() first",
              f"rabbitmq consume(): with the get task completed AND the server-side cancel event set, the code reaches {[g.nodes[o].label[:40] for o in others][:3]} without returning "
              f"{gt}.result(): the fetched message is dropped (removed from the local queue, never handed out, its delivery tag orphaned)", instance="rabbitmq consume keeps the fetched message")


def redis_scan_exhaustive(ctx: Ctx, rule: str) -> None:
    """The Redis fetch pages through the whole list / sorted set until a page comes back empty: messages of foreign topics in front must not hide the
    consumer's own messages behind them. The paging loop therefore ends only on 'page empty' (or by returning a name) - any further bound on the
    number of pages makes everything behind the first pages unreachable while those pages hold nothing for this consumer."""
    f = ctx.func(f"{C.REDIS_CONS}.__fetch_message_name")
    loops = [w for w in C.own_nodes(f) if isinstance(w, ast.While)]
    ctx.require(len(loops) == 1, f"{f.qualname}: the paging loop not found")
    lp = loops[0]

    def atoms(e):
        if isinstance(e, ast.BoolOp) and isinstance(e.op, ast.And):
            for v in e.values:
                yield from atoms(v)
        else:
            yield e

    ats = list(atoms(lp.test))
    names_var = None
    for a in ats:
        pos = ast.UnaryOp(op=ast.Not(), operand=a)
        em = C.emptiness_test(pos)  # `while names` / `while len(names) > 0` == not empty(names)
        if isinstance(a, ast.Compare) and isinstance(a.left, ast.Call) and isinstance(a.left.func, ast.Name) and a.left.func.id == "len" and isinstance(a.comparators[0], ast.Constant):
            if (type(a.ops[0]), a.comparators[0].value) in ((ast.Gt, 0), (ast.NotEq, 0), (ast.GtE, 1)):
                names_var = dotted(a.left.args[0])
        elif isinstance(a, ast.Name):
            names_var = a.id
    extra = [unparse(a) for a in ats if not ((isinstance(a, ast.Name) and a.id == names_var) or (isinstance(a, ast.Compare) and names_var and names_var in unparse(a) and "len(" in unparse(a)))]
    brk = [x for st in lp.body for x in ast.walk(st) if isinstance(x, ast.Break)]
    ctx.check(names_var is not None and not extra and not brk, rule, f, "redis fetch pages until a page is empty", f"while <page not empty> ({unparse(lp.test)})",
              f"redis __fetch_message_name bounds its paging with `{unparse(lp.test)}`{' / break' if brk else ''} (extra condition {extra}): only the first page(s) of the queue are ever inspected, "
              "so when they are filled with messages for other topics (or not yet due) this consumer never reaches its own deliverable messages - the worker stalls with work waiting", node=lp,
              instance="redis fetch exhaustive")


def redis_poll_errors_contained(ctx: Ctx, rule: str) -> None:
    """The Redis consumer polls from a background task nobody awaits. Where a poll step is guarded by a try, the guard catches Exception (the client's errors derive from
    redis.exceptions.RedisError, NOT from the builtin ConnectionError / OSError family): a narrower guard lets one connection hiccup kill the task, after which the consumer
    silently never delivers again."""
    n = 0
    for name in ("__fetch_message_name", "__get_message_name", "__get_message_details", "consume_or_none", "backgroud_consume"):
        q = f"{C.REDIS_CONS}.{name}"
        if q not in ctx.prog.functions:
            continue
        f = ctx.func(q)
        for t in [x for x in C.own_nodes(f) if isinstance(x, ast.Try)]:
            guarded = [a for st in t.body for a in ast.walk(st) if isinstance(a, ast.Await)]
            if not guarded or not t.handlers:
                continue
            n += 1
            classes = [unparse(h.type) if h.type is not None else "<bare>" for h in t.handlers]
            broad = any(c in ("<bare>", "Exception", "BaseException") or "RedisError" in c for c in classes)
            ctx.check(broad, rule, f, f"guard {classes} around {unparse(guarded[0])[:40]} in {f.short()}", "poll errors of any kind are contained",
                      f"{f.short()} guards {unparse(guarded[0])[:50]} with `except {', '.join(classes)}`: redis-py's errors are not instances of these builtin classes, so a connection error "
                      "during a poll escapes, ends the background consume task (nobody awaits it) and the consumer stalls", node=t, instance=f"{f.short()}: poll guard {classes}")
    ctx.floor(rule, n, 2, "guarded poll steps in the Redis consumer")


def rabbit_delivery_order(ctx: Ctx, rule: str) -> None:
    """aiormq runs every delivery callback in its own task. on_new_message therefore reaches `queue.put` without suspending: a suspension point on the accepting path lets a
    later (smaller, faster) delivery overtake an earlier one on its way into the local queue."""
    f = ctx.func(f"{C.RABBIT_CONS}.on_new_message")
    g = ctx.icfg(f)
    aw = await_map(g)
    puts = [n for n in g.calls() if (n.callee or "") == "self.queue.put"]
    ctx.require(bool(puts), f"{f.qualname}: hand-out to the local queue not found")
    for p in puts:
        back = flow.reach_back(g, [p.id], flow.NORMAL_KINDS)
        susp = [g.nodes[i] for i in back if flow.is_suspension(g.nodes[i]) and g.nodes[i].id != aw.get(p.id, p).id]
        ctx.check(not susp, rule, f, "no suspension point between delivery and the local queue", "deliveries enter the local queue in arrival order",
                  f"rabbitmq on_new_message can be suspended ({[s_.label[:50] for s_ in susp][:2]}) before it hands the message to the local queue: each delivery runs in its own task, so a later "
                  "delivery that gets through faster is queued (and consumed) first", node=p, instance="rabbitmq: accept path not suspended")


def rabbit_start_fails_loudly(ctx: Ctx, rule: str) -> None:
    """A consumer that could not be (re)started must not look alive: when basic_consume is not confirmed, start() ends in an exception (the runner turns that into UNHEALTHY)."""
    f = ctx.func(f"{C.RABBIT_CONS}.start")
    g = ctx.cfg(f)
    tests = [t for t in g.nodes if t.kind == "test" and "ConsumeOk" in (t.label or "")]
    ctx.require(bool(tests), f"{f.qualname}: confirmation test not found")

    def env(text, node):
        if isinstance(node, ast.Call) and dotted(node.func) == "isinstance" and "ConsumeOk" in unparse(node):
            return False
        return None

    r = flow.reach_under(g, {"*c": env}, flow.NORMAL_KINDS + ("raise",), start=tests[0].id)
    raises = [n for n in g.nodes if n.kind == "raise" and n.id in r]
    ctx.check(bool(raises) and g.exit.id not in r, rule, f, "unconfirmed basic_consume -> start() raises", "a failed (re)start is an exception, not a normal return",
              "rabbitmq start() returns normally although basic_consume was not confirmed: the consumer receives nothing, consume() waits for ever and nothing marks the worker UNHEALTHY "
              "(the health endpoint keeps answering 200)", instance="rabbitmq start fails loudly")


def no_spawn_inside_wrapped(ctx: Ctx, rule: str) -> None:
    """A wrapped operation runs with IsInsideMiddleware=True in its context, and a task created there inherits that context for its whole life. consume() (the consumers' wrapped
    operation) therefore never creates - directly or through start() - a task whose body performs broker operations: their before_/after_ signals would be suppressed for good."""
    n = 0
    for q in (C.INMEM_CONS, C.REDIS_CONS, C.RABBIT_CONS):
        f = ctx.func(f"{q}.consume")
        g = ctx.icfg(f)
        for node in g.calls():
            if not (node.callee or "").endswith(("create_task", "ensure_future")) or not node.ast.args:
                continue
            n += 1
            inner = node.ast.args[0]
            if not isinstance(inner, ast.Call):
                continue
            for cal in ctx.res.callees(node.func, inner, record=False):
                gi = ctx.icfg(cal)
                ops = [m for m in gi.calls() if C.broker_op(ctx, m)]
                ctx.check(not ops, rule, f, f"{f.short()} spawns {cal.short()}: no broker operation inside", "tasks created inside a wrapped operation emit nothing themselves",
                          f"{f.short()} (a wrapped operation) creates a task running {cal.short()}, which calls {sorted({C.broker_op(ctx, m) for m in ops})}: the task inherits IsInsideMiddleware=True, "
                          "so these operations are performed for the rest of the consumer's life without their before_/after_ signals", node=node, instance=f"{f.short()}: spawn of {cal.name}")
    ctx.note(f"{rule}: {n} task creations reachable from the consumers' wrapped consume() inspected") if hasattr(ctx, "note") else None


def rabbit_consume_releases_get(ctx: Ctx, rule: str) -> None:
    """RabbitMQ consume() waits on a helper task `queue.get()`. When the wait is cancelled (timeout, stop) that task is cancelled before the cancellation leaves consume():
    a leaked getter swallows the next delivery - the oldest message is skipped, everything behind it overtakes."""
    f = ctx.func(f"{C.RABBIT_CONS}.consume")
    g = ctx.cfg(f)
    names = {t.id for st in ast.walk(f.node) if isinstance(st, ast.Assign) and isinstance(st.value, ast.Call) and (dotted(st.value.func) or "").endswith("create_task")
             and any(isinstance(c, ast.Call) and (dotted(c.func) or "").endswith("queue.get") for c in ast.walk(st.value)) for t in st.targets if isinstance(t, ast.Name)}
    ctx.require(bool(names), f"{f.qualname}: the getter task not found")
    waits = [n for n in g.nodes if n.kind == "await" and n.ast is not None and any(isinstance(c, ast.Call) and (dotted(c.func) or "") in ("asyncio.wait", "wait") for c in ast.walk(n.ast))]
    ctx.require(bool(waits), f"{f.qualname}: the wait on the getter task not found")
    cancels = [n.id for n in g.calls() if isinstance(n.ast.func, ast.Attribute) and n.ast.func.attr == "cancel" and dotted(n.ast.func.value) in names]
    ok = True
    swallowed = False
    for w in waits:
        for d, k in g.succ[w.id]:
            if k != "cancel":
                continue
            if d == g.cexit.id or not flow.must_pass(g, d, [g.cexit.id], cancels, flow.NORMAL_KINDS + ("raise", "cancel")):
                ok = False
            # ... and the cancellation goes on (re-raised): consume() does not carry on as if nothing had happened
            after = flow.reach(g, [d], flow.NORMAL_KINDS + ("raise",), include_start=True)
            if g.exit.id in after or any(x.kind == "await" and x.id in after for x in g.nodes):
                swallowed = True
    ctx.check(ok, rule, f, "cancelled wait cancels the getter task", "get_task.cancel() on every path from the cancelled wait to the exit",
              "rabbitmq consume(): a cancellation of the wait leaves consume() without cancelling the helper task that sits in queue.get(): the leaked getter takes the next delivery and drops it - "
              "that message is skipped and all later ones overtake it", node=waits[0], instance="rabbitmq: getter task released on cancel")
    ctx.check(not swallowed, rule, f, "a cancelled wait ends consume()", "the CancelledError is re-raised", "rabbitmq consume() swallows the cancellation of its wait and goes on waiting: a stop / timeout of the consumer "
              "does not end consume(), the worker cannot finish", node=waits[0], instance="rabbitmq: cancellation re-raised")


def redis_claimed_read_propagates(ctx: Ctx, rule: str) -> None:
    """Once a name is claimed (moved to `processing`) the consumer either hands the message out or lets the error out: an error swallowed while reading the claimed message's data
    leaves it parked in `processing` while the retry loop claims and delivers the messages behind it."""
    f = ctx.func(f"{C.REDIS_CONS}.__get_message_details")
    g = ctx.cfg(f)
    reads = [n for n in g.nodes if n.kind == "await" and n.ast is not None and any(isinstance(c, ast.Call) and (dotted(c.func) or "").endswith((".hget", ".hmget", ".hgetall")) for c in ast.walk(n.ast))]
    ctx.require(bool(reads), f"{f.qualname}: reads of the message hash not found")
    bad = []
    for r in reads:
        for d, k in g.succ[r.id]:
            if k == "exc" and d != g.xexit.id and g.exit.id in flow.reach(g, [d], flow.NORMAL_KINDS, include_start=True):
                bad.append(r)
    ctx.check(not bad, rule, f, "errors while reading a claimed message propagate", "no handler turns a failed read into a normal return",
              f"redis {f.short()} swallows an error of {unparse(bad[0].ast)[:50] if bad else ''} and returns normally: the message was already claimed (it sits in `processing`), the poll loop "
              "goes on and delivers the messages behind it first", node=bad[0] if bad else None, instance="redis: claimed read propagates")


def redis_fetch_reads_server(ctx: Ctx, rule: str) -> None:
    """Every name the Redis fetch hands out was read from the server by this very call. Names are not reserved by reading them (the LREM result of the take is not checked): a name
    remembered from an earlier page may have been taken - or acknowledged - by another consumer since, and is then held twice or comes back from the dead."""
    f = ctx.func(f"{C.REDIS_CONS}.__fetch_message_name")
    g = ctx.cfg(f)
    fetches = [n.id for n in g.nodes if n.kind == "await" and n.ast is not None and any(
        isinstance(c, ast.Call) and ((isinstance(c.func, ast.Name) and c.func.id in f.nested) or (dotted(c.func) or "").endswith((".lrange", ".zrange", ".zrangebyscore"))) for c in ast.walk(n.ast))]
    ctx.require(bool(fetches), f"{f.qualname}: the awaited page fetch not found")
    rets = [n for n in g.nodes if n.kind == "return" and isinstance(n.ast, ast.Return) and n.ast.value is not None and not C.is_const(n.ast.value, None)]
    bad = [r for r in rets if not flow.must_pass(g, g.entry.id, [r.id], fetches, flow.NORMAL_KINDS)]
    state = [x for x in C.own_nodes(f) if isinstance(x, ast.Attribute) and isinstance(x.ctx, ast.Store) and dotted(x.value) == "self"]
    state += [x for x in C.own_nodes(f) if isinstance(x, ast.Call) and isinstance(x.func, ast.Attribute) and x.func.attr in ("append", "extend", "setdefault", "update", "insert")
              and (dotted(x.func.value) or "").startswith("self.")]
    ctx.check(bool(rets) and not bad and not state, rule, f, "redis fetch: every name handed out was read in this call, nothing is remembered", "page fetch on every path to a returned name; no state kept on the consumer",
              f"redis __fetch_message_name {'returns ' + unparse(bad[0].ast.value)[:40] + ' without reading the queue' if bad else 'keeps ' + (unparse(state[0])[:50] if state else '?') + ' between calls'}: "
              "a remembered name is not reserved - another consumer may have taken (or acknowledged) it since, so the message is held by two consumers or re-appears after its ack",
              node=(bad or state or [None])[0], instance="redis fetch reads the server")


def rabbit_delivery_table(ctx: Ctx, rule: str) -> None:
    """Decision table of the RabbitMQ delivery callback (on_new_message), decided on its CFG with the guards' atoms fixed per row:
       no delivery tag -> nothing; paused or not consuming -> basic_reject only; no topic -> basic_reject only; foreign topic -> basic_reject only;
       overdue on a NORMAL consumer -> basic_nack only; otherwise -> remember the delivery tag, then hand the message to the local queue."""
    f = ctx.func(f"{C.RABBIT_CONS}.on_new_message")
    g = ctx.icfg(f)
    ev = {"reject": [n.id for n in g.calls() if (n.callee or "").endswith("basic_reject")],
          "nack": [n.id for n in g.calls() if (n.callee or "").endswith("basic_nack")],
          "tag": [n.id for n in g.nodes if n.kind == "store" and "_id_to_delivery_tag[" in (n.target or "")],
          "put": [n.id for n in g.calls() if (n.callee or "") == "self.queue.put"]}
    ctx.require(all(ev.values()), f"{f.qualname}: events of the delivery callback not found ({ {k: len(v) for k, v in ev.items()} })")

    def env(no_tag, paused, consuming, no_topic, foreign, overdue, normal):
        def fn(text, node):
            d = dotted(node)
            if d == "self.__is_paused":
                return paused
            if d == "self.__is_consuming":
                return consuming
            if d == "self.topics":
                return True if foreign is not None else None
            if d == "params.is_overdue":
                return overdue
            if isinstance(node, ast.Compare) and len(node.ops) == 1:
                l, op, r = unparse(node.left), node.ops[0], node.comparators[0]
                if l == "message.delivery_tag" and C.is_const(r, None) and isinstance(op, (ast.Is, ast.IsNot)):
                    return no_tag if isinstance(op, ast.Is) else not no_tag
                if l == "msg_topic" and C.is_const(r, None) and isinstance(op, (ast.Is, ast.IsNot)):
                    return no_topic if isinstance(op, ast.Is) else not no_topic
                if l == "msg_topic" and isinstance(op, (ast.NotIn, ast.In)) and unparse(r) == "self.topics" and foreign is not None:
                    return foreign if isinstance(op, ast.NotIn) else not foreign
                if "category" in l and isinstance(op, (ast.Eq, ast.NotEq)) and unparse(r).endswith("NORMAL"):
                    return normal if isinstance(op, ast.Eq) else not normal
            return None
        return {"*d": fn}

    rows = [
        ("no delivery tag", env(True, False, True, False, False, False, True), set()),
        ("paused", env(False, True, True, False, False, False, True), {"reject"}),
        ("not consuming", env(False, False, False, False, False, False, True), {"reject"}),
        ("no topic", env(False, False, True, True, False, False, True), {"reject"}),
        ("foreign topic", env(False, False, True, False, True, False, True), {"reject"}),
        ("overdue, NORMAL consumer", env(False, False, True, False, False, True, True), {"nack"}),
        ("overdue, other category", env(False, False, True, False, False, True, False), {"tag", "put"}),
        ("deliverable", env(False, False, True, False, False, False, True), {"tag", "put"}),
    ]
    for name, e, want in rows:
        r = flow.reach_under(g, e, flow.NORMAL_KINDS)
        got = {k for k, ids in ev.items() if set(ids) & r}
        always = all(g.exit.id not in flow.reach_under(g, e, flow.NORMAL_KINDS, blocked=frozenset(ev[k])) for k in want)
        ctx.check(got == want and always, rule, f, f"rabbitmq delivery [{name}] -> {sorted(want) or 'nothing'}", "exactly these effects, on every path",
                  f"rabbitmq on_new_message, case '{name}': effects {sorted(got) or 'none'}{'' if always else ' (not on every path)'} instead of {sorted(want) or 'none'} - a delivery that must be bounced is "
                  "accepted (or the reverse), so a paused / finished / foreign consumer takes messages, or a deliverable one is never handed out", instance=f"rabbitmq delivery[{name}]")
    # the tag is remembered before the message can be consumed (ack / nack / reject look it up)
    ok = all(flow.must_pass(g, g.entry.id, [p], ev["tag"], flow.NORMAL_KINDS) for p in ev["put"])
    ctx.check(ok, rule, f, "delivery tag stored before the hand-out", "_id_to_delivery_tag[msg_id] = tag dominates queue.put", "rabbitmq on_new_message hands a message out before its delivery tag is stored: "
              "a terminal operation on it finds no tag and silently does nothing (the message stays un-acked)", instance="rabbitmq delivery: tag before put")


def rabbit_lifecycle(ctx: Ctx, rule: str) -> None:
    """start / pause / unpause / finish of the RabbitMQ consumer: which queue is subscribed for which category, prefetch windows, the consumer tag, the drain."""
    st = ctx.func(f"{C.RABBIT_CONS}.start")
    cons = [c for c in ast.walk(st.node) if isinstance(c, ast.Call) and isinstance(c.func, ast.Attribute) and c.func.attr == "basic_consume"]
    ctx.require(len(cons) == 1, f"{st.qualname}: basic_consume not found")
    q = C.inline_locals(st, C.arg(cons[0], 0, "queue"), calls="all")
    ok = isinstance(q, ast.Call) and (dotted(q.func) or "").endswith("qnc") and unparse(C.arg(q, 0, "queue_name")) == "self.queue_name"
    flags = {}
    if ok:
        for nm in ("delayed", "dead"):
            v = C.kw(q, nm)
            v = C.inline_locals(st, v, calls="all") if v is not None else None
            flags[nm] = v
            want = nm.upper()
            ok = ok and isinstance(v, ast.Compare) and len(v.ops) == 1 and isinstance(v.ops[0], ast.Eq) and {unparse(v.left), unparse(v.comparators[0])} == {"self.category", f"MessageCategory.{want}"}
    ctx.check(ok, rule, st, "rabbitmq start subscribes the queue of the consumer's category", "qnc(queue_name, delayed=category == DELAYED, dead=category == DEAD)",
              f"rabbitmq start() subscribes {unparse(q)[:110] if q is not None else '?'}: the consumer reads another category's queue (a NORMAL consumer fed from the delayed queue receives messages before they are due; "
              "a DEAD reader drains live messages)", node=cons[0], instance="rabbitmq start: queue of the category")
    cb = C.arg(cons[0], 1, "consumer_callback")
    na = C.kw(cons[0], "no_ack")
    ctx.check(unparse(cb) == "self.on_new_message" and (na is None or C.is_const(na, False)), rule, st, "rabbitmq start: callback on_new_message, manual acknowledgement", "no_ack=False",
              f"rabbitmq start() consumes with callback {unparse(cb) if cb is not None else '?'}, no_ack={unparse(na) if na is not None else 'default'}: with automatic acknowledgement a message is gone the moment it is "
              "delivered - a crash or nack loses it", node=cons[0], instance="rabbitmq start: manual ack")
    g = ctx.cfg(st)
    qos = [n for n in g.calls() if (n.callee or "").endswith("basic_qos")]
    con = [n for n in g.calls() if (n.callee or "").endswith("basic_consume")]
    okq = len(qos) == 1 and unparse(C.kw(qos[0].ast, "prefetch_count") or ast.Constant(None)) == "self.max_unacked_messages" and qos[0].id in await_map(g) \
        and flow.must_pass(g, g.entry.id, [con[0].id], [qos[0].id], flow.NORMAL_KINDS)
    ctx.check(okq, rule, st, "rabbitmq start: prefetch window = max_unacked_messages, set before consuming", "basic_qos(prefetch_count=self.max_unacked_messages) then basic_consume",
              "rabbitmq start() does not limit the prefetch window to max_unacked_messages before it starts consuming: the server pushes the whole queue to one consumer", instance="rabbitmq start: qos")
    tags = [n for n in g.nodes if n.kind == "store" and n.target == "self._consumer_tag"]
    okt = len(tags) == 1 and unparse(tags[0].meta.get("value") or ast.Constant(None)).endswith(".consumer_tag") and flow.must_pass(g, g.entry.id, [g.exit.id], [tags[0].id], flow.NORMAL_KINDS)
    ctx.check(okt, rule, st, "rabbitmq start remembers the consumer tag", "self._consumer_tag = confirmation.consumer_tag on every normal path",
              "rabbitmq start() does not keep the consumer tag: finish() cannot cancel the subscription, the server keeps pushing deliveries to a finished consumer (they are bounced for ever)", instance="rabbitmq start: tag kept")
    flag = [n for n in g.nodes if n.kind == "store" and n.target == "self.__is_consuming" and C.is_const(n.meta.get("value"), True)]
    first_await = [n for n in g.nodes if n.kind == "await"]
    okf = len(flag) == 1 and all(flow.must_pass(g, g.entry.id, [a.id], [flag[0].id], flow.NORMAL_KINDS) for a in first_await)
    ctx.check(okf, rule, st, "rabbitmq start marks the consumer as consuming before it subscribes", "__is_consuming = True first", "rabbitmq start() does not set the consuming flag before basic_consume: the first "
              "deliveries arrive while the flag is still False and are bounced; if it is never set every delivery is bounced", instance="rabbitmq start: flag")
    clr = [n for n in g.calls() if (n.callee or "") == "self.server_side_cancel_event.clear"]
    ctx.check(bool(clr), rule, st, "rabbitmq start clears the server-side-cancel event", "event.clear()", "rabbitmq start() leaves the server-side-cancel event set: consume() restarts the consumer in a tight loop", instance="rabbitmq start: event cleared")
    for nm, want_flag, want_count in (("pause", True, "1"), ("unpause", False, "self.max_unacked_messages")):
        fn = ctx.func(f"{C.RABBIT_CONS}.{nm}")
        gg = ctx.cfg(fn)
        qs = [n for n in gg.calls() if (n.callee or "").endswith("basic_qos")]
        okp = len(qs) == 1 and qs[0].id in await_map(gg) and unparse(C.kw(qs[0].ast, "prefetch_count") or ast.Constant(None)) == want_count
        ctx.check(okp, rule, fn, f"rabbitmq {nm}: prefetch window {want_count}", f"basic_qos(prefetch_count={want_count}) awaited",
                  f"rabbitmq {nm}() does not set the prefetch window to {want_count}: " + ("a paused consumer keeps being fed" if want_flag else "an unpaused consumer stays throttled to one message (or unbounded)"),
                  instance=f"rabbitmq {nm}: qos")
    fin = ctx.func(f"{C.RABBIT_CONS}.finish")
    gg = ctx.cfg(fin)
    canc = [n for n in gg.calls() if (n.callee or "").endswith("basic_cancel")]
    okc = len(canc) == 1 and canc[0].id in await_map(gg) and unparse(canc[0].ast.args[0] if canc[0].ast.args else ast.Constant(None)) == "self._consumer_tag"

    def tag_env(is_none):
        def fn_(text, node):
            if isinstance(node, ast.Compare) and unparse(node.left) == "self._consumer_tag" and C.is_const(node.comparators[0], None):
                return is_none if isinstance(node.ops[0], ast.Is) else (not is_none if isinstance(node.ops[0], ast.IsNot) else None)
            return None
        return {"*t": fn_}

    r_some = flow.reach_under(gg, tag_env(False), flow.NORMAL_KINDS)
    r_none = flow.reach_under(gg, tag_env(True), flow.NORMAL_KINDS)
    okc = okc and canc[0].id in r_some and canc[0].id not in r_none
    ctx.check(okc, rule, fin, "rabbitmq finish cancels its subscription when it has one", "basic_cancel(self._consumer_tag) iff the tag is set",
              "rabbitmq finish() does not cancel the subscription of a started consumer (or cancels None): the server keeps delivering to a consumer nobody reads", instance="rabbitmq finish: cancel")
    stop = [n for n in gg.nodes if n.kind == "store" and n.target == "self.__is_consuming" and C.is_const(n.meta.get("value"), False)]
    ctx.check(bool(stop) and all(flow.must_pass(gg, gg.entry.id, [a.id], [s_.id for s_ in stop], flow.NORMAL_KINDS) for a in gg.nodes if a.kind == "await"), rule, fin,
              "rabbitmq finish stops accepting before anything else", "__is_consuming = False first", "rabbitmq finish() does not clear the consuming flag first: deliveries that arrive while it "
              "drains are accepted into a queue nobody reads any more", instance="rabbitmq finish: flag")
    loops = [t for t in gg.nodes if t.kind == "test" and t.ast is not None and ("qsize" in unparse(t.ast) or "empty" in unparse(t.ast))]
    okl = False
    if len(loops) == 1:
        t = loops[0].ast
        txt = unparse(t)
        okl = txt in ("self.queue.qsize() > 0", "self.queue.qsize() >= 1", "not self.queue.empty()", "self.queue.qsize() != 0", "self.queue.qsize()", "0 < self.queue.qsize()")
    if not loops:  # `for _ in range(self.queue.qsize()):` - the body never suspends, so the size taken once is the number of buffered messages
        okl = any(n.kind == "iter" and "qsize()" in (n.label or "") and "range(" in (n.label or "") for n in gg.nodes) and not any(a.kind == "await" and a.id in flow.reach(gg, [n.id for n in gg.nodes if n.kind == "iter"], flow.NORMAL_KINDS)
                                                                                                                    and any(n.id in flow.reach(gg, [a.id], flow.NORMAL_KINDS) for n in gg.nodes if n.kind == "iter") for a in gg.nodes)
    ctx.check(okl, rule, fin, "rabbitmq finish drains while messages are buffered", "while qsize() > 0", f"rabbitmq finish() drains under `{unparse(loops[0].ast) if loops else '?'}`: buffered deliveries are not "
              "given back (they stay un-acked for as long as the channel lives)", instance="rabbitmq finish: drain condition")


def _branch_env(pred):
    def fn(text, node):
        return pred(node)
    return {"*b": fn}


def rabbit_delivery_details(ctx: Ctx, rule: str) -> None:
    """Smaller obligations of the RabbitMQ consumer that the decision table takes for granted."""
    f = ctx.func(f"{C.RABBIT_CONS}.on_new_message")
    g = ctx.cfg(f)

    def none_test(subject_suffix, is_none):
        def pred(node):
            if isinstance(node, ast.Compare) and len(node.ops) == 1 and C.utext(f, node.left).endswith(subject_suffix) and C.is_const(node.comparators[0], None):
                if isinstance(node.ops[0], ast.Is):
                    return is_none
                if isinstance(node.ops[0], ast.IsNot):
                    return not is_none
            return None
        return _branch_env(pred)

    # headers are read only when present; topic / queue come from them
    reads = [n for n in g.nodes if n.kind in ("store", "call") and n.ast is not None and ".headers.get(" in C.utext(f, n.ast if n.kind == "call" else (n.meta.get("value") or ast.Constant(None)))]
    ctx.require(bool(reads), f"{f.qualname}: reads of the message headers not found")
    r_present = flow.reach_under(g, none_test(".headers", False), flow.NORMAL_KINDS)
    r_absent = flow.reach_under(g, none_test(".headers", True), flow.NORMAL_KINDS)
    ok = all(n.id in r_present and n.id not in r_absent for n in reads)
    ctx.check(ok, rule, f, "rabbitmq delivery: topic and queue are read from the headers when there are headers", "headers.get(...) iff headers is not None",
              "rabbitmq on_new_message reads the headers under the wrong condition: with headers present the topic stays None and every delivery is bounced (nothing is ever consumed); without headers it raises",
              instance="rabbitmq delivery: headers guard")
    # a missing message id is replaced - a present one is kept (the id the producer chose is the id acknowledged)
    ids = [n for n in g.nodes if n.kind == "store" and (n.target or "").endswith("message_id") and "uuid4" in unparse(n.meta.get("value") or ast.Constant(None))]
    if ids:
        r_none = flow.reach_under(g, none_test(".message_id", True), flow.NORMAL_KINDS)
        r_some = flow.reach_under(g, none_test(".message_id", False), flow.NORMAL_KINDS)
        ok = all(n.id in r_none and n.id not in r_some for n in ids)
        ctx.check(ok, rule, f, "rabbitmq delivery: only a missing message id is generated", "uuid iff message_id is None",
                  "rabbitmq on_new_message replaces the message id the producer chose by a fresh one: the consumer receives another id than was enqueued (results, logs and idempotency keys no longer match)",
                  instance="rabbitmq delivery: id kept")
    # priority default
    rk = [c for c in ast.walk(f.node) if isinstance(c, ast.Call) and isinstance(c.func, ast.Attribute) and c.func.attr == "ROUTING_KEY_CLASS"]
    ctx.require(len(rk) == 1, f"{f.qualname}: ROUTING_KEY_CLASS(...) not found")
    want = {"id_": "msg_id", "topic": "msg_topic", "queue": "msg_queue"}
    got = {k.arg: C.utext(f, k.value) for k in rk[0].keywords}
    okk = all(got.get(k) in (v, C.utext(f, ast.parse(v, mode="eval").body)) for k, v in want.items())
    pr = C.kw(rk[0], "priority")
    pr = C.stored_value(f, pr.id) if isinstance(pr, ast.Name) and C.stored_value(f, pr.id) is not None else pr
    t = C.negate_aware_ifexp(C.inline_locals(f, pr, calls="all") or pr) if pr is not None else None
    okp = t is not None and isinstance(t[0], ast.Compare) and unparse(t[0].left).endswith(".priority") and isinstance(t[0].ops[0], ast.Is) and C.is_const(t[0].comparators[0], None) \
        and "MEDIUM" in unparse(t[1]) and unparse(t[2]).endswith(".priority")
    pr0 = C.kw(rk[0], "priority")
    if not okp and isinstance(pr0, ast.Name):
        # `p = props.priority` followed by `if p is None: p = MEDIUM`
        defs = C.local_defs(f, pr0.id)
        dflt = [n for n in g.nodes if n.kind == "store" and n.target == pr0.id and "MEDIUM" in unparse(n.meta.get("value") or ast.Constant(None))]

        def p_none(v):
            def pred(node):
                if isinstance(node, ast.Compare) and len(node.ops) == 1 and isinstance(node.left, ast.Name) and node.left.id == pr0.id and C.is_const(node.comparators[0], None):
                    return v if isinstance(node.ops[0], ast.Is) else (not v) if isinstance(node.ops[0], ast.IsNot) else None
                return None
            return _branch_env(pred)

        okp = len(defs) == 2 and any(unparse(d).endswith(".priority") for d in defs) and len(dflt) == 1 \
            and dflt[0].id in flow.reach_under(g, p_none(True), flow.NORMAL_KINDS) and dflt[0].id not in flow.reach_under(g, p_none(False), flow.NORMAL_KINDS)
    got = {k: v.replace("message.header.properties.message_id", "msg_id") if k == "id_" else v for k, v in got.items()}
    okk = all(got.get(k) in (v, C.utext(f, ast.parse(v, mode="eval").body).replace("message.header.properties.message_id", "msg_id")) for k, v in want.items())
    ctx.check(okk and okp, rule, f, "rabbitmq delivery: key = (message id, header topic, header queue, AMQP priority or MEDIUM)", "priority if present else MEDIUM",
              f"rabbitmq on_new_message builds the routing key from {got}: the consumer receives another id / topic / queue / priority than was enqueued (a None priority fails RoutingKey validation: the delivery is never handed out)",
              node=rk[0], instance="rabbitmq delivery: key fields")
    # finish(): a drained message whose tag is known is rejected
    fin = ctx.func(f"{C.RABBIT_CONS}.finish")
    gf = ctx.cfg(fin)
    rej = [n for n in gf.calls() if (n.callee or "").endswith("basic_reject")]
    if not ctx.check(len(rej) == 1, rule, fin, "rabbitmq finish gives buffered deliveries back one by one", "one basic_reject(tag) per drained message",
                     f"rabbitmq finish() does not reject each buffered delivery by its own tag ({len(rej)} basic_reject call sites): a batched or different give-back also touches deliveries this consumer does not hold "
                     "(tags are per channel, the channel is shared by all consumers of the broker)", instance="rabbitmq finish: per-message reject"):
        rej = []

    def tag_known(known):
        def pred(node):
            if isinstance(node, ast.Compare) and len(node.ops) == 1 and isinstance(node.left, ast.Name) and C.is_const(node.comparators[0], None) and unparse(rej[0].ast.args[0]) == node.left.id:
                return (not known) if isinstance(node.ops[0], ast.Is) else known if isinstance(node.ops[0], ast.IsNot) else None
            return None
        return _branch_env(pred)

    ok = bool(rej) and rej[0].id in flow.reach_under(gf, tag_known(True), flow.NORMAL_KINDS) and rej[0].id not in flow.reach_under(gf, tag_known(False), flow.NORMAL_KINDS)
    ctx.check(ok or not rej, rule, fin, "rabbitmq finish rejects every drained message whose delivery tag is known", "basic_reject(tag) iff tag is not None",
              "rabbitmq finish() rejects under the wrong condition: buffered deliveries with a known tag are not given back (they stay un-acked while the channel lives), and None is rejected instead", instance="rabbitmq finish: reject known tags")
    # consume(): the fast path takes from a non-empty buffer only; after the wait, unfinished helper tasks are cancelled; a server-side cancel restarts the subscription
    cf = ctx.func(f"{C.RABBIT_CONS}.consume")
    gc = ctx.cfg(cf)
    gn = [n for n in gc.calls() if (n.callee or "") == "self.queue.get_nowait"]
    if gn:
        def nonempty(v):
            def pred(node):
                if isinstance(node, ast.Call) and dotted(node.func) == "self.queue.empty":
                    return not v
                if isinstance(node, ast.Compare) and "qsize" in unparse(node.left):
                    return None
                return None
            return _branch_env(pred)
        ok = all(n.id in flow.reach_under(gc, nonempty(True), flow.NORMAL_KINDS) and n.id not in flow.reach_under(gc, nonempty(False), flow.NORMAL_KINDS) for n in gn)
        ctx.check(ok, rule, cf, "rabbitmq consume: fast path only on a non-empty buffer", "get_nowait() iff not queue.empty()",
                  "rabbitmq consume() calls get_nowait() on an empty buffer (QueueEmpty ends the consume loop: the worker stops consuming this queue) or skips a buffered message", instance="rabbitmq consume: fast path guard")
    waits = [n for n in gc.nodes if n.kind == "await" and n.ast is not None and any(isinstance(c, ast.Call) and (dotted(c.func) or "") in ("asyncio.wait", "wait") for c in ast.walk(n.ast))]
    spawn = [n.id for n in gc.calls() if (n.callee or "").endswith("create_task") and "queue.get" in unparse(n.ast)]
    cancels = [n.id for n in gc.calls() if isinstance(n.ast.func, ast.Attribute) and n.ast.func.attr == "cancel"]
    # `for p in pending: p.cancel()` cancels whatever is pending: the loop head stands for the cancellation (zero iterations = nothing was pending)
    for lp in [x for x in ast.walk(cf.node) if isinstance(x, ast.For) and any(isinstance(c, ast.Call) and isinstance(c.func, ast.Attribute) and c.func.attr == "cancel" for b in x.body for c in ast.walk(b))]:
        cancels += [n.id for n in gc.nodes if n.kind == "iter" and n.ast is lp.iter or (n.kind == "iter" and getattr(n.ast, "lineno", -1) == lp.lineno)]
    if waits and spawn:
        nxt = [d for d, k in gc.succ[waits[0].id] if k in flow.NORMAL_KINDS]
        # going round the loop again without having cancelled what was left pending leaks the getter (it swallows the next delivery)
        leak = any(s in flow.reach(gc, nxt, flow.NORMAL_KINDS, blocked=frozenset(cancels), include_start=True) for s in spawn)
        ctx.check(not leak, rule, cf, "rabbitmq consume: pending helper tasks are cancelled before the next round", "cancel on every path from the wait back to the next getter",
                  "rabbitmq consume() can start a new getter task while the previous one is still pending (after a server-side cancel): the old getter takes the next delivery and nobody reads its result - that message is lost to the consumer",
                  instance="rabbitmq consume: pending cancelled")
    restarts = [n for n in gc.calls() if (n.callee or "") == "self.start"]
    ok = bool(restarts) and all(n.id in await_map(gc) for n in restarts)

    def cancelled_and_consuming(node):
        d = dotted(node)
        if isinstance(node, ast.Call) and dotted(node.func) == "self.server_side_cancel_event.is_set":
            return True
        if d == "self.__is_consuming":
            return True
        if isinstance(node, ast.Call) and (dotted(node.func) or "").endswith((".done",)):
            return False
        return None

    ok = ok and any(n.id in flow.reach_under(gc, _branch_env(cancelled_and_consuming), flow.NORMAL_KINDS) for n in restarts)
    ctx.check(ok, rule, cf, "rabbitmq consume: a server-side cancel of a running consumer re-subscribes", "await self.start() when the event is set and the consumer is consuming",
              "rabbitmq consume() does not re-subscribe after the server cancelled the consumer: consume() waits for ever, the worker silently stops receiving this queue", instance="rabbitmq consume: restart")


def rabbit_enqueue_contract(ctx: Ctx, rule: str) -> None:
    """RabbitMQ enqueue: a per-message TTL exactly when there is a due time still ahead, the delayed queue exactly when there is a TTL, mandatory publish, an unconfirmed publish
    is an error; and the broker's channel accessor refuses a missing / closed channel."""
    f = ctx.func(f"{C.RABBIT_BROKER}.enqueue")
    g = ctx.cfg(f)
    pubs = [c for c in ast.walk(f.node) if isinstance(c, ast.Call) and isinstance(c.func, ast.Attribute) and c.func.attr == "basic_publish"]
    ctx.require(len(pubs) == 1, f"{f.qualname}: basic_publish not found")
    pub = pubs[0]
    props = C.kw(pub, "properties")
    exp = C.kw(props, "expiration") if isinstance(props, ast.Call) else None
    ctx.require(isinstance(exp, ast.Name), f"{f.qualname}: expiration local not found")
    sets = [n for n in g.nodes if n.kind == "store" and n.target == exp.id and not C.is_const(n.meta.get("value"), None)]
    ctx.require(bool(sets), f"{f.qualname}: store of the TTL not found")
    fn_of = [f]
    g_ttl = g
    if len(sets) == 1 and isinstance(sets[0].meta.get("value"), ast.Call):
        # `exp = self.__expiration(params)`: the decision lives in a helper - its non-None returns are the TTL
        hs = [h for h in ctx.res.callees(f, sets[0].meta["value"], record=False) if h.cls is f.cls]
        if len(hs) == 1:
            g_ttl = ctx.cfg(hs[0])
            fn_of[0] = hs[0]
            sets = [n for n in g_ttl.nodes if n.kind == "return" and isinstance(n.ast, ast.Return) and n.ast.value is not None and not C.is_const(n.ast.value, None)]
            ctx.require(bool(sets), f"{hs[0].qualname}: no TTL returned")

    def env(has_due, ahead):
        def pred(node):
            if isinstance(node, ast.Compare) and len(node.ops) == 1 and C.is_const(node.comparators[0], None) and "wait_until" in C.utext(fn_of[0], node.left, calls="all"):
                return (not has_due) if isinstance(node.ops[0], ast.Is) else has_due if isinstance(node.ops[0], ast.IsNot) else None
            if isinstance(node, ast.Compare) and len(node.ops) == 1 and isinstance(node.left, ast.Name) and C.is_const(node.comparators[0], 0):
                op = node.ops[0]
                return ahead if isinstance(op, ast.Gt) else (not ahead) if isinstance(op, ast.LtE) else None
            return None
        return _branch_env(pred)

    want = {(True, True): True, (True, False): False, (False, True): False}
    for (has_due, ahead), expect in want.items():
        r = flow.reach_under(g_ttl, env(has_due, ahead), flow.NORMAL_KINDS)
        got = any(s_.id in r for s_ in sets)
        ctx.check(got == expect, rule, f, f"rabbitmq enqueue: TTL set [due time given={has_due}, still ahead={ahead}] = {expect}", "a TTL exactly for a due time that lies ahead",
                  f"rabbitmq enqueue with due time given={has_due}, still ahead={ahead}: TTL {'set' if got else 'not set'} - " +
                  ("a message that must wait is published straight to the work queue (delivered before its time)" if expect else "a message without a pending due time is parked in the delayed queue (with a zero / negative TTL RabbitMQ refuses or expires it at once)"),
                  instance=f"rabbitmq enqueue: ttl[{has_due},{ahead}]")
    rk = C.kw(pub, "routing_key")
    ok = isinstance(rk, ast.Call) and (dotted(rk.func) or "").endswith("qnc") and unparse(C.arg(rk, 0, "queue_name")) == "key.queue" and unparse(C.kw(rk, "delayed") or ast.Constant(None)) in (f"{exp.id} is not None", f"not {exp.id} is None")
    ctx.check(ok, rule, f, "rabbitmq enqueue: delayed queue iff a TTL was set", "qnc(key.queue, delayed=exp is not None)", f"rabbitmq enqueue publishes to {unparse(rk)[:80] if rk is not None else '?'}: a message with a TTL in the "
              "work queue expires INTO the dead-letter queue (lost for the consumer), a message without TTL in the delayed queue never leaves it", node=pub, instance="rabbitmq enqueue: routing")
    ctx.check(C.is_const(C.kw(pub, "mandatory"), True), rule, f, "rabbitmq enqueue: mandatory publish", "mandatory=True", "rabbitmq enqueue publishes without mandatory=True: a message for a queue that does not exist is "
              "dropped by the server and the publish still counts as successful", node=pub, instance="rabbitmq enqueue: mandatory")
    tests = [t for t in g.nodes if t.kind == "test" and t.ast is not None and "Basic.Ack" in unparse(t.ast)]
    raises = [n for n in g.nodes if n.kind == "raise"]

    def acked(v):
        def pred(node):
            if isinstance(node, ast.Call) and dotted(node.func) == "isinstance" and "Ack" in unparse(node):
                return v
            return None
        return _branch_env(pred)

    ok = bool(tests) and bool(raises) and any(r_.id in flow.reach_under(g, acked(False), flow.NORMAL_KINDS + ("raise",)) for r_ in raises) \
        and not any(r_.id in flow.reach_under(g, acked(True), flow.NORMAL_KINDS + ("raise",)) for r_ in raises)
    ctx.check(ok, rule, f, "rabbitmq enqueue: an unconfirmed publish raises", "not Basic.Ack -> ConnectionError", "rabbitmq enqueue returns normally although the server did not confirm the publish (or raises on a "
              "confirmed one): the producer believes a message is enqueued that the server never took", instance="rabbitmq enqueue: confirmation")
    ch = ctx.func(f"{C.RABBIT_BROKER}._channel")
    gch = ctx.cfg(ch)

    def closed(v):
        def pred(node):
            d = dotted(node)
            if d is not None and d.endswith(".is_closed"):
                return v
            if isinstance(node, ast.Compare) and C.is_const(node.comparators[0], None) and "channel" in unparse(node.left):
                return False if isinstance(node.ops[0], ast.Is) else True
            return None
        return _branch_env(pred)

    r_closed = flow.reach_under(gch, closed(True), flow.NORMAL_KINDS + ("raise",))
    r_open = flow.reach_under(gch, closed(False), flow.NORMAL_KINDS + ("raise",))
    ok = gch.exit.id not in r_closed and gch.exit.id in r_open
    ctx.check(ok, rule, ch, "rabbitmq: a closed channel is an error, an open one is handed out", "raise iff channel is None or closed", "RabbitMessageBroker._channel hands out a closed channel (or refuses an open one): "
              "operations on a dead channel fail in aiormq in ways the worker does not turn into UNHEALTHY", instance="rabbitmq channel accessor")
    # the dead-letter topology: delayed -> work queue -> dead
    qd = ctx.func(f"{C.RABBIT_BROKER}.queue_declare")
    decls = [c for c in ast.walk(qd.node) if isinstance(c, ast.Call) and isinstance(c.func, ast.Attribute) and c.func.attr == "queue_declare"]
    topo = {}
    for d in decls:
        name = C.utext(qd, C.arg(d, 0, "queue"))
        args = C.kw(d, "arguments")
        dl = None
        pri = None
        if isinstance(args, ast.Dict):
            for k, v in zip(args.keys, args.values):
                if C.is_const(k, "x-dead-letter-routing-key"):
                    dl = C.utext(qd, v)
                if C.is_const(k, "x-max-priority"):
                    pri = unparse(v)
        topo[name] = (dl, pri, unparse(C.kw(d, "durable") or ast.Constant(None)))
    want_t = {"queue_name": ("f'{queue_name}:dead'", "9", "True"), "f'{queue_name}:delayed'": ("queue_name", "9", "True"), "f'{queue_name}:dead'": (None, "9", "True")}
    ctx.check(topo == want_t, rule, qd, "rabbitmq topology: delayed -> work -> dead, ten priorities, durable", "three declarations with these dead-letter routes", f"rabbitmq queue_declare declares {topo}: expected {want_t} - "
              "an expired delayed message must fall into the work queue and a nacked one into the dead queue; fewer priorities than the library's range reorder messages", instance="rabbitmq topology")


def _none_env(f, subject: str, is_none: bool):
    def pred(node):
        if isinstance(node, ast.Compare) and len(node.ops) == 1 and C.is_const(node.comparators[0], None) and C.utext(f, node.left) == subject:
            if isinstance(node.ops[0], ast.Is):
                return is_none
            if isinstance(node.ops[0], ast.IsNot):
                return not is_none
        return None
    return _branch_env(pred)


def redis_defaults_only_when_missing(ctx: Ctx, rule: str) -> None:
    """The Redis broker substitutes defaults only for what is missing: given parameters are stored as given, stored parameters and the stored reject target are used when present."""
    n = 0
    for op in ("enqueue", "requeue"):
        f = ctx.func(f"{C.REDIS_BROKER}.{op}")
        g = ctx.cfg(f)
        dflt = [s_ for s_ in g.nodes if s_.kind == "store" and s_.target == "params" and isinstance(s_.meta.get("value"), ast.Call) and unparse(s_.meta["value"]).endswith("PARAMETERS_CLASS()")]
        for s_ in dflt:
            n += 1
            ok = s_.id in flow.reach_under(g, _none_env(f, "params", True), flow.NORMAL_KINDS) and s_.id not in flow.reach_under(g, _none_env(f, "params", False), flow.NORMAL_KINDS)
            ctx.check(ok, rule, f, f"redis {op}: default parameters only when none were given", "params = PARAMETERS_CLASS() iff params is None",
                      f"redis {op} replaces the parameters it was given by default ones: the message loses its timeout, retries, delay, ttl and result settings (what the consumer receives is not what was enqueued)",
                      node=s_, instance=f"redis {op}: default params")
    f = ctx.func(f"{C.REDIS_BROKER}.reject")
    g = ctx.cfg(f)
    stores = [s_ for s_ in g.nodes if s_.kind == "store" and s_.target in ("params", "reject_to")]
    subject_of: dict[str, str] = {}
    for s_ in stores:  # what is decoded names the subject of the presence test (`raw_params[0]`, whatever the local is called)
        v = s_.meta.get("value")
        for c in ast.walk(v) if v is not None else []:
            if isinstance(c, ast.Call) and isinstance(c.func, ast.Attribute) and c.func.attr == "decode" and not c.args and isinstance(c.func.value, ast.Subscript):
                subject_of[s_.target] = unparse(c.func.value)
    for s_ in stores:
        v = s_.meta.get("value")
        txt = unparse(v) if v is not None else ""
        subj = subject_of.get(s_.target, "raw_params[0]" if s_.target == "params" else "raw_params[1]")
        if ".decode(" in txt or txt.endswith(".decode()"):
            want_none = False  # the stored value is used when there is one
        elif s_.target == "params":
            want_none = True
        else:
            continue  # `reject_to = 'n'` default-then-override: the override is what is checked
        n += 1
        ok = s_.id in flow.reach_under(g, _none_env(f, subj, want_none), flow.NORMAL_KINDS) and s_.id not in flow.reach_under(g, _none_env(f, subj, not want_none), flow.NORMAL_KINDS)
        ctx.check(ok, rule, f, f"redis reject: {s_.target} from the stored value when present", f"{txt[:40]} iff {subj} is {'None' if want_none else 'not None'}",
                  f"redis reject sets {s_.target} = {txt[:50]} under the wrong condition: the stored parameters / reject target of the message are ignored (a rejected delayed or dead message goes to the normal queue) or None is decoded "
                  "(reject fails, the message stays in `processing`)", node=s_, instance=f"redis reject: {s_.target} <- {txt[:30]}")
    ctx.floor(rule, n, 4, "default / stored-value selections in the Redis broker")
    m = ctx.func(f"{C.REDIS_BROKER}.maintenance")
    gm = ctx.cfg(m)
    dec = [x for x in gm.calls() if (x.callee or "").endswith("PARAMETERS_CLASS.decode")]
    zr = [x for x in gm.calls() if (x.callee or "").endswith(".zrem")]
    if dec and zr:
        ok = all(x.id in flow.reach_under(gm, _none_env(m, "raw_params", False), flow.NORMAL_KINDS) and x.id not in flow.reach_under(gm, _none_env(m, "raw_params", True), flow.NORMAL_KINDS) for x in dec) \
            and all(x.id in flow.reach_under(gm, _none_env(m, "raw_params", True), flow.NORMAL_KINDS) and x.id not in flow.reach_under(gm, _none_env(m, "raw_params", False), flow.NORMAL_KINDS) for x in zr)
        ctx.check(ok, rule, m, "redis maintenance: entries without data are dropped, entries with data are examined", "zrem iff no parameters; decode iff parameters",
                  "redis maintenance treats present data as missing (held messages of dead workers are removed from `processing` instead of being returned) or decodes None (maintenance dies on the first orphan, "
                  "nothing is ever returned)", instance="redis maintenance: data guard")


def _specialise_template(fn_node: ast.AST, flags: dict[str, bool]) -> str | None:
    """Partial evaluation of a small pure name constructor: boolean parameters fixed, `if` / conditional expressions on them folded, string locals propagated; returns the
    template of the returned text (`{expr}` for every remaining hole) or None when the function is not of that shape."""
    import copy

    def truth(e):
        if isinstance(e, ast.Constant):
            return bool(e.value)
        if isinstance(e, ast.Name) and e.id in flags:
            return flags[e.id]
        if isinstance(e, ast.UnaryOp) and isinstance(e.op, ast.Not):
            t = truth(e.operand)
            return None if t is None else not t
        if isinstance(e, ast.BoolOp):
            vals = [truth(v) for v in e.values]
            if isinstance(e.op, ast.And):
                return False if any(v is False for v in vals) else (True if all(v is True for v in vals) else None)
            return True if any(v is True for v in vals) else (False if all(v is False for v in vals) else None)
        return None

    def render(e, env):
        if isinstance(e, ast.Constant) and isinstance(e.value, str):
            return e.value
        if isinstance(e, ast.IfExp):
            t = truth(e.test)
            return None if t is None else render(e.body if t else e.orelse, env)
        if isinstance(e, ast.Name) and e.id in env:
            return env[e.id]
        if isinstance(e, ast.JoinedStr):
            out = ""
            for v in e.values:
                if isinstance(v, ast.Constant):
                    out += str(v.value)
                else:
                    inner = render(v.value, env)
                    out += inner if inner is not None and isinstance(v.value, (ast.IfExp, ast.Name, ast.JoinedStr, ast.Constant)) and (not isinstance(v.value, ast.Name) or v.value.id in env) else "{" + unparse(v.value) + "}"
            return out
        if isinstance(e, ast.BinOp) and isinstance(e.op, ast.Add):
            a, b = render(e.left, env), render(e.right, env)
            return a + b if a is not None and b is not None else None
        return None

    def run(stmts, env):
        for st in stmts:
            if isinstance(st, ast.Expr) and isinstance(st.value, ast.Constant):
                continue
            if isinstance(st, ast.If):
                t = truth(st.test)
                if t is None:
                    return "?"
                r = run(st.body if t else st.orelse, env)
                if r is not None:
                    return r
                continue
            if isinstance(st, (ast.Assign, ast.AnnAssign)) and getattr(st, "value", None) is not None:
                tg = st.targets[0] if isinstance(st, ast.Assign) else st.target
                if isinstance(tg, ast.Name):
                    v = render(st.value, env)
                    if v is None:
                        return "?"
                    env[tg.id] = v
                    continue
                return "?"
            if isinstance(st, ast.AnnAssign):
                continue
            if isinstance(st, ast.Return):
                return render(st.value, env) or "?"
            return "?"
        return None

    r = run(copy.deepcopy(fn_node).body, {})
    return None if r in (None, "?") else r


def redis_name_constructors(ctx: Ctx, rule: str) -> None:
    """The Redis key space is built by two pure constructors; every rule about places trusts them. Decided by partial evaluation of their bodies:
    qnc -> q:{queue}:{priority}:dead | :d | :n (dead wins over delayed), mnc -> m:{queue}:{priority}:{topic}:{id} | {topic}:{id}; all flags default to False."""
    q = ctx.func("repid.connections.redis.utils.qnc")
    m = ctx.func("repid.connections.redis.utils.mnc")
    qp = [a.arg for a in q.node.args.args + q.node.args.kwonlyargs]
    ctx.require(len(qp) >= 4, f"{q.qualname}: parameters not recognised")
    qn, pr, dl, dd = qp[0], qp[1], qp[2], qp[3]
    rows = [({dl: False, dd: False}, f"q:{{{qn}}}:{{{pr}}}:n"), ({dl: True, dd: False}, f"q:{{{qn}}}:{{{pr}}}:d"), ({dl: False, dd: True}, f"q:{{{qn}}}:{{{pr}}}:dead"), ({dl: True, dd: True}, f"q:{{{qn}}}:{{{pr}}}:dead")]
    for flags, want in rows:
        got = _specialise_template(q.node, flags)
        ctx.check(got == want, rule, q, f"redis qnc{tuple(flags.values())} = {want}", "queue key of that place", f"redis qnc with delayed={flags[dl]}, dead={flags[dd]} builds `{got}` instead of `{want}`: "
                  "waiting, delayed and dead-lettered messages of a queue end up in (or are read from) another place's list", instance=f"redis qnc[{flags[dl]},{flags[dd]}]")
    kwd = {a.arg: d for a, d in zip(q.node.args.kwonlyargs, q.node.args.kw_defaults)}
    ctx.check(all(C.is_const(kwd.get(x), False) for x in (dl, dd) if x in kwd), rule, q, "redis qnc: flags default to False", "a plain qnc(queue, priority) is the waiting list",
              f"redis qnc defaults: { {k: unparse(v) if v is not None else None for k, v in kwd.items()} } - every call that names no flag reads or writes the delayed / dead list", instance="redis qnc defaults")
    mp = [a.arg for a in m.node.args.args + m.node.args.kwonlyargs]
    k, sh = mp[0], mp[1]
    for flags, want in (({sh: False}, f"m:{{{k}.queue}}:{{{k}.priority}}:{{{k}.topic}}:{{{k}.id_}}"), ({sh: True}, f"{{{k}.topic}}:{{{k}.id_}}")):
        got = _specialise_template(m.node, flags)
        ctx.check(got == want, rule, m, f"redis mnc(short={flags[sh]}) = {want}", "message key / list member of that message", f"redis mnc with short={flags[sh]} builds `{got}` instead of `{want}`: "
                  "the hash a message's data is stored under and the member its queue lists hold no longer belong together", instance=f"redis mnc[{flags[sh]}]")
    kwd = {a.arg: d for a, d in zip(m.node.args.kwonlyargs, m.node.args.kw_defaults)}
    ctx.check(C.is_const(kwd.get(sh), False) if sh in kwd else True, rule, m, "redis mnc: short defaults to False", "mnc(key) is the hash key", "redis mnc defaults to the short form: message data is stored under the list member's name",
              instance="redis mnc default")


def redis_claim_flow(ctx: Ctx, rule: str) -> None:
    """The Redis take, guard by guard: nothing is claimed without a fetched name; a fetched name is removed from the list it was read from (LREM for lists, ZREM for the delayed
    set) and marked in one transaction; a claimed name always proceeds to the read of its data; only complete data is handed out."""
    f = ctx.func(f"{C.REDIS_CONS}.__get_message_name")
    g = ctx.cfg(f)
    lrem = [n.id for n in g.calls() if (n.callee or "").endswith(".lrem")]
    zrem = [n.id for n in g.calls() if (n.callee or "").endswith(".zrem")]
    execs = [n.id for n in g.calls() if (n.callee or "").endswith(".execute")]
    if not ctx.check(bool(lrem) and bool(zrem) and bool(execs), rule, f, "redis take: LREM / ZREM of the fetched name and an executed transaction", "the claim removes exactly the name it fetched",
                     f"redis __get_message_name has no {'LREM' if not lrem else 'ZREM' if not zrem else 'execute()'} of the fetched name: the claim does not remove the message it read from its queue "
                     "(a positional pop removes whatever is at the end - another message - while the fetched one stays queued and marked in flight)", instance="redis take: claim commands"):
        return
    names = {C.utext(f, n.ast.args[-1]) for n in g.calls() if n.id in lrem + zrem and n.ast.args}
    subj = next(iter(names)) if len(names) == 1 else "msg_short_name"

    def env(found, delayed):
        none = _none_env(f, subj, not found)["*b"]

        def pred(node):
            r = none("", node)
            if r is not None:
                return r
            if isinstance(node, ast.Name) and node.id == "delayed":
                return delayed
            return None
        return _branch_env(pred)

    for found, delayed, want in ((False, False, set()), (False, True, set()), (True, False, {"lrem", "exec"}), (True, True, {"zrem", "exec"})):
        r = flow.reach_under(g, env(found, delayed), flow.NORMAL_KINDS)
        got = {k for k, ids in (("lrem", lrem), ("zrem", zrem), ("exec", execs)) if set(ids) & r}
        ctx.check(got == want, rule, f, f"redis take [name fetched={found}, delayed set={delayed}] -> {sorted(want) or 'nothing'}", "exactly these commands",
                  f"redis __get_message_name with a name {'fetched' if found else 'NOT fetched'} from the {'delayed set' if delayed else 'list'} issues {sorted(got) or 'nothing'} instead of {sorted(want) or 'nothing'}: "
                  "a message is marked in flight without leaving its queue (two consumers get it) or leaves it without being claimed", instance=f"redis take[{found},{delayed}]")
    rets = [n for n in g.nodes if n.kind == "return" and isinstance(n.ast, ast.Return) and n.ast.value is not None and not C.is_const(n.ast.value, None)]
    ok = bool(rets) and all(C.utext(f, r_.ast.value) == subj for r_ in rets) and all(flow.must_pass(g, g.entry.id, [r_.id], execs, flow.NORMAL_KINDS) for r_ in rets)
    ctx.check(ok, rule, f, "redis take returns the claimed name, after the transaction", "return <name> dominated by execute()", "redis __get_message_name returns a name it has not claimed (or something else than the claimed name)",
              instance="redis take: returns claimed name")
    for reader in ("__get_message_normal", "__get_message_delayed", "__get_message_dead"):
        rf = ctx.func(f"{C.REDIS_CONS}.{reader}")
        rg = ctx.cfg(rf)
        det = [n.id for n in rg.calls() if (n.callee or "").endswith("__get_message_details")]
        takes = [n for n in rg.calls() if (n.callee or "").endswith("__get_message_name")]
        ctx.require(bool(det) and bool(takes), f"{rf.qualname}: take / details calls not found")
        tgt = {s_.target for s_ in rg.nodes if s_.kind == "store" and isinstance(s_.meta.get("value"), ast.Await) and "__get_message_name" in unparse(s_.meta["value"])}
        sname = next(iter(tgt)) if len(tgt) == 1 else "msg_short_name"
        r_none = flow.reach_under(rg, _none_env(rf, sname, True), flow.NORMAL_KINDS)
        r_some = flow.reach_under(rg, _none_env(rf, sname, False), flow.NORMAL_KINDS)
        ok = not (set(det) & r_none) and bool(set(det) & r_some) and rg.exit.id in r_none
        # with a name in hand the only way out is through the read of its data
        ok = ok and all(rg.exit.id not in flow.reach_under(rg, _none_env(rf, sname, False), flow.NORMAL_KINDS, start=t.id, blocked=frozenset(det)) for t in takes)
        ctx.check(ok, rule, rf, f"redis {reader}: no name -> None, a claimed name -> its data is read", "details iff a name was claimed",
                  f"redis {reader} gives up on a name it has just claimed (the message stays in `processing`, the messages behind it are delivered first) or reads data for no name", instance=f"redis {reader}: claim then read")
    d = ctx.func(f"{C.REDIS_CONS}.__get_message_details")
    dg = ctx.cfg(d)
    full = [n for n in dg.nodes if n.kind == "return" and isinstance(n.ast, ast.Return) and isinstance(n.ast.value, ast.Tuple)]
    ctx.require(bool(full), f"{d.qualname}: the return of the message not found")

    field_of: dict[str, str] = {}
    for s_ in dg.nodes:  # the locals that hold the two fields, whatever they are called
        v = s_.meta.get("value") if s_.kind == "store" else None
        if isinstance(v, ast.Await) and isinstance(v.value, ast.Call) and (dotted(v.value.func) or "").endswith(".hget") and len(v.value.args) >= 2 and isinstance(v.value.args[1], ast.Constant):
            field_of[s_.target] = v.value.args[1].value
    ctx.require(set(field_of.values()) >= {"payload", "parameters"}, f"{d.qualname}: reads of payload / parameters not found")

    def data_env(p_none, q_none):
        def pred(node):
            if isinstance(node, ast.Compare) and len(node.ops) == 1 and isinstance(node.left, ast.Name) and C.is_const(node.comparators[0], None) and node.left.id in field_of:
                v = p_none if field_of[node.left.id] == "payload" else q_none
                return v if isinstance(node.ops[0], ast.Is) else (not v) if isinstance(node.ops[0], ast.IsNot) else None
            return None
        return _branch_env(pred)

    for p_none, q_none, want in ((False, False, True), (True, False, False), (False, True, False), (True, True, False)):
        r = flow.reach_under(dg, data_env(p_none, q_none), flow.NORMAL_KINDS)
        got = any(x.id in r for x in full)
        ctx.check(got == want, rule, d, f"redis details [payload missing={p_none}, parameters missing={q_none}] -> {'message' if want else 'None'}", "a message only with both fields",
                  f"redis __get_message_details with payload missing={p_none}, parameters missing={q_none} {'hands out a message' if got else 'returns None'}: incomplete data is decoded (the poll task dies) or a complete message is dropped",
                  instance=f"redis details[{p_none},{q_none}]")


def redis_lifecycle(ctx: Ctx, rule: str) -> None:
    """start / pause / unpause / poll loop of the Redis consumer: the poll task exists, pausing takes the lock exactly when it is free, unpausing frees it exactly when it is held,
    the loop waits at the gate exactly while paused, a fetched message is handed over and nothing else is."""
    st = ctx.func(f"{C.REDIS_CONS}.start")
    sp = [c for c in ast.walk(st.node) if isinstance(c, ast.Call) and (dotted(c.func) or "").endswith("create_task") and c.args and isinstance(c.args[0], ast.Call)
          and (dotted(c.args[0].func) or "").endswith("backgroud_consume")]
    stored = [a for a in ast.walk(st.node) if isinstance(a, ast.Assign) and sp and a.value is sp[0] and any(dotted(t) == "self.consume_task" for t in a.targets)]
    ctx.check(len(sp) == 1 and bool(stored), rule, st, "redis start: the poll task is created and kept", "self.consume_task = create_task(self.backgroud_consume())",
              "redis start() does not create (or does not keep) the background poll task: nothing ever moves messages into the consumer's queue, consume() waits for ever; an unreferenced task cannot be cancelled by finish()",
              instance="redis start: poll task")

    def locked_env(v):
        def pred(node):
            if isinstance(node, ast.Call) and dotted(node.func) == "self.pause_lock.locked":
                return v
            return None
        return _branch_env(pred)

    for nm, op, when_locked in (("pause", "acquire", False), ("unpause", "release", True)):
        fn = ctx.func(f"{C.REDIS_CONS}.{nm}")
        g = ctx.cfg(fn)
        ops = [n.id for n in g.calls() if (n.callee or "") == f"self.pause_lock.{op}"]
        ok = bool(ops) and bool(set(ops) & flow.reach_under(g, locked_env(when_locked), flow.NORMAL_KINDS)) and not (set(ops) & flow.reach_under(g, locked_env(not when_locked), flow.NORMAL_KINDS))
        ctx.check(ok, rule, fn, f"redis {nm}: {op} exactly when the lock is {'held' if when_locked else 'free'}", f"{op}() iff {'' if when_locked else 'not '}locked()",
                  f"redis {nm}() does {op}() under the wrong condition: " + ("pausing a paused consumer blocks the runner for ever / a free lock is never taken (the poll loop is not paused: more messages are taken than there are slots)"
                                                                           if nm == "pause" else "the lock is never released: the consumer stays paused for ever (or release() of a free lock raises)"),
                  instance=f"redis {nm}: lock protocol")
    bg = ctx.func(f"{C.REDIS_CONS}.backgroud_consume")
    g = ctx.cfg(bg)
    gate = [n.id for n in g.calls() if (n.callee or "") == "self.pause_lock.acquire"]
    takes = [n.id for n in g.calls() if (n.callee or "").endswith("consume_or_none")]
    puts = [n.id for n in g.calls() if (n.callee or "") == "self.queue.put"]
    if not ctx.check(bool(gate) and bool(takes) and bool(puts), rule, bg, "redis poll loop: pause gate, take, hand-over", "all three present",
                     f"the redis poll loop has no {'pause gate (pause_lock.acquire)' if not gate else 'take' if not takes else 'hand-over to the queue'}: "
                     "a paused consumer keeps taking messages / nothing is ever delivered", instance="redis poll loop: parts"):
        return
    ok = bool(set(gate) & flow.reach_under(g, locked_env(True), flow.NORMAL_KINDS)) and not (set(gate) & flow.reach_under(g, locked_env(False), flow.NORMAL_KINDS)) \
        and all(t in flow.reach_under(g, locked_env(False), flow.NORMAL_KINDS) for t in takes) \
        and not any(t in flow.reach_under(g, locked_env(True), flow.NORMAL_KINDS, blocked=frozenset(gate)) for t in takes)
    ctx.check(ok, rule, bg, "redis poll loop: waits at the gate exactly while paused", "acquire/release iff locked(), before every take", "the redis poll loop passes the pause gate under the wrong condition: a paused consumer keeps "
              "taking messages (more in flight than tasks_limit), or an unpaused one blocks itself on its own lock (it never polls again)", instance="redis poll loop: gate")
    loops = [t for t in g.nodes if t.kind == "test" and isinstance(t.ast, ast.Constant)]
    ctx.check(all(t.ast.value is True for t in loops), rule, bg, "redis poll loop runs until cancelled", "while True", "the redis poll loop is not entered (`while False`): nothing is ever delivered", instance="redis poll loop: forever")

    def got_env(v):
        def pred(node):
            if isinstance(node, ast.Compare) and len(node.ops) == 1 and isinstance(node.left, ast.Name) and node.left.id == "msg" and C.is_const(node.comparators[0], None):
                return (not v) if isinstance(node.ops[0], ast.Is) else v if isinstance(node.ops[0], ast.IsNot) else None
            return None
        return _branch_env(pred)

    ok = bool(set(puts) & flow.reach_under(g, got_env(True), flow.NORMAL_KINDS)) and not (set(puts) & flow.reach_under(g, got_env(False), flow.NORMAL_KINDS))
    ctx.check(ok, rule, bg, "redis poll loop: a fetched message is handed over, None is not", "queue.put(msg) iff msg is not None", "the redis poll loop hands None to the consumer's queue (consume() unpacks None: the runner's loop dies) "
              "or drops the message it has just claimed", instance="redis poll loop: hand-over")
    cf = ctx.func(f"{C.REDIS_CONS}.consume")
    rets = C.own_returns(cf)
    ok = len(rets) == 1 and C.utext(cf, rets[0].value, calls="all", awaits=True) == "await self.queue.get()"
    ctx.check(ok, rule, cf, "redis consume() returns the next message of its queue", "return await self.queue.get()", "redis consume() does not return what the poll loop handed over", instance="redis consume: returns queue.get()")
    co = ctx.func(f"{C.REDIS_CONS}.consume_or_none")
    gc = ctx.cfg(co)
    nacks = [n.id for n in gc.calls() if C.broker_op(ctx, n, ("nack",))]
    full = [n.id for n in gc.nodes if n.kind == "return" and isinstance(n.ast, ast.Return) and n.ast.value is not None and not C.is_const(n.ast.value, None)]
    ok = not (set(nacks + full) & flow.reach_under(gc, got_env(False), flow.NORMAL_KINDS)) and bool(set(full) & flow.reach_under(gc, got_env(True), flow.NORMAL_KINDS))
    ctx.check(ok, rule, co, "redis consume_or_none: nothing fetched -> next priority, no message touched", "no nack / return of a message when msg is None",
              "redis consume_or_none unpacks / dead-letters / returns a message it did not get (the poll task dies on the first empty priority) or never returns the one it got", instance="redis consume_or_none: empty priority")


def inmem_reject_table(ctx: Ctx, rule: str) -> None:
    """In-memory reject, by the category of the consumer that holds the message: DEAD -> front of the dead list; DELAYED with a due time -> its delayed bucket; otherwise -> the
    waiting queue. The due time is looked up exactly for DELAYED holders."""
    f = ctx.func(f"{C.INMEM_BROKER}.reject")
    g = ctx.cfg(f)
    ev = {"dead": [n.id for n in g.calls() if ".dead." in (n.callee or "") and (n.callee or "").endswith("insert")],
          "delayed": [n.id for n in g.calls() if isinstance(n.ast.func, ast.Attribute) and n.ast.func.attr in ("insert", "append") and ".delayed" in unparse(n.ast.func.value)],
          "waiting": [n.id for n in g.calls() if (n.callee or "").endswith("simple.put_nowait")]}
    if not ctx.check(all(ev.values()), rule, f, "in-memory reject has a way back to each place", "dead / delayed / waiting insertions", f"in-memory reject lacks an insertion into { [k for k, v in ev.items() if not v] }: "
                     "a message taken from that category cannot be returned to it", instance="in-memory reject: places"):
        return
    due_names = {s_.target for s_ in g.nodes if s_.kind == "store" and "wait_until" in unparse(s_.meta.get("value") or ast.Constant(None))}
    v = None
    for nm in due_names:
        v = C.stored_value(f, nm)
    t = C.negate_aware_ifexp(v) if v is not None else None
    ok = t is not None and isinstance(t[0], ast.Compare) and isinstance(t[0].ops[0], ast.Eq) and {unparse(t[0].left), unparse(t[0].comparators[0])} >= {"MessageCategory.DELAYED"} \
        and "wait_until" in unparse(t[1]) and C.is_const(t[2], None)
    ctx.check(ok, rule, f, "in-memory reject: the due time is looked up for DELAYED holders only", "wait_until(...) if category == DELAYED else None",
              f"in-memory reject computes the due time as `{unparse(v) if v is not None else '?'}`: a message rejected by a NORMAL consumer is parked in the delayed map, one rejected by a DELAYED reader lands in the waiting "
              "queue and is delivered before its time", instance="in-memory reject: due time by category")

    def env(dead, has_due):
        def pred(node):
            if isinstance(node, ast.Compare) and len(node.ops) == 1 and isinstance(node.ops[0], (ast.Eq, ast.NotEq)) and "MessageCategory.DEAD" in (unparse(node.left), unparse(node.comparators[0])):
                return dead if isinstance(node.ops[0], ast.Eq) else not dead
            if isinstance(node, ast.Compare) and len(node.ops) == 1 and isinstance(node.left, ast.Name) and node.left.id in due_names and C.is_const(node.comparators[0], None):
                return (not has_due) if isinstance(node.ops[0], ast.Is) else has_due
            return None
        return _branch_env(pred)

    for name, e, want in (("DEAD holder", env(True, False), {"dead"}), ("due time ahead", env(False, True), {"delayed"}), ("no due time", env(False, False), {"waiting"})):
        r = flow.reach_under(g, e, flow.NORMAL_KINDS)
        got = {k for k, ids in ev.items() if set(ids) & r}
        ctx.check(got == want, rule, f, f"in-memory reject [{name}] -> {sorted(want)}", "exactly this place", f"in-memory reject, case '{name}': the message goes to {sorted(got) or 'no place'} instead of {sorted(want)}",
                  instance=f"in-memory reject[{name}]")
