"""Place-event vocabulary of the three brokers and the rules built on it (shared by C01, C03, C14, C15)."""
from __future__ import annotations

import ast

from .. import flow
from ..cfg import Node
from ..engine import Ctx
from ..model import FuncInfo, dotted, unparse
from . import common as C
from .shared import _mentions, await_map, effectively_awaited

# ----------------------------------------------------------------------------- in-memory place events
PLACE_OF_FIELD = {"simple": "waiting", "delayed": "delayed", "dead": "dead", "processing": "held"}
ADD_METHODS = {"put_nowait", "append", "add", "insert", "extend", "put"}
REMOVE_METHODS = {"get_nowait", "pop", "remove", "discard", "popitem", "clear", "get"}


def inmem_event(n: Node):
    """('+'|'-', place, argument text) for a call that adds to / removes from a DummyQueue field."""
    if n.kind != "call" or not isinstance(n.ast, ast.Call):
        return None
    fe = n.ast.func
    if isinstance(fe, ast.Attribute) and isinstance(fe.value, ast.Name) and fe.value.id not in ("self", "q"):
        fe = C.resolve_base(n.func, fe)  # a local alias of a place (`bucket = self._queue.delayed[t]`)
    ch = C.attr_chain(fe)
    meth = ch[-1]
    fields = [x for x in ch[:-1] if x in PLACE_OF_FIELD]
    if not fields:
        return None
    place = PLACE_OF_FIELD[fields[-1]]
    if meth in ADD_METHODS:
        # delayed.setdefault(k, []).append(msg) / delayed[k].append(msg)
        return ("+", place, unparse(n.ast.args[-1]) if n.ast.args else "")
    if meth == "setdefault":
        return None
    if meth in REMOVE_METHODS:
        return ("-", place, unparse(n.ast.args[0]) if n.ast.args else "")
    return None


def same_class_policy(cls_q: str, exclude: tuple[str, ...] = ()):
    mod = cls_q.rsplit(".", 1)[0]

    def policy(n: Node, cal: FuncInfo) -> bool:
        if cal.cls is not None:
            return cal.cls.qualname == cls_q and cal.name not in exclude
        return cal.module.name == mod and cal.parent is None and not cal.is_async  # small module-level helpers of the same file
    return policy


def op_traces(ctx: Ctx, f: FuncInfo, policy, extra_symbol=None, kinds=flow.NORMAL_KINDS):
    g = flow.inline(f, ctx.res, ctx.depth, policy)

    def sym(n: Node):
        ev = inmem_event(n)
        if ev is not None:
            return ev
        if flow.is_suspension(n):
            return "await"
        if extra_symbol is not None:
            return extra_symbol(n)
        return None

    return g, flow.traces(g, sym, kinds=kinds, loop_bound=ctx.loop_bound)


def squeeze(t: tuple) -> tuple:
    """Drop awaits that are not between a removal and the next addition; keep place events and awaits 'in hand'."""
    out = []
    in_hand = 0
    for s in t:
        if isinstance(s, tuple) and s[0] == "-":
            in_hand += 1
            out.append(s[:2])
        elif isinstance(s, tuple) and s[0] == "+":
            in_hand = max(0, in_hand - 1)
            out.append(s[:2])
        elif s == "await":
            if in_hand > 0:
                out.append("AWAIT-IN-HAND")
        elif isinstance(s, str) and s.startswith("$"):
            out.append(s)
        else:
            out.append(s)
    return tuple(out)


INMEM_ALLOWED = {
    "enqueue": [(("+", "waiting"),), (("+", "delayed"),)],
    "ack": [(), (("-", "held"),)],
    "nack": [(), (("-", "held"), ("+", "dead"))],
    "reject": [(), (("-", "held"), ("+", "waiting")), (("-", "held"), ("+", "delayed")), (("-", "held"), ("+", "dead"))],
    "requeue": [(("+", "waiting"),), (("+", "delayed"),), (("-", "held"), ("+", "waiting")), (("-", "held"), ("+", "delayed"))],
}


def inmem_transfer_atomic(ctx: Ctx, ops=("enqueue", "ack", "nack", "reject", "requeue"), rule_t="R-C01-TRANSFER", rule_a="R-C01-ATOMIC") -> None:
    pol = same_class_policy(C.INMEM_BROKER)
    for op in ops:
        f = ctx.func(f"{C.INMEM_BROKER}.{op}")
        g, trs = op_traces(ctx, f, pol)
        shapes = set()
        for t in trs:
            if t[-1] != "$exit":
                continue
            sq = squeeze(t)
            # a search loop over the held set may run several iterations: collapse repeated (-held, +x) of a single op is not allowed,
            # but the loop bound enumerates the 'found in 2nd iteration' path with the same events
            shapes.add(tuple(x for x in sq if x != "$exit"))
        bad_atomic = sorted(s for s in shapes if "AWAIT-IN-HAND" in s) if op != "ack" else []  # ack: the token is consumed by the removal
        ctx.check(not bad_atomic, rule_a, f, f"in-memory {op}: no suspension point while the message is in no place",
                  f"{len(shapes)} distinct place-event sequence(s), none suspended between removal and re-insertion",
                  f"in-memory {op} can be suspended (and therefore cancelled) after the message was removed from one place and before it was put into the next: "
                  f"{[list(map(str, s)) for s in bad_atomic[:2]]} - a cancellation there loses the message", instance=f"in-memory {op}: atomic")
        plain = {tuple(x for x in s if x != "AWAIT-IN-HAND") for s in shapes}
        allowed = set(INMEM_ALLOWED[op])
        bad = sorted(p for p in plain if p not in allowed)
        ctx.check(not bad and bool(plain), rule_t, f, f"in-memory {op}: place transfers", f"{sorted(map(str, plain))}",
                  f"in-memory {op} moves the message by {[list(map(str, b)) for b in bad[:3]]}, allowed are {[list(map(str, a)) for a in allowed]}: a message would be lost or duplicated",
                  instance=f"in-memory {op}: transfer")
        if op in ("ack", "nack", "reject", "requeue"):
            ctx.check(any(("-", "held") in p for p in plain), rule_t, f, f"in-memory {op}: releases the held message", "-held present",
                      f"in-memory {op} never removes the message from the processing set (it stays in flight forever)", instance=f"in-memory {op}: releases")
        # identity: what is removed is what is added (nack / reject), found by id
        if op in ("nack", "reject"):
            evs = {inmem_event(n) for n in g.calls()} - {None}
            rem = {e[2] for e in evs if e[0] == "-" and e[1] == "held"}
            add = {e[2] for e in evs if e[0] == "+"}
            if add != rem and len(add) == 1 and len(rem) == 1:
                # removed inside a helper that returns the removed message, added by the caller under another name
                a_name = next(iter(add))
                for d_ in C.local_defs(f, a_name):
                    if isinstance(d_, ast.Call):
                        for cal in ctx.res.callees(f, d_, record=False):
                            if any(isinstance(r_.value, ast.Name) and r_.value.id in rem for r_ in C.own_returns(cal)):
                                add = set(rem)
            ctx.check(len(rem) == 1 and add == rem, rule_t, f, f"in-memory {op}: the removed message itself is re-inserted", f"{sorted(rem)}",
                      f"in-memory {op} removes {sorted(rem)} but inserts {sorted(add)}: the message re-inserted is not (only) the held message itself (payload/parameters/schedule may differ)",
                      instance=f"in-memory {op}: same message")
        if op in ("ack", "nack", "reject", "requeue"):
            tests = [t for t in g.nodes if t.kind == "test" and isinstance(t.ast, ast.Compare) and _mentions(t.ast, "id_")]
            ok = any(isinstance(t.ast.ops[0], ast.Eq) and {unparse(t.ast.left).split(".", 1)[-1], unparse(t.ast.comparators[0]).split(".", 1)[-1]} <= {"key.id_", "id_"}
                     and {unparse(t.ast.left), unparse(t.ast.comparators[0])} & {"msg.key.id_", "message.key.id_", "held.key.id_", "candidate.key.id_", "m.key.id_"} or
                     (isinstance(t.ast.ops[0], ast.Eq) and unparse(t.ast.left).endswith(".key.id_") != unparse(t.ast.comparators[0]).endswith(".key.id_")) for t in tests)
            ctx.check(ok, rule_t, f, f"in-memory {op}: held message selected by id", "msg.key.id_ == key.id_", f"in-memory {op} selects the held message by {[t.label for t in tests]}",
                      instance=f"in-memory {op}: selection")
        if op in ("enqueue", "requeue"):
            mk = [c for c in g.calls() if dotted(c.ast.func) == "Message"]
            margs = [C.arg(mk[0].ast, i, nm) for i, nm in enumerate(("key", "payload", "parameters"))] if len(mk) == 1 else []
            ok = len(mk) == 1 and all(a is not None for a in margs) and [unparse(a) for a in margs[:2]] == ["key", "payload"] and unparse(margs[2]).startswith("params")
            ctx.check(ok, rule_t, f, f"in-memory {op}: stores (key, payload, params) as given", "Message(key, payload, params or default)",
                      f"in-memory {op} stores {unparse(mk[0].ast) if mk else 'nothing'}", instance=f"in-memory {op}: stored triple")


def inmem_consume_rules(ctx: Ctx, rule_t="R-C01-TRANSFER", rule_a="R-C14-TAKE") -> None:
    f = ctx.func(f"{C.INMEM_CONS}.consume")
    done = set()
    g = None
    for reader in ("__consume_normal", "__consume_delayed", "__consume_dead"):
        # the reader is fixed per consumer (category dispatch table): analyse one reader at a time;
        # the delayed->waiting refresh is a synchronous copy-then-delete unit checked by R-C05-CMP
        pol = lambda n, cal, reader=reader: cal.cls is not None and cal.cls.qualname == C.INMEM_CONS and cal.name == reader
        g, trs = op_traces(ctx, f, pol)
        done |= {t for t in trs if t[-1] == "$exit"}
    ctx.floor(rule_t, len(done), 3, "distinct event sequences of in-memory consume")
    bad_atomic = set()
    bad_shape = set()
    for t in done:
        sq = squeeze(t)
        ev = [x for x in sq if x != "$exit"]
        if "AWAIT-IN-HAND" in ev:
            bad_atomic.add(tuple(map(str, ev)))
        plain = [x for x in ev if x != "AWAIT-IN-HAND"]
        # split into transfers: each removal must be followed by exactly one addition
        i = 0
        ok = True
        last_add = None
        while i < len(plain):
            x = plain[i]
            if x[0] == "-":
                if i + 1 >= len(plain) or plain[i + 1][0] != "+":
                    ok = False
                    break
                src, dst = x[1], plain[i + 1][1]
                if (src, dst) not in {("waiting", "held"), ("waiting", "dead"), ("waiting", "waiting"), ("delayed", "held"), ("dead", "held")}:
                    ok = False
                last_add = dst
                i += 2
            else:
                ok = False
                i += 1
        if not ok or last_add != "held":
            bad_shape.add(tuple(map(str, plain)))
    ctx.check(not bad_atomic, rule_a, f, "in-memory consume: no suspension point between taking a message and marking it held",
              f"{len(done)} event sequences", f"in-memory consume() can be suspended after a message was taken out of its queue and before it is in the processing set: "
              f"{sorted(bad_atomic)[:2]} - a cancellation there leaves the message in no place, and another consumer could not see it either", instance="in-memory consume: atomic take")
    ctx.check(not bad_shape, rule_t, f, "in-memory consume: every removal is followed by one insertion; the returned message ends up held",
              "waiting->held | waiting->dead (overdue) | waiting->waiting (foreign) | delayed->held | dead->held",
              f"in-memory consume() has event sequences {sorted(bad_shape)[:2]} that lose or duplicate a message", instance="in-memory consume: transfers")
    # what is added to processing is what is returned
    g = ctx.cfg(f)
    adds = [n for n in g.calls() if inmem_event(n) and inmem_event(n)[:2] == ("+", "held")]
    rets = [n for n in g.nodes if n.kind == "return" and n.ast.value is not None]
    ok = len(adds) == 1 and len(rets) == 1 and unparse(adds[0].ast.args[0]) == "msg" and unparse(rets[0].ast.value) == "(msg.key, msg.payload, msg.parameters)"
    ctx.check(ok, rule_t, f, "in-memory consume: the held message is the one returned", "processing.add(msg); return its triple", "in-memory consume() marks another message held than it returns",
              instance="in-memory consume: held == returned")
    # __consume_delayed: removes exactly the entry it returns
    d = ctx.func(f"{C.INMEM_CONS}.__consume_delayed")
    gd = ctx.cfg(d)
    rets = [n for n in gd.nodes if n.kind == "return" and not C.is_const(n.ast.value, None)]
    ctx.floor(rule_t, len(rets), 1, "returns of __consume_delayed")
    for r in rets:
        v = r.ast.value
        pops = [c for x in C.expand_locals(d, v) for c in ast.walk(x) if isinstance(c, ast.Call) and isinstance(c.func, ast.Attribute) and c.func.attr == "pop"]
        ok = len(pops) == 1
        ctx.check(ok, rule_t, d, f"__consume_delayed: `{unparse(v)[:60]}` removes exactly what it returns", "one pop per returned message",
                  f"__consume_delayed returns `{unparse(v)[:80]}`, which does not remove exactly the returned message from the delayed map", node=r, instance=f"consume_delayed: {unparse(v)[:40]}")
    def len_env(one: bool):
        def fn(text, node):
            if isinstance(node, ast.Compare) and isinstance(node.ops[0], ast.Eq) and isinstance(node.left, ast.Call) and dotted(node.left.func) == "len" and C.is_const(node.comparators[0], 1):
                return one
            if isinstance(node, ast.Compare) and isinstance(node.ops[0], ast.Gt) and isinstance(node.left, ast.Call) and dotted(node.left.func) == "len" and C.is_const(node.comparators[0], 1):
                return not one
            if dotted(node) == "self._queue.delayed":
                return True
            return None
        return {"*len": fn}

    def pop_kind(nn):
        fe = nn.ast.func
        if isinstance(fe, ast.Attribute) and isinstance(fe.value, ast.Name) and fe.value.id != "self":
            fe = C.resolve_base(d, fe)
        ch = C.attr_chain(fe)
        if ch[-1] != "pop" or "delayed" not in ch:
            return None
        return "bucket-deleted" if ch[-2] == "delayed" else "first-message-popped"

    for one in (True, False):
        r_ = flow.reach_under(gd, len_env(one), flow.NORMAL_KINDS)
        kinds_ = sorted({pop_kind(nn) for nn in gd.calls() if nn.id in r_ and pop_kind(nn)})
        want_k = ["bucket-deleted"] if one else ["first-message-popped"]
        ctx.check(kinds_ == want_k, rule_t, d, f"__consume_delayed: bucket with {'exactly one message' if one else 'several messages'}", "bucket deleted" if one else "first message popped, bucket kept",
                  f"__consume_delayed with {'one message' if one else 'several messages'} in the earliest bucket does {kinds_ or 'nothing'}: "
                  + ("the emptied bucket must be deleted" if one else "deleting the whole bucket makes the other messages due at the same instant vanish (and popping nothing hands the same message out again)"),
                  instance=f"consume_delayed: bucket[{'1' if one else 'n'}]")
    sm = [n for n in ast.walk(d.node) if isinstance(n, ast.Call) and dotted(n.func) == "min"]
    ctx.check(len(sm) == 1 and C.utext(d, sm[0].args[0]) == "self._queue.delayed", "R-C15-INMEM", d, "__consume_delayed takes the soonest due time", "min(delayed)", "__consume_delayed does not take the earliest bucket",
              instance="consume_delayed: soonest")
    # finish: everything held goes back
    fin = ctx.func(f"{C.INMEM_CONS}.finish")
    gf, trs = op_traces(ctx, fin, same_class_policy(C.INMEM_CONS))
    shapes = {tuple(x for x in squeeze(t) if x != "$exit") for t in trs if t[-1] == "$exit"}
    ok = all("AWAIT-IN-HAND" not in s for s in shapes) and all(all(s[i] == ("-", "held") and s[i + 1] == ("+", "waiting") for i in range(0, len(s), 2)) and len(s) % 2 == 0 for s in shapes)
    ctx.check(ok and any(s for s in shapes), "R-C03-FINISH", fin, "in-memory finish: every held message goes back to the waiting queue, atomically", f"{sorted(map(str, shapes))[:3]}",
              f"in-memory finish() has event sequences {sorted(map(str, shapes))[:3]}", instance="in-memory finish: transfers")


# ----------------------------------------------------------------------------- redis
REDIS_MUTATING = {"lpush", "rpush", "lrem", "zadd", "zrem", "hset", "hsetnx", "hdel", "delete", "lpop", "rpop", "set", "expire", "zpopmin", "rpoplpush", "lmove"}


def redis_cmd(n: Node):
    """(receiver, command, key text) for a redis command call (pipe.<cmd>(...) / self.conn.<cmd>(...))."""
    if n.kind != "call" or not isinstance(n.ast.func, ast.Attribute):
        return None
    recv = dotted(n.ast.func.value)
    cmd = n.ast.func.attr
    if recv in ("pipe", "self.conn", "self.broker.conn") and cmd in REDIS_MUTATING | {"execute", "pipeline"}:
        key = unparse(n.ast.args[0]) if n.ast.args else ""
        return (recv, cmd, key)
    return None


def redis_place(cmd: str, key: str) -> tuple[str, str] | None:
    """('+'|'-', place) of a mutating command given its key expression text."""
    if "processing_queue" in key:
        place = "held"
    elif key.startswith("qnc(") and "dead=True" in key:
        place = "dead"
    elif key.startswith("qnc(") and "delayed=True" in key:
        place = "delayed"
    elif key.startswith("qnc("):
        place = "waiting"
    elif key.startswith("mnc(") or key.startswith("full_message_name_from_short("):
        place = "data"
    elif key in ("full_queue_name", "queue_name", "source_queue", "full_name"):
        place = "source"
    else:
        place = "?" + key
    if cmd in ("lpush", "rpush", "zadd", "hset", "hsetnx", "set"):
        return ("+", place)
    if cmd in ("lrem", "zrem", "hdel", "delete", "lpop", "rpop", "zpopmin"):
        return ("-", place)
    return None


REDIS_ALLOWED = {
    "enqueue": [{("+", "data"), ("+", "waiting")}, {("+", "data"), ("+", "delayed")}],
    "ack": [{("-", "data"), ("-", "held")}],
    "nack": [{("+", "dead"), ("-", "held"), ("-", "data*")}],
    "reject": [{("+", "dead"), ("-", "held"), ("-", "data*")}, {("+", "waiting"), ("-", "held"), ("-", "data*")}, {("+", "delayed"), ("-", "held"), ("-", "data*")}],
    "requeue": [{("+", "data"), ("+", "waiting"), ("-", "held"), ("-", "data*")}, {("+", "data"), ("+", "delayed"), ("-", "held"), ("-", "data*")}],
    "take": [{("-", "source"), ("+", "held"), ("+", "data*")}],
    "orphan": [{("-", "held"), ("+", "dead")}],
}


def redis_queue_names(ctx: Ctx, rule: str) -> None:
    """A Redis list / sorted set is named after queue AND priority (`q:<queue>:<priority>:<marker>`); the readers of the consumer ask for one priority
    at a time. So every name built for a message must carry that message's priority - a name built with the default priority files HIGH / LOW
    messages where no reader of their priority ever looks (they are lost to every consumer)."""
    n = 0
    qn = ctx.func("repid.connections.redis.utils.qnc")
    prio_param = [p.arg for p in qn.params()][1]
    # one named exception: the orphan clean-up in __get_message_details has only the short name of a message whose data is gone
    exempt = {f"{C.REDIS_CONS}.__get_message_details"}
    for fn in ctx.prog.iter_functions():
        if not fn.module.name.startswith("repid.connections.redis") or fn.qualname == qn.qualname:
            continue
        for c in ast.walk(fn.node):
            if not (isinstance(c, ast.Call) and any(cal.qualname == qn.qualname for cal in ctx.res.callees(fn, c, record=False))):
                continue
            n += 1
            pr = C.arg(c, 1, prio_param)
            ptxt = C.utext(fn, pr) if pr is not None else None
            params = [p.arg for p in fn.params()]
            if fn.qualname in exempt and pr is None:
                ctx.ok(rule, f"{fn.short()}: {unparse(c)[:50]}", "orphan clean-up (message data already gone): named exception")
                continue
            ok = ptxt is not None and (ptxt.endswith(".priority") or ptxt in params or ptxt.endswith(".priority.value") or ptxt.endswith(".value"))
            ctx.check(ok, rule, fn, f"{unparse(c)[:60]} in {fn.short()}", f"named after the message's / the reader's priority ({ptxt})",
                      f"{fn.short()} builds the Redis queue name {unparse(c)[:80]} without the priority of the message (default priority used): messages of every other priority "
                      "are filed where no reader of their priority looks - they can never be consumed again", node=c, instance=f"{fn.short()}: {unparse(c)[:50]}")
    ctx.floor(rule, n, 8, "Redis queue names built")


def redis_txn_rules(ctx: Ctx, ops=("enqueue", "ack", "nack", "reject", "requeue"), rule_t="R-C01-TRANSFER", rule_a="R-C01-ATOMIC") -> None:
    targets = [(op, ctx.func(f"{C.REDIS_BROKER}.{op}"), same_class_policy(C.REDIS_BROKER, ("maintenance",))) for op in ops]
    targets.append(("take", ctx.func(f"{C.REDIS_CONS}.__get_message_name"),
                    lambda n, cal: cal.cls is not None and cal.cls.qualname == C.REDIS_CONS and not cal.is_async))
    for op, f, pol in targets:
        g = flow.inline(f, ctx.res, ctx.depth, pol)
        aw = await_map(g)

        def sym(n: Node):
            rc = redis_cmd(n)
            if rc is None:
                return None
            recv, cmd, key = rc
            if cmd == "pipeline":
                tx = C.kw(n.ast, "transaction")
                return ("pipeline", "transaction" if (tx is None or C.is_const(tx, True)) else "NO-transaction")
            if cmd == "execute":
                return ("execute", "awaited" if n.id in aw else "NOT-awaited")
            pl = redis_place(cmd, key)
            if pl is None:
                return None
            # the _reject_to marker is a field of the data hash: writes/deletes of it are bookkeeping ("data*")
            if pl[1] == "data" and cmd in ("hset", "hdel") and ("_reject_to" in unparse(n.ast)):
                pl = (pl[0], "data*")
            return (recv, pl)

        trs = flow.traces(g, sym, loop_bound=ctx.loop_bound)
        done = {t for t in trs if t[-1] == "$exit"}
        ctx.floor(rule_t, len(done), 1, f"event sequences of redis {op}")
        shapes = set()
        problems = set()
        for t in done:
            ev = [x for x in t if x != "$exit"]
            pipes = [x for x in ev if x[0] == "pipeline"]
            execs = [i for i, x in enumerate(ev) if x[0] == "execute"]
            muts = [(i, x) for i, x in enumerate(ev) if x[0] in ("pipe", "self.conn", "self.broker.conn")]
            if not muts:
                shapes.add(frozenset())
                continue
            if any(x[0] != "pipe" for _, x in muts):
                problems.add("a state-changing command is sent directly on the connection, outside the MULTI/EXEC transaction")
            if len(pipes) != 1 or pipes[0][1] != "transaction":
                problems.add(f"{len(pipes)} pipeline(s) {[p[1] for p in pipes]} instead of exactly one transactional pipeline")
            if len(execs) != 1:
                problems.add(f"{len(execs)} execute() calls instead of exactly one: the operation's place changes are not one atomic transaction "
                             "(a crash or cancellation between them leaves the message in no place or in two)")
            elif ev[execs[0]][1] != "awaited":
                problems.add("the transaction's execute() is not awaited: nothing is sent")
            elif any(i > execs[0] for i, _ in muts):
                problems.add("commands buffered after execute() are never sent")
            shapes.add(frozenset(x[1] for _, x in muts if x[1][1] != "data*"))
        ctx.check(not problems, rule_a, f, f"redis {op}: one MULTI/EXEC transaction holds all place changes", "one transactional pipeline, one awaited execute after all commands",
                  f"redis {op}: " + "; ".join(sorted(problems)), instance=f"redis {op}: atomic")
        allowed = [{e for e in a if e[1] != "data*"} for a in REDIS_ALLOWED[op]]
        bad = [s for s in shapes if s and s not in [frozenset(a) for a in allowed]]
        ctx.check(not bad and any(shapes), rule_t, f, f"redis {op}: place transfers", f"{[sorted(map(str, s)) for s in shapes]}",
                  f"redis {op} changes places by {[sorted(map(str, b)) for b in bad[:2]]}; allowed: {[sorted(map(str, a)) for a in allowed]} - the message would be lost, duplicated or left marked in flight",
                  instance=f"redis {op}: transfer")
    # helper key expressions: added and removed under the same short name
    b = ctx.prog.cls(C.REDIS_BROKER)
    for hname in ("__put_in_queue", "__mark_dead", "__unmark_processing"):
        h = b.methods.get(hname)
        ctx.require(h is not None, f"{C.REDIS_BROKER}.{hname} not found")
        for c in ast.walk(h.node):
            if isinstance(c, ast.Call) and isinstance(c.func, ast.Attribute) and dotted(c.func.value) == "pipe" and c.func.attr in ("lpush", "rpush", "lrem", "zrem"):
                member = c.args[-1] if c.func.attr != "zrem" else c.args[1]
                ctx.check(unparse(member) == "mnc(key, short=True)", rule_t, h, f"redis {hname}: member is the message's short name", "mnc(key, short=True)",
                          f"redis {hname} uses member {unparse(member)}: a message is removed under another name than it was added", node=c, instance=f"redis {hname}: {c.func.attr} member")
            if isinstance(c, ast.Call) and isinstance(c.func, ast.Attribute) and dotted(c.func.value) == "pipe" and c.func.attr == "zadd":
                mp = c.args[1] if len(c.args) > 1 else None
                ok = isinstance(mp, ast.Dict) and len(mp.keys) == 1 and unparse(mp.keys[0]) == "mnc(key, short=True)"
                ctx.check(ok, rule_t, h, f"redis {hname}: zadd member is the message's short name", "mnc(key, short=True)", f"redis {hname} zadds {unparse(mp)}", node=c, instance=f"redis {hname}: zadd member")
    t = ctx.func(f"{C.REDIS_CONS}.__get_message_name")
    blind = [c for _o, c in C.flat_walk(ctx, t) if isinstance(c, ast.Call) and isinstance(c.func, ast.Attribute) and dotted(c.func.value) == "pipe"
             and c.func.attr in ("rpop", "lpop", "zpopmin", "zpopmax", "rpoplpush", "lmove", "blpop", "brpop")]
    ctx.check(not blind, rule_t, t, "redis take removes the fetched name itself", "LREM/ZREM by name",
              f"redis take removes whatever element is at the end of the queue ({unparse(blind[0])[:60] if blind else ''}) instead of the name it fetched: with a topic filter the delivered message stays "
              "queued (and is delivered again) while a foreign message vanishes", node=blind[0] if blind else None, instance="redis take: removal by name")
    for _own, c in C.flat_walk_bound(ctx, t):
        if isinstance(c, ast.Call) and isinstance(c.func, ast.Attribute) and dotted(c.func.value) == "pipe" and c.func.attr in ("lrem", "zrem"):
            ok = unparse(c.args[0]) == "full_queue_name" and unparse(c.args[-1]) == "msg_short_name"
            ctx.check(ok, rule_t, t, f"redis take: {c.func.attr} removes the fetched name from the fetched queue", "same queue, same name", f"redis take removes {unparse(c)}", node=c,
                      instance=f"redis take: {c.func.attr}")
    mp = ctx.func(f"{C.REDIS_CONS}.__mark_processing")
    z = [c for c in ast.walk(mp.node) if isinstance(c, ast.Call) and isinstance(c.func, ast.Attribute) and c.func.attr == "zadd"]
    ok = len(z) == 1 and unparse(z[0].args[0]) == "self.broker.processing_queue" and isinstance(z[0].args[1], ast.Dict) and unparse(z[0].args[1].keys[0]) == "msg_short_name" \
        and "unix_time()" in unparse(z[0].args[1].values[0])
    ctx.check(ok, rule_t, mp, "redis take: held mark = processing zset, member short name, score now", "zadd(processing, {short: now})", f"redis __mark_processing does {unparse(z[0]) if z else '?'}",
              instance="redis take: held mark")


def piq_sites(ctx: Ctx, f: FuncInfo) -> list[ast.Call]:
    """Calls of the Redis routing helper __put_in_queue made by broker operation f - directly or through private helpers of the broker;
    arguments are expressed in f's own terms (helpers are inlined with their parameters substituted)."""
    g = ctx.icfg(f, exclude=("__put_in_queue",) + tuple(C.BROKER_OPS), substitute=True)
    return [n.ast for n in g.calls() if any(cal.name == "__put_in_queue" for cal in ctx.res.callees(n.func, n.ast, record=False)) or (n.callee or "").endswith("__put_in_queue")]


def redis_source_rules(ctx: Ctx, rule="R-C01-SOURCE") -> None:
    mp = ctx.func(f"{C.REDIS_CONS}.__mark_processing")
    hs = [c for c in ast.walk(mp.node) if isinstance(c, ast.Call) and isinstance(c.func, ast.Attribute) and c.func.attr == "hset"]
    ok = len(hs) == 1 and C.is_const(C.kw(hs[0], "key"), "_reject_to") and unparse(C.kw(hs[0], "value")) == "get_queue_marker(full_queue_name)" \
        and unparse(hs[0].args[0]) == "full_message_name_from_short(msg_short_name, full_queue_name)"
    ctx.check(ok, rule, mp, "redis take records the source queue marker on the message", "_reject_to = marker of the queue it was taken from", f"redis __mark_processing records {unparse(hs[0]) if hs else 'nothing'}",
              instance="redis: source recorded")
    rj = ctx.func(f"{C.REDIS_BROKER}.reject")
    hm = [c for c in ast.walk(rj.node) if isinstance(c, ast.Call) and isinstance(c.func, ast.Attribute) and c.func.attr == "hmget"]
    ok = len(hm) == 1 and "_reject_to" in unparse(hm[0]) and "parameters" in unparse(hm[0]) and unparse(hm[0].args[0]) == "mnc(key)"
    ctx.check(ok, rule, rj, "redis reject reads the recorded marker and the stored parameters", "hmget(mnc(key), ['parameters', '_reject_to'])", f"redis reject reads {unparse(hm[0])[:80] if hm else 'nothing'}",
              instance="redis: source read")
    # markers produced by qnc vs values reject dispatches on
    q = ctx.func("repid.connections.redis.utils.qnc")
    markers = set()
    for r in ast.walk(q.node):
        if isinstance(r, ast.Return) and isinstance(r.value, ast.JoinedStr):
            last = r.value.values[-1]
            if isinstance(last, ast.Constant):
                markers.add(last.value.split(":")[-1])
            elif isinstance(last, ast.FormattedValue) and isinstance(last.value, ast.IfExp):
                markers |= {last.value.body.value, last.value.orelse.value}
            elif isinstance(last, ast.FormattedValue) and isinstance(last.value, ast.Name):
                markers |= {d_.value for d_ in C.local_defs(q, last.value.id) if isinstance(d_, ast.Constant)}
    hm_names = {t.id for n in ast.walk(rj.node) if isinstance(n, (ast.Assign, ast.AnnAssign)) and isinstance(n.value, ast.Await) and isinstance(n.value.value, ast.Call)
                and isinstance(n.value.value.func, ast.Attribute) and n.value.value.func.attr == "hmget" for t in (n.targets if isinstance(n, ast.Assign) else [n.target]) if isinstance(t, ast.Name)}

    def from_marker(e):
        return any(isinstance(s_, ast.Subscript) and dotted(s_.value) in hm_names and C.is_const(s_.slice, 1) for x in C.expand_locals(rj, e) for s_ in ast.walk(x))

    disp = {c.comparators[0].value for c in ast.walk(rj.node) if isinstance(c, ast.Compare) and isinstance(c.ops[0], ast.Eq) and isinstance(c.comparators[0], ast.Constant)
            and isinstance(c.comparators[0].value, str) and from_marker(c.left)}
    ctx.check(markers == {"n", "d", "dead"} and disp == {"dead"}, rule, rj, "redis: every queue marker has a reject route", f"markers {sorted(markers)}; 'dead' explicit, n/d by due time",
              f"redis queue markers are {sorted(markers)} but reject dispatches on {sorted(disp)}", instance="redis: markers vs dispatch")
    piq = piq_sites(ctx, rj)
    ok = len(piq) == 1 and C.is_const(C.arg(piq[0], 3, "in_front"), True)
    ctx.check(ok, rule, rj, "redis reject returns the message in front", "in_front=True", "redis reject does not put the returned message at the consumption end", instance="redis: reject in front")
    piq_call = piq[0] if piq else None
    du = C.arg(piq_call, 2, "delay_until") if piq_call is not None else None
    src_ok = False
    if du is not None:
        for x in C.expand_locals(rj, du):
            for s_ in ast.walk(x):
                if isinstance(s_, ast.Call) and (dotted(s_.func) or "").endswith("PARAMETERS_CLASS.decode") and any(
                        isinstance(y, ast.Subscript) and dotted(y.value) in hm_names and C.is_const(y.slice, 0) for y in ast.walk(s_)):
                    src_ok = True
    ok = src_ok
    ctx.check(ok, rule, rj, "redis reject routes by the message's stored parameters", "PARAMETERS_CLASS.decode(stored)", "redis reject does not decode the stored parameters for routing", instance="redis: reject params")


# ----------------------------------------------------------------------------- rabbitmq
def rabbit_rules(ctx: Ctx, rule_t="R-C01-TRANSFER", rule_a="R-C01-ATOMIC", atomic_finding: bool = True) -> None:
    want = {"ack": ("basic_ack", {}), "nack": ("basic_nack", {"requeue": False}), "reject": ("basic_reject", {"requeue": True})}
    for op, (cmd, kws) in want.items():
        f = ctx.func(f"{C.RABBIT_BROKER}.{op}")
        g = ctx.icfg(f, exclude=tuple(C.BROKER_OPS), substitute=True)  # a shared 'pop the tag' helper is part of the operation
        pops = [n for n in g.calls() if (n.callee or "") == "self._id_to_delivery_tag.pop"]
        cmds = [n for n in g.calls() if (n.callee or "").startswith("self._channel.basic_")]
        ok = len(pops) == 1 and unparse(pops[0].ast.args[0]) == "key.id_" and len(cmds) == 1 and cmds[0].callee.endswith(cmd)
        ctx.check(ok, rule_t, f, f"rabbitmq {op}: pops the delivery tag of key.id_ and sends {cmd}", f"{cmd}", f"rabbitmq {op} does {[unparse(c.ast)[:50] for c in pops + cmds]}", instance=f"rabbitmq {op}: shape")
        if not ok:
            continue
        c = cmds[0]

        def from_pop(fn_, e, depth=3):
            """e (in fn_) is the popped tag: the pop itself, a local defined by it, or what a helper returns from it."""
            if e is pops[0].ast or (isinstance(e, ast.NamedExpr) and e.value is pops[0].ast):
                return True
            if depth <= 0:
                return False
            if isinstance(e, ast.Name):
                defs = C.local_defs(fn_, e.id)
                return len(defs) == 1 and from_pop(fn_, defs[0], depth - 1)
            if isinstance(e, ast.Call):
                for cal in ctx.res.callees(fn_, e, record=False):
                    # the inlined copy of the helper holds the pop node
                    for nn in g.nodes:
                        if nn.func.qualname == cal.qualname and nn.kind == "return" and isinstance(nn.ast, ast.Return) and nn.ast.value is not None and from_pop(nn.func, nn.ast.value, depth - 1):
                            return True
            return False

        ok = from_pop(c.func, c.ast.args[0]) if c.ast.args else False
        ctx.check(ok, rule_t, f, f"rabbitmq {op}: {cmd}(tag of this message)", "the popped tag", f"rabbitmq {op} sends {unparse(c.ast)}", node=c, instance=f"rabbitmq {op}: tag")
        for k, v in kws.items():
            got = C.kw(c.ast, k)
            okk = (got is None and v is True) or (got is not None and C.is_const(got, v))
            ctx.check(okk, rule_t, f, f"rabbitmq {op}: {k}={v}", f"{k}={v}", f"rabbitmq {op} sends {cmd} with {k}={unparse(got) if got is not None else '<default True>'}: "
                      + ("the message is not dead-lettered" if op == "nack" else "the message is dropped instead of returned"), node=c, instance=f"rabbitmq {op}: {k}")
        ctx.check(c.id in await_map(g), rule_t, f, f"rabbitmq {op}: {cmd} awaited", "awaited", f"rabbitmq {op} does not await {cmd}", node=c, instance=f"rabbitmq {op}: awaited")
        # unknown tag -> nothing sent
        def env(text, node):
            if isinstance(node, ast.Compare) and isinstance(node.ops[0], ast.Is) and C.is_const(node.comparators[0], None):
                return True
            return None
        r = flow.reach_under(g, {"*n": env}, flow.NORMAL_KINDS)
        ctx.check(c.id not in r, rule_t, f, f"rabbitmq {op}: unknown delivery tag -> nothing sent", "no server call without a tag", f"rabbitmq {op} sends {cmd} although the message is not held", instance=f"rabbitmq {op}: unknown tag")
    # requeue = ack then enqueue (non-atomic: known finding)
    f = ctx.func(f"{C.RABBIT_BROKER}.requeue")
    g = ctx.cfg(f)

    def sym(n: Node):
        if n.kind == "call" and n.callee in ("self.ack", "self.enqueue"):
            return n.callee.split(".")[-1]
        if flow.is_suspension(n):
            return "await"
        return None

    trs = {t for t in flow.traces(g, sym, loop_bound=1) if t[-1] == "$exit"}
    seq = sorted({tuple(x for x in t if x in ("ack", "enqueue")) for t in trs})
    ctx.check(seq in ([("ack", "enqueue")],), rule_t, f, "rabbitmq requeue: ack the held delivery, then publish the new message", "ack -> enqueue, once each",
              f"rabbitmq requeue performs {seq}: " + ("publishing before the old delivery is acked leaves two copies of the message when the call is interrupted in between "
                                                      "(the runner's reject then also returns the old copy)" if seq == [("enqueue", "ack")] else "the held message is not replaced by exactly one new message"),
              instance="rabbitmq requeue: order")
    calls = {n.callee: n for n in g.calls() if n.callee in ("self.ack", "self.enqueue")}
    if "self.enqueue" in calls:
        ok = [unparse(a) for a in calls["self.enqueue"].ast.args] == ["key", "payload", "params"]
        ctx.check(ok, rule_t, f, "rabbitmq requeue: enqueue(key, payload, params)", "same key, new payload and parameters", f"rabbitmq requeue publishes {unparse(calls['self.enqueue'].ast)}", instance="rabbitmq requeue: arguments")
    if seq == [("ack", "enqueue")] and atomic_finding:
        ctx.fail(rule_a, f, "await self.ack(key); await self.enqueue(key, payload, params)",
                 "rabbitmq requeue is 'await ack(); await enqueue()' on one channel without an AMQP transaction: a cancellation (worker shutdown) or connection loss after the ack "
                 "and before the publish is confirmed loses the message", instance="rabbitmq requeue: atomic")
    # on_new_message registers the tag before handing out
    o = ctx.func(f"{C.RABBIT_CONS}.on_new_message")
    go = ctx.cfg(o)
    st = [n for n in go.nodes if n.kind == "store" and isinstance(n.ast, ast.Subscript) and unparse(n.ast.value) == "self.broker._id_to_delivery_tag"]
    puts = [n for n in go.calls() if n.callee == "self.queue.put"]
    ok = len(st) == 1 and unparse(st[0].ast.slice) == "msg_id" and unparse(st[0].meta.get("value")) == "message.delivery_tag" and \
        all(flow.must_pass(go, go.entry.id, [p.id], [st[0].id], flow.NORMAL_KINDS) for p in puts)
    ctx.check(ok, rule_t, o, "rabbitmq consumer: delivery tag registered under the message id before hand-out", "_id_to_delivery_tag[msg_id] = delivery_tag", "rabbitmq on_new_message hands out a message whose delivery tag is not registered "
              "under its id (it can never be acked)", instance="rabbitmq consumer: tag registered")


def own_rules(ctx: Ctx, rule="R-OWN") -> None:
    """Who may touch the places."""
    n = 0
    for fn in ctx.prog.iter_functions():
        mod = fn.module.name
        for c in ast.walk(fn.node):
            if isinstance(c, ast.Call) and isinstance(c.func, ast.Attribute):
                ch = C.attr_chain(c.func)
                fields = [x for x in ch[:-1] if x in PLACE_OF_FIELD]
                if fields and ch[-1] in ADD_METHODS | REMOVE_METHODS and any(x in ("_queue", "queues", "q", "[]") or x == "self" for x in ch):
                    if "_queue" in ch or "queues" in ch or ch[0] == "q":
                        n += 1
                        ctx.check(mod.startswith("repid.connections.in_memory"), rule, fn, f"{unparse(c)[:60]} in {fn.short()}", "in-memory places mutated only by the in-memory broker",
                                  f"{fn.short()} mutates an in-memory queue place directly ({unparse(c)[:70]})", node=c, instance=f"in-memory place mutation in {fn.short()}")
                if ch[-1] in ("basic_ack", "basic_nack", "basic_reject", "basic_publish", "basic_consume", "basic_cancel", "basic_qos"):
                    n += 1
                    ctx.check(mod.startswith("repid.connections.rabbitmq"), rule, fn, f"{ch[-1]} in {fn.short()}", "AMQP calls only in the rabbitmq broker", f"{fn.short()} talks AMQP directly", node=c,
                              instance=f"AMQP call in {fn.short()}")
    ctx.floor(rule, n, 10, "place-mutating call sites")
    # redis key strings: only qnc / mnc build them (plus the scan patterns of flush / maintenance)
    allowed_fmt = {f"{C.REDIS_BROKER}.queue_flush", f"{C.REDIS_BROKER}.maintenance", "repid.connections.redis.utils.qnc", "repid.connections.redis.utils.mnc",
                   "repid.connections.redis.utils.full_message_name_from_short"}
    for fn in ctx.prog.iter_functions():
        if not fn.module.name.startswith("repid.connections.redis"):
            continue
        for j in ast.walk(fn.node):
            if isinstance(j, ast.JoinedStr) and j.values and isinstance(j.values[0], ast.Constant) and isinstance(j.values[0].value, str) and j.values[0].value.startswith(("m:", "q:")):
                is_pattern = isinstance(j.values[-1], ast.Constant) and isinstance(j.values[-1].value, str) and j.values[-1].value.endswith("*")  # a SCAN/KEYS glob, not the key of one message
                ctx.check(fn.qualname in allowed_fmt or is_pattern, rule, fn, f"redis key literal {unparse(j)[:40]} in {fn.short()}", "keys built only by qnc/mnc", f"{fn.short()} builds a redis key by hand: {unparse(j)[:60]}",
                          node=j, instance=f"redis key literal in {fn.short()}")


TERMINAL_CALLERS = {
    "repid._processor._Processor.report_to_broker": {"requeue", "ack", "nack"},
    "repid._runner._Runner._process_with_event": {"reject"},
    "repid._runner._Runner._run_consumer": {"reject"},
    "repid.message.Message.ack": {"ack"},
    "repid.message.Message.nack": {"nack"},
    "repid.message.Message.reject": {"reject"},
    "repid.message.Message.reschedule": {"requeue"},
    "repid.message.Message.retry": {"requeue"},
    "repid.message.Message.force_retry": {"requeue"},
    "repid.connections.redis.consumer._RedisConsumer.finish": {"reject"},
    "repid.connections.redis.consumer._RedisConsumer.consume_or_none": {"nack"},
    "repid.connections.redis.message_broker.RedisMessageBroker.maintenance": {"reject"},
    "repid.connections.rabbitmq.message_broker.RabbitMessageBroker.requeue": {"ack"},
    "repid.connections.in_memory.message_broker.InMemoryMessageBroker.requeue": set(),
}


def terminal_callers_rule(ctx: Ctx, rule="R-C14-REDELIVER", ops=C.TERMINAL_OPS, minimum: int | None = None) -> None:
    n = 0
    for fn in ctx.prog.iter_functions():
        if fn.module.name.startswith("repid.testing"):
            continue
        g = None
        for c in ast.walk(fn.node):
            if isinstance(c, ast.Call) and isinstance(c.func, ast.Attribute) and c.func.attr in ops:
                op = C.op_of_call(ctx, fn, c, C.MB, ops)
                if op is None:
                    continue
                n += 1
                ok = op in TERMINAL_CALLERS.get(fn.qualname, set())
                if not ok and fn.cls is not None:
                    # a private helper of an allowed owner (same class), e.g. an extracted `__requeue_as_retry`
                    for q_, ops_ in TERMINAL_CALLERS.items():
                        if op in ops_ and q_ in ctx.prog.functions and q_.rsplit(".", 1)[0] == fn.cls.qualname and fn in C.helper_callees(ctx, ctx.prog.functions[q_]):
                            ok = True
                ctx.check(ok, rule, fn, f"{op} called from {fn.short()}", "a known owner of terminal actions",
                          f"{fn.short()} applies the terminal broker operation '{op}': terminal actions may only come from the processor's ladder, the runner's cancel/limit path, the Message API, "
                          "consumer shutdown and Redis maintenance - anything else can return or dispose a message its holder is still working on", node=c, instance=f"{op} in {fn.short()}")
    ctx.floor(rule, n, minimum if minimum is not None else (14 if set(ops) == set(C.TERMINAL_OPS) else 9), "terminal broker operation call sites")


def redis_op_fields(ctx: Ctx, rule: str) -> None:
    """enqueue / requeue write both data fields of the message's own hash from the operation's payload and params."""
    for op, call_attr in (("enqueue", "hsetnx"), ("requeue", "hset")):
        of = ctx.func(f"{C.REDIS_BROKER}.{op}")
        w = {}
        how = {}
        for c in ast.walk(of.node):
            if isinstance(c, ast.Call) and isinstance(c.func, ast.Attribute) and c.func.attr in ("hsetnx", "hset"):
                if len(c.args) >= 3 and isinstance(c.args[1], ast.Constant):
                    w[c.args[1].value] = (unparse(c.args[0]), C.utext(of, c.args[2], calls="all"))
                    how[c.args[1].value] = c.func.attr
                for kname, vname in (("key", "value"),):
                    kk, vv = C.kw(c, kname), C.kw(c, vname)
                    if isinstance(kk, ast.Constant) and vv is not None:
                        w[kk.value] = (unparse(c.args[0]) if c.args else unparse(C.kw(c, "name")), C.utext(of, vv, calls="all"))
                        how[kk.value] = c.func.attr
                mp = C.kw(c, "mapping")
                mp = C.inline_locals(of, mp) if isinstance(mp, ast.Name) else mp
                if isinstance(mp, ast.Dict):
                    for k, v in zip(mp.keys, mp.values):
                        if isinstance(k, ast.Constant):
                            w[k.value] = (unparse(c.args[0]) if c.args else "", C.utext(of, v, calls="all"))
                            how[k.value] = c.func.attr
        ok = w == {"payload": ("mnc(key)", "payload"), "parameters": ("mnc(key)", "params.encode()")}
        ctx.check(ok, rule, of, f"redis {op} writes payload and parameters of the message's own hash", "mnc(key): payload, params.encode()",
                  f"redis {op} writes {w}: the {'re-queued' if op == 'requeue' else 'enqueued'} message does not carry its {'new ' if op == 'requeue' else ''}payload and parameters",
                  instance=f"redis {op} fields")
        if op == "requeue":
            keep_old = sorted(k for k, cmd in how.items() if cmd != "hset")
            ctx.check(not keep_old, rule, of, "redis requeue overwrites the stored payload and parameters", "HSET (not HSETNX) on the existing hash",
                      f"redis requeue writes {keep_old} with HSETNX: the message's hash already exists, so the new payload / parameters (retry counter, next execution time, restarted "
                      "time-to-live clock) are silently not stored and the old ones stay in force", instance="redis requeue overwrites")


def rabbit_bounce_rules(ctx: Ctx, rule: str) -> None:
    """RabbitMQ deliveries the consumer cannot take (paused, foreign topic, not consuming) are bounced with basic_reject: unconditionally with requeue
    (the default) - the message belongs to somebody else and must stay available - and a bounced delivery is not ALSO kept: nothing registers its
    delivery tag or hands it to the local queue afterwards (the server redelivers it, two holders would exist)."""
    f = ctx.func(f"{C.RABBIT_CONS}.on_new_message")
    g = ctx.icfg(f)
    aw = await_map(g)
    rejects = [n for n in g.calls() if (n.callee or "").endswith("basic_reject")]
    ctx.floor(rule, len(rejects), 2, "basic_reject calls in rabbitmq on_new_message")
    keeps = [n.id for n in g.calls() if (n.callee or "") == "self.queue.put"] + \
            [n.id for n in g.nodes if n.kind == "store" and isinstance(n.ast, ast.Subscript) and "_id_to_delivery_tag" in unparse(n.ast.value)]
    ctx.require(bool(keeps), f"{f.qualname}: hand-out to the local queue not found")
    for r in rejects:
        rq = C.kw(r.ast, "requeue")
        ok = rq is None or C.is_const(rq, True)
        ctx.check(ok, rule, f, f"{unparse(r.ast)[:60]}: bounced with requeue", "requeue (default True)",
                  f"rabbitmq on_new_message bounces a delivery with requeue={unparse(rq) if rq is not None else ''}: when the expression is false the message is dropped (or dead-lettered) although "
                  "it was never this consumer's to dispose of - the worker that has an actor for it never receives it", node=r, instance=f"rabbitmq bounce requeues: line {r.lineno}")
        start = aw.get(r.id, r)
        after = flow.reach(g, [start.id], flow.NORMAL_KINDS)
        ctx.check(not (after & set(keeps)), rule, f, f"{unparse(r.ast)[:60]}: a bounced delivery is not kept", "return after the bounce",
                  "rabbitmq on_new_message goes on after bouncing a delivery and also registers / hands out that message: the server redelivers it to another consumer while this one "
                  "keeps a copy - the message is held twice and a successful job runs twice", node=r, instance=f"rabbitmq bounce ends delivery: line {r.lineno}")


def rabbit_consume_keeps_fetched(ctx: Ctx, rule: str) -> None:
    """_RabbitConsumer.consume races `queue.get()` against the server-side-cancel event. A get that completed HAS removed a message from the local queue;
    whatever else happened in the same iteration (cancel event set, restart needed), that message must be returned - any path that loops again or
    awaits the restart first drops it (its delivery tag stays registered, nobody ever acks it)."""
    f = ctx.func(f"{C.RABBIT_CONS}.consume")
    g = ctx.cfg(f)
    gets = [t.id for n in ast.walk(f.node) if isinstance(n, ast.Assign) and isinstance(n.value, ast.Call) and (dotted(n.value.func) or "").endswith("create_task")
            and any(isinstance(c, ast.Call) and isinstance(c.func, ast.Attribute) and c.func.attr == "get" and "queue" in unparse(c.func.value) for c in ast.walk(n.value))
            for t in n.targets if isinstance(t, ast.Name)]
    ctx.require(len(gets) == 1, f"{f.qualname}: the task wrapping queue.get() not found")
    gt = gets[0]
    waits = [n for n in g.nodes if n.kind == "await" and isinstance(n.ast, ast.Await) and isinstance(n.ast.value, ast.Call) and (dotted(n.ast.value.func) or "").endswith("asyncio.wait")]
    ctx.require(len(waits) == 1, f"{f.qualname}: asyncio.wait(...) not found")

    def env(text, node):
        if isinstance(node, ast.Call) and isinstance(node.func, ast.Attribute) and dotted(node.func.value) == gt:
            return {"done": True, "cancelled": False}.get(node.func.attr)
        if isinstance(node, ast.Call) and isinstance(node.func, ast.Attribute) and node.func.attr == "is_set":
            return True  # ... and the server-side cancel arrived in the same iteration
        if isinstance(node, ast.Attribute) and node.attr.endswith("is_consuming"):
            return True
        return None

    r = flow.reach_under(g, {"*fetched": env}, flow.NORMAL_KINDS, start=waits[0].id)
    rets = [n for n in g.nodes if n.kind == "return" and n.id in r and isinstance(n.ast, ast.Return) and n.ast.value is not None and gt in C.names_in(n.ast.value)]
    # before that return nothing may suspend or loop: reach the return without passing another await
    others = [n.id for n in g.nodes if n.id in r and n.id != waits[0].id and (flow.is_suspension(n) or (n.kind == "stmt" and isinstance(n.ast, ast.Continue)))]
    ok = bool(rets) and all(flow.must_pass(g, waits[0].id, [o], [x.id for x in rets], flow.NORMAL_KINDS) for o in others)
    ctx.check(ok, rule, f, "a completed queue.get() is returned before anything else in that iteration", f"return {gt}.result() first",
              f"rabbitmq consume(): with the get task completed AND the server-side cancel event set, the code reaches {[g.nodes[o].label[:40] for o in others][:3]} without returning "
              f"{gt}.result(): the fetched message is dropped (removed from the local queue, never handed out, its delivery tag orphaned)", instance="rabbitmq consume keeps the fetched message")


def redis_scan_exhaustive(ctx: Ctx, rule: str) -> None:
    """The Redis fetch pages through the whole list / sorted set until a page comes back empty: messages of foreign topics in front must not hide the
    consumer's own messages behind them. The paging loop therefore ends only on 'page empty' (or by returning a name) - any further bound on the
    number of pages makes everything behind the first pages unreachable while those pages hold nothing for this consumer."""
    f = ctx.func(f"{C.REDIS_CONS}.__fetch_message_name")
    loops = [w for w in C.own_nodes(f) if isinstance(w, ast.While)]
    ctx.require(len(loops) == 1, f"{f.qualname}: the paging loop not found")
    lp = loops[0]

    def atoms(e):
        if isinstance(e, ast.BoolOp) and isinstance(e.op, ast.And):
            for v in e.values:
                yield from atoms(v)
        else:
            yield e

    ats = list(atoms(lp.test))
    names_var = None
    for a in ats:
        pos = ast.UnaryOp(op=ast.Not(), operand=a)
        em = C.emptiness_test(pos)  # `while names` / `while len(names) > 0` == not empty(names)
        if isinstance(a, ast.Compare) and isinstance(a.left, ast.Call) and isinstance(a.left.func, ast.Name) and a.left.func.id == "len" and isinstance(a.comparators[0], ast.Constant):
            if (type(a.ops[0]), a.comparators[0].value) in ((ast.Gt, 0), (ast.NotEq, 0), (ast.GtE, 1)):
                names_var = dotted(a.left.args[0])
        elif isinstance(a, ast.Name):
            names_var = a.id
    extra = [unparse(a) for a in ats if not ((isinstance(a, ast.Name) and a.id == names_var) or (isinstance(a, ast.Compare) and names_var and names_var in unparse(a) and "len(" in unparse(a)))]
    brk = [x for st in lp.body for x in ast.walk(st) if isinstance(x, ast.Break)]
    ctx.check(names_var is not None and not extra and not brk, rule, f, "redis fetch pages until a page is empty", f"while <page not empty> ({unparse(lp.test)})",
              f"redis __fetch_message_name bounds its paging with `{unparse(lp.test)}`{' / break' if brk else ''} (extra condition {extra}): only the first page(s) of the queue are ever inspected, "
              "so when they are filled with messages for other topics (or not yet due) this consumer never reaches its own deliverable messages - the worker stalls with work waiting", node=lp,
              instance="redis fetch exhaustive")


def redis_poll_errors_contained(ctx: Ctx, rule: str) -> None:
    """The Redis consumer polls from a background task nobody awaits. Where a poll step is guarded by a try, the guard catches Exception (the client's errors derive from
    redis.exceptions.RedisError, NOT from the builtin ConnectionError / OSError family): a narrower guard lets one connection hiccup kill the task, after which the consumer
    silently never delivers again."""
    n = 0
    for name in ("__fetch_message_name", "__get_message_name", "__get_message_details", "consume_or_none", "backgroud_consume"):
        q = f"{C.REDIS_CONS}.{name}"
        if q not in ctx.prog.functions:
            continue
        f = ctx.func(q)
        for t in [x for x in C.own_nodes(f) if isinstance(x, ast.Try)]:
            guarded = [a for st in t.body for a in ast.walk(st) if isinstance(a, ast.Await)]
            if not guarded or not t.handlers:
                continue
            n += 1
            classes = [unparse(h.type) if h.type is not None else "<bare>" for h in t.handlers]
            broad = any(c in ("<bare>", "Exception", "BaseException") or "RedisError" in c for c in classes)
            ctx.check(broad, rule, f, f"guard {classes} around {unparse(guarded[0])[:40]} in {f.short()}", "poll errors of any kind are contained",
                      f"{f.short()} guards {unparse(guarded[0])[:50]} with `except {', '.join(classes)}`: redis-py's errors are not instances of these builtin classes, so a connection error "
                      "during a poll escapes, ends the background consume task (nobody awaits it) and the consumer stalls", node=t, instance=f"{f.short()}: poll guard {classes}")
    ctx.floor(rule, n, 2, "guarded poll steps in the Redis consumer")


def rabbit_delivery_order(ctx: Ctx, rule: str) -> None:
    """aiormq runs every delivery callback in its own task. on_new_message therefore reaches `queue.put` without suspending: a suspension point on the accepting path lets a
    later (smaller, faster) delivery overtake an earlier one on its way into the local queue."""
    f = ctx.func(f"{C.RABBIT_CONS}.on_new_message")
    g = ctx.icfg(f)
    aw = await_map(g)
    puts = [n for n in g.calls() if (n.callee or "") == "self.queue.put"]
    ctx.require(bool(puts), f"{f.qualname}: hand-out to the local queue not found")
    for p in puts:
        back = flow.reach_back(g, [p.id], flow.NORMAL_KINDS)
        susp = [g.nodes[i] for i in back if flow.is_suspension(g.nodes[i]) and g.nodes[i].id != aw.get(p.id, p).id]
        ctx.check(not susp, rule, f, "no suspension point between delivery and the local queue", "deliveries enter the local queue in arrival order",
                  f"rabbitmq on_new_message can be suspended ({[s_.label[:50] for s_ in susp][:2]}) before it hands the message to the local queue: each delivery runs in its own task, so a later "
                  "delivery that gets through faster is queued (and consumed) first", node=p, instance="rabbitmq: accept path not suspended")


def rabbit_start_fails_loudly(ctx: Ctx, rule: str) -> None:
    """A consumer that could not be (re)started must not look alive: when basic_consume is not confirmed, start() ends in an exception (the runner turns that into UNHEALTHY)."""
    f = ctx.func(f"{C.RABBIT_CONS}.start")
    g = ctx.cfg(f)
    tests = [t for t in g.nodes if t.kind == "test" and "ConsumeOk" in (t.label or "")]
    ctx.require(bool(tests), f"{f.qualname}: confirmation test not found")

    def env(text, node):
        if isinstance(node, ast.Call) and dotted(node.func) == "isinstance" and "ConsumeOk" in unparse(node):
            return False
        return None

    r = flow.reach_under(g, {"*c": env}, flow.NORMAL_KINDS + ("raise",), start=tests[0].id)
    raises = [n for n in g.nodes if n.kind == "raise" and n.id in r]
    ctx.check(bool(raises) and g.exit.id not in r, rule, f, "unconfirmed basic_consume -> start() raises", "a failed (re)start is an exception, not a normal return",
              "rabbitmq start() returns normally although basic_consume was not confirmed: the consumer receives nothing, consume() waits for ever and nothing marks the worker UNHEALTHY "
              "(the health endpoint keeps answering 200)", instance="rabbitmq start fails loudly")
