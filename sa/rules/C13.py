"""C13 - The stored result is the outcome of the latest execution."""
from __future__ import annotations

import ast

from .. import flow
from ..engine import Ctx
from ..model import dotted, unparse
from . import common as C
from .C05 import none_env
from .ladder import outcome_env, same_layer_policy
from .shared import EAGER, _mentions, await_map, lazy_callback_rules

SUMMARY = "Order of disposition and result store, results-disabled guard, field mapping of every result bucket construction."
DECIDED = [
    "R-C13-OUTCOME: everything between the actor call and the encoded return value (argument conversion, dependency resolution, the call, convert_outputs) sits in the try "
    "whose generic handler records a failed outcome - an unencodable return value ends as a stored failure, not as an execution without outcome (C02's CATCH rules, reused)",
    "R-C13-ORDER: in process() the result store is reached only after the disposition has returned, is skipped after an "
    "eager response, and its failure leaves process() without any further broker operation",
    "R-C13-OFF: every store on the results broker is unreachable when parameters.result is None (set_result_bucket "
    "returns first, set_result/set_exception raise first); process() hands parameters.result to the guard",
    "R-C13-FIELDS: keyword mapping of the four result-bucket constructions (success flag, converter output or str(exception), "
    "exception type name, start/finish, configured ttl, stored under result.id_); Job.result reads the id the job put into its parameters",
    "R-C13-EAGER-SAFE: after the terminal broker call of an eager action has returned, no ordinary exception may leave the "
    "action (it would be taken for an actor failure and trigger a second disposition)",
    "R-C13-LAZY: the lazy result slot takes the place of the latest set_result/set_exception call (shared with C16)",
    "R-C13-VALIDATE: Connection.__post_init__ probes the results broker's bucket class against ResultBucketT",
    "R-C13-VALIDATE (config): Connection._update_from_config gives each broker the Config class of its own role (results broker <- RESULT_BUCKET)",
    "R-C13-FIELDS (uncached): Job.result asks the results broker on every read; R-C13-LAZY (writers): the lazy slot is written only by set_result / set_exception; R-C13-ORDER (race): no second terminal action after a failed result store",
    "R-C13-FIELDS (round 5): the in-memory bucket storage is created per broker object in __init__ (a class-body dict is shared by args and result brokers); every job without an explicit result id gets its own (no eager default)",
    "R-C13-OFF / R-C13-ORDER / R-C13-FIELDS (round 6): bucket ownership table (producer: store args, read results; worker: read args, store results; nobody deletes); one store attempt per execution, no waiting; the Redis bucket broker reads the server on every get",
    "R-C13-AWAITED: in the files this property is anchored in, no bare statement calls a coroutine function (the operation would never run)",
    "R-C13-LAZY (sweep stage two): after an eager response the reported outcome is the one set last (set_result records True, set_exception False), else the action's default",
    "R-C13-FIELDS (sweep stage two): which converter encoding applies to which return annotation (PydanticConverter.convert_outputs decision table)",
]
NOT_DECIDED = ["bucket content across retry chains as a value (follows from same-id overwrite)", "bucket TTL expiry timing"]
ASSUMPTIONS = ["store_bucket under an existing id overwrites (both bucket brokers: dict assignment / Redis SET)"]


def run(ctx: Ctx) -> None:
    from .shared import every_operation_awaited

    every_operation_awaited(ctx, "R-C13-AWAITED")  # in the files this property is anchored in, no asynchronous operation is created and dropped
    from .shared import pydantic_output_table

    pydantic_output_table(ctx, "R-C13-FIELDS")  # "the converter-encoded return value": which encoding applies to which return annotation
    from .shared import eager_outcome_defaults

    eager_outcome_defaults(ctx, "R-C13-LAZY")  # after an eager response the bucket holds the result or exception set last (success flag included)
    bucket_brokers(ctx)
    from .C02 import catch

    from .C02 import race

    with ctx.as_rule("R-C13-ORDER"):
        race(ctx, "R-C13-ORDER")  # a failing result store (after the disposition) is not answered with another terminal action by the runner
    catch(ctx, "R-C13-OUTCOME")  # whatever fails between the actor call and the encoded return value ends as a recorded failed outcome
    order(ctx)
    off(ctx)
    fields(ctx)
    eager_safe(ctx)
    lazy_callback_rules(ctx, "R-C13-LAZY")
    from .shared import lazy_slot_writers

    lazy_slot_writers(ctx, "R-C13-LAZY")
    validate(ctx)
    config_buckets(ctx)
    from .shared import bucket_ownership

    bucket_ownership(ctx, "R-C13-OFF")
    single_store_attempt(ctx)
    from .shared import fresh_defaults

    with ctx.as_rule("R-C13-FIELDS"):
        fresh_defaults(ctx, "R-C13-FIELDS")  # "the bucket under the job's result id": every job without an explicit result id gets its own, not one computed at import time


def order(ctx: Ctx, rule="R-C13-ORDER") -> None:
    f = ctx.func(f"{C.PROCESSOR}.process")
    g = flow.inline(f, ctx.res, ctx.depth, same_layer_policy(f, ctx))
    term = [n for n in g.calls() if C.broker_op(ctx, n, C.TERMINAL_OPS)]
    stores = [n for n in g.calls() if C.bucket_op(ctx, n, ("store_bucket",))]
    ctx.floor(rule, len(stores), 1, "result store calls reachable from process()")
    aw = await_map(g)
    term_aw = [aw[t.id].id for t in term if t.id in aw]
    for s in stores:
        ctx.check(flow.must_pass(g, g.entry.id, [s.id], term_aw, flow.NORMAL_KINDS), rule, f, "result store after the disposition",
                  "every path to the store has completed a terminal broker operation",
                  "process() can store the result before the message's disposition has been applied: a failing store would pre-empt "
                  "the ack/nack/requeue", node=s, instance="store after disposition")
        sa = aw.get(s.id)
        if ctx.check(sa is not None, rule, f, "result store awaited", "awaited", "the store_bucket coroutine is never awaited", node=s,
                     instance="store awaited"):
            after = flow.reach(g, [sa.id, s.id], flow.ALL_KINDS)
            bad = [t for t in term if t.id in after]
            ctx.check(not bad, rule, f, "nothing after a (failing) result store", "no broker operation follows the store on any edge",
                      f"after the result store (or its failure) process() performs {[b.label[:50] for b in bad]}: a store failure changes the disposition",
                      node=s, instance="no broker op after store")
    r = flow.reach_under(g, outcome_env(reporting_done=True), flow.NORMAL_KINDS)
    ctx.check(not any(s.id in r for s in stores), rule, f, "no store after an eager response", "the eager response stored its own result",
              "process() stores a result bucket after an eager response (overwriting the result set by the actor)", instance="eager: no store")


def off(ctx: Ctx, rule="R-C13-OFF") -> None:
    f = ctx.func(f"{C.PROCESSOR}.set_result_bucket")
    g = ctx.cfg(f)
    stores = [n for n in g.calls() if C.bucket_op(ctx, n, ("store_bucket",))]
    ctx.floor(rule, len(stores), 1, "store_bucket calls in set_result_bucket")
    r = flow.reach_under(g, none_env({"result_params"}, True), flow.NORMAL_KINDS + ("raise",))
    ctx.check(not any(s.id in r for s in stores) and not any(n.id in r for n in g.calls() if "BUCKET_CLASS" in C.utext(f, n.ast.func)), rule, f,
              "results disabled -> nothing built or stored", "set_result_bucket returns first when result settings are None",
              "set_result_bucket stores (or builds) a bucket although the message has no result settings", instance="set_result_bucket guard")
    r = flow.reach_under(g, none_env({"result_params"}, False), flow.NORMAL_KINDS)
    ctx.check(all(s.id in r for s in stores), rule, f, "results enabled -> stored", "store reachable", "set_result_bucket never stores", instance="set_result_bucket stores")
    p = ctx.func(f"{C.PROCESSOR}.process")
    calls = [n for n in ast.walk(p.node) if isinstance(n, ast.Call) and isinstance(n.func, ast.Attribute) and n.func.attr == "set_result_bucket"]
    ctx.floor(rule, len(calls), 1, "set_result_bucket calls in process()")
    for c in calls:
        a0, a1 = C.arg(c, 0, "result_params"), C.arg(c, 1, "result_actor")
        ctx.check(dotted(a0) == "parameters.result", rule, p, "set_result_bucket(parameters.result, ...)", "the message's own result settings",
                  f"process() passes {unparse(a0)} as result settings", node=c, instance="process -> set_result_bucket settings")
        ok = isinstance(a1, ast.Name) and any(isinstance(d, ast.Await) and isinstance(d.value, ast.Call) and (dotted(d.value.func) or "").endswith("actor_run")
                                              for d in C.local_defs(p, a1.id))
        ctx.check(ok, rule, p, "set_result_bucket(..., result of this actor run)", "the outcome of this execution",
                  f"process() stores {unparse(a1)} which is not the result of this actor run", node=c, instance="process -> set_result_bucket outcome")
    for name in ("set_result", "set_exception"):
        f = ctx.func(f"{C.MSGDEP}.{name}")
        g = ctx.icfg(f)

        def env(result_none, rbb_none):
            def fn(text, node):
                if isinstance(node, ast.Compare) and isinstance(node.ops[0], ast.Is) and isinstance(node.comparators[0], ast.Constant) and node.comparators[0].value is None:
                    l = node.left
                    if isinstance(l, ast.NamedExpr):
                        l = l.value
                    d = dotted(l) or ""
                    if d.endswith("parameters.result"):
                        return result_none
                    if d.endswith("results_bucket_broker") or d == "rbb":
                        return rbb_none
                return None
            return {"*sr": fn}

        slot = [n for n in g.nodes if n.kind == "store" and "lazy" in (n.target or "")]
        for label, e in (("result settings None", env(True, False)), ("no results broker", env(False, True))):
            r = flow.reach_under(g, e, flow.NORMAL_KINDS + ("raise",))
            ctx.check(not any(s.id in r for s in slot) and g.exit.id not in r, rule, f, f"{name}: {label} -> refused",
                      "raises before registering a store", f"MessageDependency.{name} with {label} still registers a result store (or returns normally)",
                      instance=f"{name}: {label}")


def _kwmap(call: ast.Call) -> dict[str, ast.expr]:
    return {k.arg: k.value for k in call.keywords if k.arg}


def fields(ctx: Ctx, rule="R-C13-FIELDS") -> None:
    f = ctx.func(f"{C.PROCESSOR}.set_result_bucket")
    g = ctx.cfg(f)
    builds = [n for n in g.calls() if C.utext(f, n.ast.func).endswith("BUCKET_CLASS")]
    ctx.floor(rule, len(builds), 1, "bucket constructions in set_result_bucket")
    for want_success in (True, False):
        def fn(text, node, want=want_success):
            if isinstance(node, ast.Attribute) and node.attr == "success":
                return want
            return None
        r = flow.reach_under(g, {"*s": fn}, flow.NORMAL_KINDS)
        got = [b for b in builds if b.id in r]
        if not ctx.check(len(got) == 1, rule, f, f"one bucket built for success={want_success}", "one construction per outcome",
                         f"set_result_bucket builds {len(got)} buckets for success={want_success}", instance=f"bucket[{want_success}] count"):
            continue
        b = got[0]
        bcallee = C.utext(f, b.ast.func)
        ctx.check("_rb" in bcallee or "results" in bcallee, rule, f, "bucket class of the results broker", "ResultBucket class of _rb",
                  f"the result bucket is built with {bcallee}", node=b, instance=f"bucket[{want_success}] class")
        kw = _kwmap(b.ast)
        exp = {
            "started_when": lambda v: dotted(v) == "result_actor.started_when",
            "finished_when": lambda v: dotted(v) == "result_actor.finished_when",
            "ttl": lambda v: dotted(v) == "result_params.ttl",
            "success": lambda v, w=want_success: dotted(v) == "result_actor.success" or C.is_const(v, w),
        }
        if want_success:
            exp["data"] = lambda v: _mentions(v, "data") and "result_actor" in C.names_in(v) and not _mentions(v, "exception")
            exp["exception"] = lambda v: C.is_const(v, None)
        else:
            exp["data"] = lambda v: isinstance(v, ast.Call) and dotted(v.func) == "str" and dotted(v.args[0]) == "result_actor.exception"
            exp["exception"] = lambda v: (isinstance(v, ast.Attribute) and v.attr == "__name__" and isinstance(v.value, ast.Call)
                                          and dotted(v.value.func) == "type" and dotted(v.value.args[0]) == "result_actor.exception")
        for k, pred in exp.items():
            vs = C.values_under(g, f, kw.get(k), r)
            ctx.check(bool(vs) and all(pred(v) for v in vs), rule, f, f"bucket[{'success' if want_success else 'failure'}].{k}", f"{k} = {[unparse(v) for v in vs]}",
                      f"set_result_bucket ({'success' if want_success else 'failure'} branch) fills {k} with {[unparse(v) for v in vs] or '<missing>'}",
                      node=b, instance=f"bucket[{want_success}].{k}")
    st = [n for n in g.calls() if C.bucket_op(ctx, n, ("store_bucket",))]
    for s in st:
        a0, a1 = C.arg(s.ast, 0, "id_"), C.arg(s.ast, 1, "payload")
        ctx.check(dotted(a0) == "result_params.id_", rule, f, "stored under result.id_", "the job's result id", f"result stored under {unparse(a0)}", node=s,
                  instance="store id")
        ok = isinstance(a1, ast.Name) and all(isinstance(d, ast.Call) and C.utext(f, d.func).endswith("BUCKET_CLASS") for d in C.local_defs(f, a1.id)) and C.local_defs(f, a1.id)
        ctx.check(bool(ok), rule, f, "stored payload is the bucket just built", "bucket stored", f"store_bucket payload {unparse(a1)} is not the bucket built above",
                  node=s, instance="store payload")
        ctx.check("_rb" in (s.callee or "") or "results" in (s.callee or ""), rule, f, "stored on the results broker", "results broker",
                  f"result stored through {s.callee}", node=s, instance="store broker")
    # actor_run: data / exception of the ActorResult
    ar = ctx.func(f"{C.PROCESSOR}._actor_run")
    finals_kw = [(c, kwv) for c, kwv in C.constructions(ctx, ar, [x for x in C.own_nodes(ar) if isinstance(x, ast.Return)], "ActorResult") if C.is_const(kwv.get("reporting_done"), False)]
    ctx.floor(rule, len(finals_kw), 1, "final ActorResult in actor_run")
    for c, kwv in finals_kw:
        class _K:  # keyword lookup on the (possibly helper-bound) construction
            pass
        d = kwv.get("data")
        ok = isinstance(d, ast.Name) and any(isinstance(x, ast.Call) and isinstance(x.func, ast.Attribute) and x.func.attr == "convert_outputs" for x in C.local_defs(ar, d.id))
        ctx.check(ok, rule, ar, "ActorResult.data = converter-encoded return value", "convert_outputs(actor return value)",
                  f"ActorResult.data is {unparse(d)} and not the converter-encoded return value", node=c, instance="ActorResult.data")
        e = kwv.get("exception")
        ctx.check(isinstance(e, ast.Name) and e.id in {"exception", "exc"}, rule, ar, "ActorResult.exception = caught exception", "caught exception",
                  f"ActorResult.exception is {unparse(e)}", node=c, instance="ActorResult.exception")
        for k in ("started_when",):
            v = kwv.get(k)
            ctx.check(isinstance(v, ast.Name) and any(isinstance(x, ast.Call) and (dotted(x.func) or "").endswith("time_ns") for x in C.local_defs(ar, v.id)), rule, ar,
                      f"ActorResult.{k} from the clock before the run", "start time", f"ActorResult.{k} is {unparse(v)}", node=c, instance=f"ActorResult.{k}")
        v = kwv.get("finished_when")
        ctx.check(isinstance(v, ast.Call) and (dotted(v.func) or "").endswith("time_ns"), rule, ar, "ActorResult.finished_when read at the end", "finish time",
                  f"ActorResult.finished_when is {unparse(v)}", node=c, instance="ActorResult.finished_when")
    # eager stores
    for name, want_success in (("set_result", True), ("set_exception", False)):
        f = ctx.func(f"{C.MSGDEP}.{name}")
        inner = C.nested_of(f, "_inner") or C.nested_of(f, None, want_async=True)
        ctx.require(inner is not None, f"{f.qualname}: nested store coroutine _inner not found")
        st = [c for c in ast.walk(inner.node) if isinstance(c, ast.Call) and isinstance(c.func, ast.Attribute) and c.func.attr == "store_bucket"]
        ctx.require(len(st) == 1, f"{inner.qualname}: store_bucket call not found")
        idv = C.arg(st[0], 0, "id_")
        ctx.check((dotted(idv) or "").endswith("parameters.result.id_"), rule, f, f"{name}: stored under result.id_", "the job's result id",
                  f"{name} stores under {unparse(idv)}", node=st[0], instance=f"{name}: id")
        pl = C.arg(st[0], 1, "payload")
        ok = isinstance(pl, ast.Call) and (dotted(pl.func) or "").endswith("BUCKET_CLASS")
        if not ctx.check(ok, rule, f, f"{name}: payload is a bucket of the results broker", "bucket", f"{name} payload {unparse(pl)[:60]}", node=st[0], instance=f"{name}: payload"):
            continue
        kw = _kwmap(pl)
        param = [p.arg for p in f.params()][1]
        exp = {
            "success": lambda v, w=want_success: C.is_const(v, w),
            "started_when": lambda v: (dotted(v) or "").endswith("_actor_processing_started_when"),
            "finished_when": lambda v: isinstance(v, ast.Call) and (dotted(v.func) or "").endswith("time_ns"),
            "ttl": lambda v: (dotted(v) or "").endswith("parameters.result.ttl"),
        }
        if want_success:
            exp["exception"] = lambda v: C.is_const(v, None)
            exp["data"] = lambda v: isinstance(v, ast.Name) and any(isinstance(x, ast.Call) and isinstance(x.func, ast.Attribute) and x.func.attr == "convert_outputs"
                                                                   and param in C.names_in(x) for x in C.local_defs(f, v.id))
        else:
            exp["exception"] = lambda v: isinstance(v, ast.Attribute) and v.attr == "__name__" and isinstance(v.value, ast.Call) and dotted(v.value.func) == "type" and dotted(v.value.args[0]) == param
            exp["data"] = lambda v: isinstance(v, ast.Call) and dotted(v.func) == "str" and dotted(v.args[0]) == param
        for k, pred in exp.items():
            v = kw.get(k)
            ctx.check(v is not None and pred(v), rule, f, f"{name}: bucket.{k}", f"{k} = {unparse(v) if v is not None else ''}",
                      f"MessageDependency.{name} fills {k} with {unparse(v) if v is not None else '<missing>'}", node=pl, instance=f"{name}.{k}")
    # Job side
    j = ctx.func("repid.job.Job.result")
    gb = [c for c in ast.walk(j.node) if isinstance(c, ast.Call) and isinstance(c.func, ast.Attribute) and c.func.attr == "get_bucket"]
    ctx.require(len(gb) == 1, f"{j.qualname}: get_bucket call not found")
    ctx.check(dotted(C.arg(gb[0], 0, "id_")) == "self.result_id" and "_rb" in (dotted(gb[0].func) or ""), rule, j, "Job.result reads result_id from the results broker",
              "same id, results broker", f"Job.result reads {unparse(gb[0])[:80]}", node=gb[0], instance="Job.result id")
    gj = ctx.cfg(j)
    fetch = [n.id for n in gj.calls() if isinstance(n.ast.func, ast.Attribute) and n.ast.func.attr == "get_bucket"]
    rets_j = [n.id for n in gj.nodes if n.kind == "return"]
    self_stores = [n for n in gj.nodes if n.kind == "store" and (n.target or "").startswith("self.")]
    ctx.check(bool(fetch) and all(flow.must_pass(gj, gj.entry.id, [r_], fetch, flow.NORMAL_KINDS) for r_ in rets_j) and not self_stores, rule, j,
              "Job.result asks the results broker on every read", "no cached copy on the job object",
              "Job.result can answer without fetching the bucket (a copy kept on the Job object): after a retry or the next recurring run has overwritten the stored result the same Job "
              "object keeps returning the outcome of an earlier execution", instance="Job.result not cached")
    cp = ctx.func("repid.job.Job._construct_parameters")
    rcons = C.constructions(ctx, cp, [cp.node], "RESULT_CLASS")
    ctx.require(len(rcons) == 1, f"{cp.qualname}: RESULT_CLASS(...) not found")
    rc = [rcons[0][0]]
    ctx.check(dotted(rcons[0][1].get("id_")) == "self.result_id" and dotted(rcons[0][1].get("ttl")) == "self.result_ttl", rule, cp,
              "RESULT_CLASS(id_=self.result_id, ttl=self.result_ttl)", "the id Job.result reads, the configured ttl",
              f"Job._construct_parameters builds result settings {unparse(rc[0])[:100]}", node=rc[0], instance="job result settings")
    ji = ctx.func("repid.job.Job.__init__")
    for attr in ("result_ttl", "result_id", "store_result"):
        sv = C.stored_value(ji, f"self.{attr}")
        st = [sv] if sv is not None else []
        want = {"result_ttl": ["result_ttl"], "result_id": ["result_id if isinstance(result_id, str) else uuid.uuid4().hex"],
                "store_result": ["self._conn.results_bucket_broker is not None if store_result is None else store_result"]}[attr]

        def canon(e):
            t = C.negate_aware_ifexp(e)
            return unparse(e) if t is None else f"{unparse(t[1])} if {unparse(t[0])} else {unparse(t[2])}"

        ctx.check(len(st) == 1 and canon(st[0]) in [canon(ast.parse(w_, mode="eval").body) for w_ in want], rule, ji, f"Job keeps {attr} as configured", want[0],
                  f"Job.__init__ stores {attr} = {unparse(st[0]) if st else '?'}: the configured value (e.g. an explicit None = keep forever) is replaced", instance=f"Job.{attr}")
    # ... only when store_result
    par = [C.negate_aware_ifexp(n) for n in ast.walk(cp.node) if isinstance(n, ast.IfExp) and any(x is rc[0] for x in ast.walk(n))]
    ok = len(par) == 1 and dotted(par[0][0]) == "self.store_result" and C.is_const(par[0][2], None) and any(x is rc[0] for x in ast.walk(par[0][1]))
    if not par:
        # the construction lives in a helper method: it must be unreachable there (or at the call) when results are disabled
        for cal in [c_ for c_ in ctx.res.callees(cp, rc[0], record=False) if c_.cls is not None and c_.cls.qualname == cp.cls.qualname]:
            hg = ctx.cfg(cal)
            env_off = {"*sr": lambda t, n: False if dotted(n) == "self.store_result" else None}
            r_off = flow.reach_under(hg, env_off, flow.NORMAL_KINDS)
            builds = [n for n in hg.calls() if isinstance(n.ast.func, ast.Attribute) and n.ast.func.attr == "RESULT_CLASS"]
            rets_off = [n for n in hg.nodes if n.kind == "return" and n.id in r_off]
            ok = bool(builds) and not any(b.id in r_off for b in builds) and all(C.is_const(n.ast.value, None) for n in rets_off) and bool(rets_off)
    ctx.check(ok, rule, cp, "result settings only when store_result", "None when results are disabled",
              "Job._construct_parameters does not make the result settings conditional on store_result (None otherwise)", node=rc[0], instance="job store_result switch")


def eager_safe(ctx: Ctx, rule="R-C13-EAGER-SAFE") -> None:
    n = 0
    for action in EAGER:
        f = ctx.func(f"{C.MSGDEP}.{action}")
        # helpers of MessageDependency itself are inlined (the broker call in Message.<action> is not)
        g = flow.inline(f, ctx.res, ctx.depth, lambda n, cal: cal.cls is not None and cal.cls.qualname == C.MSGDEP)
        aw = await_map(g)
        sup = [c for c in g.calls() if c.func is f and any(cal.cls is not None and cal.cls.qualname == C.MESSAGE and cal.name == action
                                                            for cal in ctx.res.callees(f, c.ast))]
        if not sup or sup[0].id not in aw:
            continue  # reported by R-C16-EAGER
        n += 1
        after = flow.reach(g, [aw[sup[0].id].id], flow.NORMAL_KINDS)
        leaks = [g.nodes[i] for i in sorted(after) if flow.is_suspension(g.nodes[i]) and g.xexit.id in flow.reach(g, [i], ("exc",))]
        for lk in leaks:
            ctx.fail(rule, f, f"{lk.label} may raise after the disposition in MessageDependency.{action}",
                     f"after super().{action}() has disposed the message, an exception from {lk.label} (a callback or the result store failing) "
                     "leaves the eager action as an ordinary exception: actor_run records an actor failure and the ladder applies a second "
                     "disposition (e.g. re-queues an already acked message)", node=lk, instance=f"eager {action}: exception after disposition")
        if not leaks:
            ctx.ok(rule, f"eager {action}: exception after disposition", "no ordinary exception can leave the action after the broker call")
        cbs = [c for c in g.calls() if c.func is f and (c.callee or "").endswith("__execute_callbacks")]
        if cbs:
            ctx.check(all(flow.must_pass(g, g.entry.id, [c.id], [aw[sup[0].id].id], flow.NORMAL_KINDS) for c in cbs), "R-C13-ORDER", f,
                      f"callbacks (result store) after the broker call in MessageDependency.{action}", "disposition first, then the result store",
                      f"MessageDependency.{action} runs the callbacks - including the result store - before the broker call: a failing store "
                      "prevents the disposition the actor asked for", node=cbs[0], instance=f"eager {action}: store after disposition")
    ctx.floor(rule, n, 6, "eager actions analysed")


def validate(ctx: Ctx, rule="R-C13-VALIDATE") -> None:
    f = ctx.func("repid.connection.Connection.__post_init__")
    g = ctx.cfg(f)
    probes = [n for n in g.calls() if (n.callee or "").endswith("results_bucket_broker.BUCKET_CLASS")]
    inst = [n for n in g.calls() if n.callee == "isinstance" and len(n.ast.args) == 2 and (dotted(n.ast.args[1]) or "").endswith("ResultBucketT")]
    raises = [n for n in g.nodes if n.kind == "raise" and isinstance(n.ast, ast.Raise) and isinstance(n.ast.exc, ast.Call) and dotted(n.ast.exc.func) == "ValueError"]
    ctx.check(bool(probes) and bool(inst) and bool(raises), rule, f, "results broker bucket class probed against ResultBucketT",
              "constructor probe + isinstance + ValueError", "Connection.__post_init__ no longer validates that the results broker builds ResultBucketT",
              instance="Connection validation")
    if probes and raises:
        ex = flow.reach(g, [probes[0].id], ("exc",))
        ex |= flow.reach(g, ex, flow.NORMAL_KINDS + ("raise",))
        ctx.check(any(r.id in ex for r in raises), rule, f, "failing probe -> ValueError", "a wrong bucket class is rejected at construction",
                  "a failing bucket-class probe does not end in ValueError", instance="Connection validation raises")


def config_buckets(ctx: Ctx, rule="R-C13-VALIDATE") -> None:
    """Connection._update_from_config gives every broker the class that belongs to its role: args broker <- Config.BUCKET, results broker <- Config.RESULT_BUCKET
    (a results broker that builds ArgsBucket objects cannot store any outcome: every result store fails)."""
    f = ctx.func("repid.connection.Connection._update_from_config")
    want = {"self.args_bucket_broker.BUCKET_CLASS": "Config.BUCKET", "self.results_bucket_broker.BUCKET_CLASS": "Config.RESULT_BUCKET",
            "self.message_broker.PARAMETERS_CLASS": "Config.PARAMETERS", "self.message_broker.ROUTING_KEY_CLASS": "Config.ROUTING_KEY"}
    got = {}
    for a in ast.walk(f.node):
        if isinstance(a, ast.Assign):
            for t in a.targets:
                d = dotted(t)
                if d in want:
                    src = sorted({dotted(x) for x in ast.walk(C.inline_locals(f, a.value, calls="all") or a.value) if isinstance(x, ast.Attribute) and (dotted(x) or "").startswith("Config.")})
                    got[d] = src
    for tgt, cfg in want.items():
        ctx.check(got.get(tgt) == [cfg], rule, f, f"{tgt} <- {cfg}", "class of the broker's own role",
                  f"Connection._update_from_config sets {tgt} from {got.get(tgt) or 'nothing'} instead of {cfg}: the broker builds objects of another role's class "
                  "(e.g. a results broker building argument buckets - no result can be stored any more)", instance=f"config: {tgt.split('.')[1]}.{tgt.split('.')[2]}")


def redis_bucket_expiry(ctx: Ctx, rule: str) -> None:
    """Redis deletes a bucket at the absolute time timestamp + ttl (the same `timestamp + ttl` every expiry decision uses), never without a ttl."""
    rd = "repid.connections.redis.bucket_broker.RedisBucketBroker"
    st = ctx.func(f"{rd}.store_bucket")
    sc = [c for c in ast.walk(st.node) if isinstance(c, ast.Call) and dotted(c.func) == "self.conn.set"]
    ctx.require(len(sc) == 1, f"{st.qualname}: the SET call not found")
    rel = [k.arg for k in sc[0].keywords if k.arg in ("ex", "px", "pxat", "keepttl")]
    ex = C.kw(sc[0], "exat")
    if isinstance(ex, ast.Name) and C.stored_value(st, ex.id) is not None:
        ex = C.stored_value(st, ex.id)  # computed into a local, by one assignment or by the two arms of an if/else
    ex = C.call_as_expr(ctx, st, C.inline_locals(st, ex, calls="all"))
    t = C.negate_aware_ifexp(ex) if ex is not None else None
    ok = not rel and t is not None and isinstance(t[0], ast.Compare) and dotted(t[0].left) == "payload.ttl" and C.is_const(t[0].comparators[0], None) and C.is_const(t[1], None) \
        and isinstance(t[2], ast.BinOp) and isinstance(t[2].op, ast.Add) and {dotted(t[2].left), dotted(t[2].right)} == {"payload.timestamp", "payload.ttl"}
    ctx.check(ok, rule, st, "redis bucket expiry = timestamp + ttl, none without ttl", "exat=payload.timestamp + payload.ttl if ttl is not None else None",
              f"redis store_bucket expires the bucket with {'exat=' + unparse(ex) if ex is not None else ', '.join(k.arg + '=' + unparse(k.value) for k in sc[0].keywords if k.arg in rel) or '<nothing>'}: "
              "the bucket does not expire at timestamp + ttl like every other expiry decision (a time-to-live counted from the moment of storing outlives is_overdue; none at all never expires)",
              node=sc[0], instance="redis expiry")


def single_store_attempt(ctx: Ctx, rule="R-C13-ORDER") -> None:
    """An execution writes its outcome at most once, right away: a store repeated later (retry loop with a back-off) can land after the NEXT execution of the same message stored its
    outcome, and the bucket then holds the older one."""
    f = ctx.func(f"{C.PROCESSOR}.set_result_bucket")
    g = ctx.icfg(f)
    stores = [n for n in g.calls() if C.bucket_op(ctx, n, ("store_bucket",))]
    ctx.require(bool(stores), f"{f.qualname}: store_bucket call not found")
    looped = [s for s in stores if s.id in flow.reach(g, [s.id], flow.ALL_KINDS)]
    sleeps = [n for n in g.calls() if (n.callee or "").endswith("sleep")]
    ctx.check(not looped and not sleeps, rule, f, "one store attempt per execution, no waiting", "store_bucket is not on a cycle; no sleep in set_result_bucket",
              f"set_result_bucket {'repeats store_bucket in a loop' if looped else 'sleeps'}: a store that succeeds late can overwrite the outcome the next execution of the same message has stored in the "
              "meantime - the bucket then holds an older execution's outcome", node=(looped or sleeps)[0] if (looped or sleeps) else None, instance="result stored once")


def redis_get_reads_server(ctx: Ctx, rule: str) -> None:
    """Every bucket a Redis get_bucket() returns was read from the server by this very call: another connection (the producer, another worker) may have rewritten or deleted the
    key since - a bucket remembered in the broker object is somebody's older arguments / an older outcome."""
    gb = ctx.func("repid.connections.redis.bucket_broker.RedisBucketBroker.get_bucket")
    g = ctx.icfg(gb)
    reads = [n.id for n in g.calls() if (n.callee or "") == "self.conn.get"]
    ctx.require(bool(reads), f"{gb.qualname}: GET not found")
    rets = [n for n in g.nodes if n.kind == "return" and n.func is gb and isinstance(n.ast, ast.Return) and n.ast.value is not None and not C.is_const(n.ast.value, None)]
    bad = [r for r in rets if not flow.must_pass(g, g.entry.id, [r.id], reads, flow.NORMAL_KINDS)]
    ctx.check(bool(rets) and not bad, rule, gb, "redis get_bucket: every returned bucket was just read from the server", "GET on every path to a non-None return",
              f"redis get_bucket can return `{unparse(bad[0].ast.value)[:60] if bad else '?'}` without asking the server: a bucket rewritten or deleted through another connection since it was "
              "remembered is served stale (the worker runs a job with an earlier job's arguments / Job.result shows an older outcome)", node=bad[0] if bad else None, instance="redis get reads the server")


def bucket_brokers(ctx: Ctx, rule="R-C13-FIELDS") -> None:
    """store under the id / read the same id back, in both bucket brokers; Redis expiry from timestamp + ttl."""
    im = "repid.connections.in_memory.bucket_broker.InMemoryBucketBroker"
    init0 = ctx.func(f"{im}.__init__")
    # the storage is recognised by role: the attribute __init__ initialises with an empty dict
    stores = [dotted(t) for n in ast.walk(init0.node) if isinstance(n, (ast.Assign, ast.AnnAssign)) and n.value is not None
              and ((isinstance(n.value, ast.Dict) and not n.value.keys) or (isinstance(n.value, ast.Call) and dotted(n.value.func) == "dict" and not n.value.args))
              for t in (n.targets if isinstance(n, ast.Assign) else [n.target]) if (dotted(t) or "").startswith("self.")]
    if not stores:
        # not created in __init__: a class-body dict is one object shared by every broker (args and result brokers overwrite each other) - reported, then analysed as the storage
        c0 = ctx.prog.classes[im]
        shared_ = [k for k, v in c0.attrs.items() if isinstance(v, ast.Dict) or (isinstance(v, ast.Call) and dotted(v.func) == "dict")]
        ctx.check(not shared_, rule, init0, "in-memory bucket storage is per broker object", "self.<storage> = {} in __init__",
                  f"the in-memory bucket storage {shared_} is a class-body dict shared by every InMemoryBucketBroker: the args broker and the result broker (and other connections) overwrite each "
                  "other's buckets, so the bucket under a result id need not hold that execution's outcome", instance="in-memory storage per instance")
        stores = ["self." + k for k in shared_[:1]]
    ctx.require(len(stores) == 1, f"{im}.__init__: the bucket storage dict not found (candidates {stores})")
    S = stores[0]
    st = ctx.func(f"{im}.store_bucket")
    asg = [n for n in ast.walk(st.node) if isinstance(n, ast.Assign) and isinstance(n.targets[0], ast.Subscript)]
    ok = len(asg) == 1 and dotted(asg[0].targets[0].slice) == "id_" and C.utext(st, asg[0].value) == "payload" and C.utext(st, asg[0].targets[0].value) == S
    ctx.check(ok, rule, st, "in-memory store_bucket: storage[id_] = payload", "each store overwrites the bucket of that id", f"in-memory store_bucket does {unparse(asg[0]) if asg else 'nothing'}", instance="in-memory store")
    gb = ctx.func(f"{im}.get_bucket")
    rets = [r for r in C.own_returns(gb)]
    rv = C.inline_locals(gb, rets[0].value, calls="all") if len(rets) == 1 and rets[0].value is not None else None
    ok = isinstance(rv, ast.Call) and isinstance(rv.func, ast.Attribute) and rv.func.attr == "get" and rv.args and dotted(rv.args[0]) == "id_" \
        and unparse(rv.func.value) == S and (len(rv.args) < 2 or C.is_const(rv.args[1], None)) and not rv.keywords
    ctx.check(ok, rule, gb, "in-memory get_bucket: storage.get(id_)", "reads the bucket of that id", f"in-memory get_bucket returns {unparse(rv) if rv is not None else '?'}", instance="in-memory get")
    init = ctx.func(f"{im}.__init__")
    bcv = C.stored_value(init, "self.BUCKET_CLASS")
    bcv = C.call_as_expr(ctx, init, bcv) if bcv is not None else None  # the choice may live in a small helper
    t = C.negate_aware_ifexp(bcv) if bcv is not None else None
    ok = t is not None and dotted(t[0]) == "use_result_bucket" and dotted(t[1]) == "ResultBucket" and dotted(t[2]) == "ArgsBucket"
    ctx.check(ok, rule, init, "results broker builds ResultBucket", "ResultBucket if use_result_bucket else ArgsBucket", "in-memory bucket broker's bucket class selection changed", instance="in-memory bucket class")
    rd = "repid.connections.redis.bucket_broker.RedisBucketBroker"
    st = ctx.func(f"{rd}.store_bucket")
    sc = [c for c in ast.walk(st.node) if isinstance(c, ast.Call) and dotted(c.func) == "self.conn.set"]
    ok = len(sc) == 1 and dotted(sc[0].args[0]) == "id_" and C.utext(st, sc[0].args[1], calls="all") == "payload.encode()"
    ctx.check(ok, rule, st, "redis store_bucket: SET id_ <encoded bucket>", "set(id_, payload.encode())", f"redis store_bucket does {unparse(sc[0])[:80] if sc else 'nothing'}", instance="redis store")
    redis_bucket_expiry(ctx, rule)
    gb = ctx.func(f"{rd}.get_bucket")
    gc = [c for c in ast.walk(gb.node) if isinstance(c, ast.Call) and dotted(c.func) == "self.conn.get"]
    dc = [c for c in ast.walk(gb.node) if isinstance(c, ast.Call) and dotted(c.func) == "self.BUCKET_CLASS.decode"]
    ok = len(gc) == 1 and dotted(gc[0].args[0]) == "id_" and len(dc) == 1 and C.utext(gb, dc[0].args[0]).endswith(".decode()")
    ctx.check(ok, rule, gb, "redis get_bucket: GET id_ -> BUCKET_CLASS.decode", "reads and decodes the bucket of that id", "redis get_bucket does not read id_ and decode it with the broker's bucket class", instance="redis get")
    redis_get_reads_server(ctx, rule)
