"""C06 - Recurring jobs: exactly one successor per run, on a steady cadence."""
from __future__ import annotations

import ast

from .. import flow
from ..engine import Ctx
from ..model import dotted, unparse
from . import common as C
from .ladder import check_ladder, check_ladder_arguments, check_prepare_reschedule
from .shared import _mentions
from .C02 import race

SUMMARY = "Ladder rows for recurring jobs, transfer function of _prepare_reschedule, provenance of the period-grid anchor."
DECIDED = [
    "R-C06-LADDER: for recurring jobs (defer_by or cron set) success and failure-without-budget map to exactly one "
    "requeue(_prepare_reschedule()), never ack/nack, failure-with-budget to the retry requeue (one successor, never none, never two)",
    "R-C06-RESET: _prepare_reschedule resets already_tried to 0, restarts the time-to-live clock (timestamp := now) and "
    "sets next_execution_time from compute_next_execution_time, all on a copy; Message.reschedule and the processor requeue that result",
    "R-C06-ANCHOR: the field compute_next_execution_time uses as the origin of the period grid must not be overwritten "
    "on reschedule by a value unrelated to the previous grid (def-use rule for the cadence)",
    "R-C06-FIRST: (no due time is carried as timedelta.seconds without .days - whole days are not dropped;) the job's deferred_until reaches delay_until, and compute_next_execution_time returns delay_until "
    "first while it is still ahead",
    "R-C06-ONE (reuse): every iteration ends in an outcome (C02's CATCH) and a finished iteration is not also handed back at shutdown (C03's SHUTDOWN)",
    "R-C06-RESET (round 5): Redis requeue really overwrites the stored parameters (HSET, not HSETNX); R-C06-ANCHOR (period form): floor + 1 of C19 reused - the successor is strictly after now also exactly on a slot boundary",
    "R-C06-ONE (round 6): an exhausted eager retry reaches the ladder's reschedule branch (retry() does not dead-letter); RabbitMQ requeue uses the failed delivery's tag before it publishes the copy",
    "R-C06-AWAITED: in the files this property is anchored in, no bare statement calls a coroutine function (the operation would never run)",
]
NOT_DECIDED = ["the period arithmetic itself (strictly in the future, at most one period ahead): runtime values, see C19"]
ASSUMPTIONS = ["exactly-one-requeue per run relies on C02 (one disposition) and C01 (requeue replaces the held message)"]


def run(ctx: Ctx) -> None:
    from .shared import every_operation_awaited

    every_operation_awaited(ctx, "R-C06-AWAITED")  # in the files this property is anchored in, no asynchronous operation is created and dropped
    lt = check_ladder(ctx, "R-C06-LADDER", rows=lambda s, b, d, c: d or c)
    check_ladder_arguments(ctx, "R-C06-LADDER", lt, kinds=("reschedule",))
    info = check_prepare_reschedule(ctx, "R-C06-RESET")
    message_reschedule(ctx)
    anchor(ctx, info)
    first_run(ctx)
    race(ctx, "R-C06-ONE")
    from .C02 import catch
    from .C03 import shutdown

    with ctx.as_rule("R-C06-ONE"):
        catch(ctx, "R-C06-ONE")  # an iteration always ends in an outcome (never escapes process()), so the reschedule branch is always reached: never no successor
        shutdown(ctx, "R-C06-ONE")  # a finished iteration's message is not also handed back by finish(): never two successors  # a run that completed must not also be returned to the queue: that would leave two successors
    from .brokers import rabbit_rules

    rabbit_rules(ctx, rule_t="R-C06-ONE", rule_a="R-C06-ONE", atomic_finding=False)  # the retry / successor copy is published after the old delivery's tag was used: a stale iteration cannot come back and produce a second successor
    from .shared import eager_action_rules

    eager_action_rules(ctx, "R-C06-ONE")  # an exhausted eager retry must reach the ladder's reschedule branch (never no successor): retry() does not dead-letter on its own
    from .brokers import redis_op_fields
    from .C19 import period

    redis_op_fields(ctx, "R-C06-RESET")  # the successor's parameters (counter 0, fresh timestamp) are really stored by requeue (HSET overwrites the stored hash)
    with ctx.as_rule("R-C06-ANCHOR"):
        period(ctx, "R-C06-ANCHOR")  # floor + 1: strictly after now and a whole period after the slot that just ran, also exactly on a slot boundary
    from .delay import whole_duration_rule

    from .C05 import rounding

    with ctx.as_rule("R-C06-FIRST"):
        rounding(ctx, "R-C06-FIRST")  # the first run is not delivered before deferred_until by a rounding of the due time or of the consumer's clock
    whole_duration_rule(ctx, "R-C06-FIRST")  # a due time carried as timedelta.seconds loses whole days: the first run would come days early


def message_reschedule(ctx: Ctx) -> None:
    f = ctx.func(f"{C.MESSAGE}.reschedule")
    calls = [n for n in ast.walk(f.node) if isinstance(n, ast.Call) and isinstance(n.func, ast.Attribute) and n.func.attr == "requeue"]
    ctx.require(len(calls) == 1, f"{f.qualname}: requeue call not found")
    c = calls[0]
    p = C.arg(c, 2, "params")
    ok = isinstance(p, ast.Call) and isinstance(p.func, ast.Attribute) and p.func.attr == "_prepare_reschedule" and dotted(p.func.value) == "self.parameters"
    ctx.check(ok, "R-C06-RESET", f, "Message.reschedule requeues self.parameters._prepare_reschedule()", "successor parameters",
              f"Message.reschedule requeues {unparse(p)[:80]} instead of self.parameters._prepare_reschedule()", node=c, instance="Message.reschedule params")
    ctx.check(dotted(C.arg(c, 0, "key")) == "self._key" and dotted(C.arg(c, 1, "payload")) == "self.raw_payload", "R-C06-RESET", f,
              "Message.reschedule key/payload", "same key and payload", "Message.reschedule does not requeue its own key and payload", node=c,
              instance="Message.reschedule key/payload")


def anchor(ctx: Ctx, info: dict) -> None:
    rule = "R-C06-ANCHOR"
    f = ctx.func(f"{C.PARAMS}.compute_next_execution_time")
    # anchor fields: self attributes read by the return expression of the defer_by branch (delay.* and `now` excluded)
    rets = [n for n in ast.walk(f.node) if isinstance(n, ast.Return) and n.value is not None]
    anchors: set[str] = set()
    for r in rets:
        exprs = C.expand_locals(f, r.value)
        if not any(_mentions(x, "defer_by") for x in exprs):
            continue
        for x in [r.value]:
            for a in ast.walk(x):
                if isinstance(a, ast.Attribute) and isinstance(a.value, ast.Name) and a.value.id == "self" and a.attr != "delay":
                    anchors.add(a.attr)
    ctx.require(bool(anchors), f"{f.qualname}: grid anchor of the defer_by branch not recognised")
    g = info["func"]
    for field in sorted(anchors):
        for obj, val, node in info["stores"].get(field, []):
            related = any(_mentions(x, field, "next_execution_time", "compute_next_execution_time") for x in C.expand_locals(g, val))
            ctx.check(related, rule, g, f"{field} := {unparse(val)} in _prepare_reschedule",
                      "the new grid origin is derived from the previous grid",
                      f"_prepare_reschedule overwrites the period-grid origin '{field}' with {unparse(val)}, unrelated to the previous grid: "
                      "the next iteration's grid is anchored at an arbitrary finishing instant, so consecutive scheduled times can be "
                      "less than one period apart", node=node, instance=f"grid anchor '{field}' provenance")


def first_run(ctx: Ctx, rule: str = "R-C06-FIRST") -> None:
    f = ctx.func("repid.job.Job._construct_parameters")
    cons = C.constructions(ctx, f, [f.node], "DELAY_CLASS")
    ctx.require(len(cons) == 1, f"{f.qualname}: DELAY_CLASS(...) construction not found")
    dc = [cons[0][0]]
    for kwname, src in (("delay_until", "self.deferred_until"), ("defer_by", "self.deferred_by"), ("cron", "self.cron")):
        v = cons[0][1].get(kwname)
        ctx.check(dotted(v) == src, rule, f, f"DELAY_CLASS({kwname}=...)", f"{kwname} <- {src}",
                  f"Job._construct_parameters passes {kwname}={unparse(v) if v is not None else '<missing>'} instead of {src}", node=dc[0],
                  instance=f"job delay mapping {kwname}")
    f = ctx.func(f"{C.PARAMS}.compute_next_execution_time")
    g = ctx.cfg(f)
    rets = [n for n in g.nodes if n.kind == "return"]

    def env(until_set, until_ahead):
        def fn(text, node):
            if isinstance(node, ast.Compare):
                l, r = node.left, node.comparators[0]
                if isinstance(node.ops[0], ast.Is) and isinstance(r, ast.Constant) and r.value is None and _mentions(l, "delay_until"):
                    return not until_set
                if isinstance(node.ops[0], (ast.Gt, ast.Lt)) and (_mentions(l, "delay_until") or _mentions(r, "delay_until")):
                    other = r if _mentions(l, "delay_until") else l
                    is_now = any(isinstance(d, ast.Call) and (dotted(d.func) or "").endswith("datetime.now") for x in C.expand_locals(f, other) for d in ast.walk(x))
                    if not is_now:
                        return None
                    left_is_until = _mentions(l, "delay_until")
                    gt = isinstance(node.ops[0], ast.Gt)
                    # delay_until > now  <=> ahead
                    return until_ahead if (left_is_until == gt) else (not until_ahead)
            return None
        return {"*until": fn}

    r = flow.reach_under(g, env(True, True), flow.NORMAL_KINDS)
    got = [n for n in rets if n.id in r]
    ok = len(got) == 1 and C.utext(f, got[0].ast.value).endswith("delay.delay_until")
    ctx.check(ok, rule, f, "delay_until still ahead -> returned", "the first run honours deferred_until",
              f"compute_next_execution_time with delay_until ahead of now returns {[unparse(n.ast.value) for n in got]} instead of delay_until",
              instance="delay_until ahead")
    r = flow.reach_under(g, env(True, False), flow.NORMAL_KINDS)
    got = [n for n in rets if n.id in r and C.utext(f, n.ast.value).endswith("delay.delay_until")]
    ctx.check(not got, rule, f, "elapsed delay_until not returned", "an elapsed deferred_until does not schedule into the past",
              "compute_next_execution_time returns delay_until although it has already passed (the successor is scheduled in the past and the slot runs twice)",
              instance="delay_until elapsed")
    # the comparison must be against the current time
    cmps = [c for c in ast.walk(f.node) if isinstance(c, ast.Compare) and isinstance(c.ops[0], (ast.Gt, ast.Lt, ast.GtE, ast.LtE))
            and (_mentions(c.left, "delay_until") or _mentions(c.comparators[0], "delay_until"))]
    if not cmps:
        ctx.fail(rule, f, "delay_until returned without comparing it with the current time",
                 "compute_next_execution_time never compares delay_until with now: an already elapsed deferred_until is returned as the next execution time "
                 "(the message is parked as delayed in the past / the successor of a recurring job is scheduled in the past)", instance="delay_until vs now")
    for c in cmps:
        other = c.comparators[0] if _mentions(c.left, "delay_until") else c.left
        is_now = any(isinstance(d, ast.Call) and (dotted(d.func) or "").endswith("datetime.now") for x in C.expand_locals(f, other) for d in ast.walk(x))
        ctx.check(is_now, rule, f, f"delay_until compared with now: {unparse(c)}", "compared with the current time",
                  f"compute_next_execution_time compares delay_until with {unparse(other)} instead of the current time", node=c,
                  instance="delay_until vs now")
