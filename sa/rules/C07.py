"""C07 - What the producer enqueued is what the consumer receives."""
from __future__ import annotations

import ast
import re

from .. import flow
from ..engine import Ctx
from ..model import AnalysisError, ClassInfo, FuncInfo, dotted, unparse
from . import common as C
from .shared import _mentions
from .brokers import redis_op_fields

SUMMARY = "Writer/reader table agreement: codecs vs field types, job settings vs constructor keywords, wire keys per broker, falsy substitutions, name alphabet vs key separators, bucket marker."
DECIDED = [
    "R-C07-CODEC: for each serialisable dataclass the fields whose type is not JSON-native equal the keys converted in decode, each with the "
    "inverse of the encoder branch for that type; encode = JSON(asdict(self)); decode returns cls(**loaded) dropping only the documented keys; the default serializer and the JSON "
    "encoder dump pydantic models whole (no include/exclude/exclude_unset/exclude_defaults/exclude_none/by_alias option), and every return of the serializer derives from its argument",
    "R-C07-MAP: every constructor keyword of the routing key / parameters is fed by the like-named job setting, none by a constant",
    "R-C07-WIRE: per broker the set of wire keys written equals the set read, fed from / into the same fields (Redis hash fields, AMQP body "
    "keys, headers, properties); the consumers rebuild the routing key from exactly those",
    "R-C07-FALSY: no `x or default` on a wire value whose domain has a legal falsy member (priority 0, empty payload); no duration taken from timedelta.seconds/.microseconds without the .days of the same value",
    "R-C07-ALPHABET: the validators' alphabet (from the regex AST) excludes ':' and glob metacharacters; every split(':') unpacks as many parts as "
    "its constructor joins; every name/id entering a routing key passes a fullmatch of the validators",
    "R-C07-MARKER: construct/check/deconstruct of the bucket marker use one KEY; check is bounded to the start of the payload; the payload fetch "
    "falls back to the inline payload",
    "R-C07-FALSY (tests): on the transport path (job, brokers, consumers, processor) no truthiness test decides about a payload / priority / arguments value - presence is tested with `is None`",
    "R-C07-ALPHABET (prefix): the Redis topic prefixes end with the ':' separator (C11's rule reused)",
    "R-C07-MAP (fresh defaults): ids / timestamps / containers that must differ per object are produced by default_factory (dataclasses) or in the body (functions), never as eager defaults; R-C07-MARKER table row: explicit args_id + args + bucketer -> bucket stored",
    "R-C07-MARKER (round 5): process() hands the delivered payload (the bucket reference), not the resolved arguments, to report_to_broker; R-C07-MAP: no class-body mutable container mutated through self in repid.connections (storage is per broker object)",
    "R-C07-MAP / R-C07-WIRE (round 6 + sweep): the Redis bucket broker reads the server on every get (no cache); RabbitMQ: the key handed out is (message id, header topic, header queue, AMQP priority or MEDIUM)",
    "R-C07-AWAITED: in the files this property is anchored in, no bare statement calls a coroutine function (the operation would never run)",
    "R-C07-ALPHABET / R-C07-WIRE (Redis sweep rules): key templates of qnc / mnc; the Redis broker stores the parameters it was given",
    "R-C07-MAP (sweep stage two): priorities from 0 and durations of exactly one second are valid; an explicit args_id / result_id is the id used",
]
NOT_DECIDED = ["value-level identity decode(encode(x)) == x (float round trip of durations at microsecond precision, timezones)"]
ASSUMPTIONS = ["json round-trips str/int/bool/None; datetime.isoformat/fromisoformat and total_seconds/timedelta(seconds=float) are mutually inverse at the stated precision"]

DATA = ("repid.data._parameters.Parameters", "repid.data._parameters.DelayProperties", "repid.data._parameters.ResultProperties",
        "repid.data._parameters.RetriesProperties", "repid.data._buckets.ArgsBucket", "repid.data._buckets.ResultBucket")


def run(ctx: Ctx) -> None:
    from .shared import every_operation_awaited

    every_operation_awaited(ctx, "R-C07-AWAITED")  # in the files this property is anchored in, no asynchronous operation is created and dropped
    from .shared import job_validation_boundaries

    job_validation_boundaries(ctx, "R-C07-MAP")  # every valid job configuration is accepted; explicit ids are the ids used
    from .brokers import redis_name_constructors

    redis_name_constructors(ctx, "R-C07-ALPHABET")  # key encodings: queue / priority / topic / id joined by ':' in the documented order
    from .brokers import redis_defaults_only_when_missing

    redis_defaults_only_when_missing(ctx, "R-C07-WIRE")  # Redis stores the parameters it was given (defaults only when none were given)
    from .brokers import rabbit_delivery_details

    rabbit_delivery_details(ctx, "R-C07-WIRE")  # RabbitMQ: the key handed to the consumer is (message id, header topic, header queue, AMQP priority) as published
    from .ladder import check_process_passthrough

    check_process_passthrough(ctx, "R-C07-MARKER")  # what is requeued is the delivered payload (the bucket reference), not the resolved arguments
    from .shared import fresh_defaults

    with ctx.as_rule("R-C07-MAP"):
        fresh_defaults(ctx, "R-C07-MAP")  # every routing key / bucket built without an explicit id gets its own
    from .shared import per_instance_state

    per_instance_state(ctx, "R-C07-MAP", ("repid.connections.",), "a bucket (or message) stored by one broker is replaced by what another broker object stores under the same id, so the consumer receives other arguments than were enqueued")
    from .C13 import redis_get_reads_server

    redis_get_reads_server(ctx, "R-C07-MAP")  # argument buckets are read from the server on every delivery (an args_id may be reused with new arguments by another connection)
    codec(ctx)
    mapping(ctx)
    wire(ctx)
    falsy(ctx)
    alphabet(ctx)
    marker(ctx)


# ----------------------------------------------------------------------------- CODEC
def _field_kinds(ctx: Ctx, c: ClassInfo) -> dict[str, str]:
    out = {}
    for name, ann in c.annotations.items():
        txt = unparse(ann)
        if txt.startswith("ClassVar"):
            continue
        types = ctx.res.ann_types(c.module, ann)
        kinds = set()
        for t in types:
            if t == "ext:datetime.datetime":
                kinds.add("datetime")
            elif t == "ext:datetime.timedelta":
                kinds.add("timedelta")
            elif t in ctx.prog.classes and any("dataclass" in unparse(d) for d in ctx.prog.classes[t].node.decorator_list):
                kinds.add("nested:" + ctx.prog.classes[t].name)
        if len(kinds) > 1:
            raise AnalysisError(f"{c.qualname}.{name}: mixed non-native types {kinds}")
        if kinds:
            out[name] = kinds.pop()
    return out


_HELPER_KINDS: dict[str, str] = {}


def _conv_kind(e: ast.AST) -> str:
    if isinstance(e, ast.Call) and isinstance(e.func, ast.Name) and e.func.id in _HELPER_KINDS:
        return _HELPER_KINDS[e.func.id]
    if isinstance(e, ast.Call):
        d = dotted(e.func) or ""
        if d.endswith("datetime.fromisoformat"):
            return "datetime"
        if d.split(".")[-1] == "timedelta" and len(e.keywords) == 1 and e.keywords[0].arg == "seconds" and isinstance(e.keywords[0].value, ast.Call) \
                and dotted(e.keywords[0].value.func) == "float" and not e.args:
            return "timedelta"
        if d.endswith(".decode") and isinstance(e.func, ast.Attribute):
            return "nested:" + (dotted(e.func.value) or "?").split(".")[-1]
    return "other:" + unparse(e)[:50]


def _ref_kind(e: ast.AST) -> str:
    """conversion kind of a callable reference used in a decoder lookup table"""
    d = dotted(e) or ""
    if d.endswith("datetime.fromisoformat"):
        return "datetime"
    if d in _HELPER_KINDS:
        return _HELPER_KINDS[d]
    if d.endswith(".decode"):
        return "nested:" + d.split(".")[-2]
    return "other:" + unparse(e)[:40]


def _register_module_helpers(m) -> None:
    """module-level one-expression converters (`def _timedelta_from_seconds(v): return timedelta(seconds=float(v))`)"""
    _HELPER_KINDS.clear()
    for name, fn in m.functions.items():
        rets = [r for r in ast.walk(fn.node) if isinstance(r, ast.Return) and r.value is not None]
        if len(rets) == 1 and len(fn.params()) == 1:
            k = _conv_kind(rets[0].value)
            if not k.startswith("other:"):
                _HELPER_KINDS[name] = k


def _decode_table(f: FuncInfo, helpers=()) -> dict[str, str]:
    """key -> conversion kind, from `loaded[<key>] = <conv>` assignments and the tests that guard them (also inside helper functions
    that restore fields in place, and through `{key: converter}` lookup tables)."""
    table: dict[str, str] = {}
    # lookup tables: {"k": converter, ...} indexed by the loop key
    for n in ast.walk(f.node):
        if isinstance(n, ast.Dict) and n.keys and all(isinstance(k, ast.Constant) and isinstance(k.value, str) for k in n.keys) \
                and all(isinstance(v, (ast.Name, ast.Attribute)) for v in n.values):
            names = {t.id for a in ast.walk(f.node) if isinstance(a, ast.Assign) and a.value is n for t in a.targets if isinstance(t, ast.Name)}
            used = any(isinstance(c, ast.Call) and isinstance(c.func, ast.Attribute) and c.func.attr == "get" and dotted(c.func.value) in names for c in ast.walk(f.node)) or \
                any(isinstance(s_, ast.Subscript) and dotted(s_.value) in names for s_ in ast.walk(f.node))
            if used:
                for k, v in zip(n.keys, n.values):
                    table[k.value] = _ref_kind(v)
    # ... and lookup tables kept at module level (`_FIELD_DECODERS = {"ttl": _decode_seconds, ...}`; `dec = _FIELD_DECODERS.get(key)`)
    for nm in {x.id for x in ast.walk(f.node) if isinstance(x, ast.Name)}:
        n = f.module.assigns.get(nm)
        if isinstance(n, ast.Dict) and n.keys and all(isinstance(k, ast.Constant) and isinstance(k.value, str) for k in n.keys) \
                and all(isinstance(v, (ast.Name, ast.Attribute)) for v in n.values):
            used = any(isinstance(c, ast.Call) and isinstance(c.func, ast.Attribute) and c.func.attr == "get" and dotted(c.func.value) == nm for c in ast.walk(f.node)) or \
                any(isinstance(s_, ast.Subscript) and dotted(s_.value) == nm for s_ in ast.walk(f.node))
            if used:
                for k, v in zip(n.keys, n.values):
                    table[k.value] = _ref_kind(v)
    for h in helpers:
        table.update(_decode_table(h))

    def keys_of_test(t: ast.AST, keyvar: str) -> list[str]:
        out = []
        for c in ast.walk(t):
            if isinstance(c, ast.Compare) and isinstance(c.left, ast.Name) and c.left.id == keyvar:
                r = c.comparators[0]
                if isinstance(c.ops[0], ast.Eq) and isinstance(r, ast.Constant):
                    out.append(r.value)
                elif isinstance(c.ops[0], ast.In) and isinstance(r, (ast.List, ast.Tuple, ast.Set)):
                    out += [x.value for x in r.elts if isinstance(x, ast.Constant)]
        return out

    def visit(stmts, guards):
        for st in stmts:
            if isinstance(st, ast.If):
                visit(st.body, guards + [st.test])
                visit(st.orelse, guards)
            elif isinstance(st, (ast.For, ast.While, ast.With)):
                visit(st.body, guards)
            elif isinstance(st, ast.Assign):
                for t in st.targets:
                    if isinstance(t, ast.Subscript) and dotted(t.value) == "loaded":
                        if isinstance(t.slice, ast.Constant):
                            table[t.slice.value] = _conv_kind(st.value)
                        elif isinstance(t.slice, ast.Name) and guards:
                            for k in keys_of_test(guards[-1], t.slice.id):
                                table[k] = _conv_kind(st.value)

    visit(f.node.body, [])
    return table


def codec(ctx: Ctx, rule="R-C07-CODEC") -> None:
    enc = ctx.func("repid._utils.json_encoder._RepidJSONEncoder.default")
    g = ctx.cfg(enc)
    branches = {}
    for t in [n for n in ast.walk(enc.node) if isinstance(n, ast.If)]:
        rets = [r for r in t.body if isinstance(r, ast.Return)]
        if rets:
            branches[unparse(t.test)] = unparse(rets[0].value)
    want_enc = {"datetime": ("datetime", "obj.isoformat()"), "timedelta": ("timedelta", "obj.total_seconds()"), "dataclass": ("is_dataclass(obj)", "asdict(obj)")}
    for k, (test_part, ret) in want_enc.items():
        ok = any(test_part in t and r == ret for t, r in branches.items())
        ctx.check(ok, rule, enc, f"encoder branch for {k}", f"{ret}", f"_RepidJSONEncoder.default has no branch `{test_part} -> {ret}` (found {branches})", instance=f"encoder[{k}]")
    # pydantic models are dumped whole: no option that selects, drops or renames fields (the consumer binds by the actor's parameter names
    # and applies the *actor's* defaults to whatever is missing)
    LOSSY = {"include", "exclude", "exclude_unset", "exclude_defaults", "exclude_none", "by_alias", "context"}
    dumps = []
    for q in ("repid.serializer.default_serializer", "repid._utils.json_encoder._RepidJSONEncoder.default"):
        fn = ctx.func(q)
        for c in ast.walk(fn.node):
            if isinstance(c, ast.Call) and isinstance(c.func, ast.Attribute) and c.func.attr in ("model_dump_json", "model_dump", "json", "dict") \
                    and isinstance(c.func.value, ast.Name) and c.func.value.id in [p_.arg for p_ in fn.params()]:
                dumps.append((fn, c))
    ctx.floor(rule, len(dumps), 4, "pydantic dump calls in the serializer and the JSON encoder")
    for fn, c in dumps:
        bad = sorted(k.arg for k in c.keywords if k.arg in LOSSY and not C.is_const(k.value, False) and not C.is_const(k.value, None)) + (["**"] if any(k.arg is None for k in c.keywords) else [])
        ctx.check(not bad, rule, fn, f"{unparse(c.func)}(...) dumps every field", "no field-selecting / renaming option",
                  f"{fn.short()} dumps pydantic models with {unparse(c)}: option(s) {bad} drop or rename fields, so the consumer does not receive the argument values "
                  "that were enqueued (fields left at the model's defaults vanish and the actor's own defaults are applied instead)", node=c,
                  instance=f"{fn.short()}: {c.func.attr} whole model")
    ser = ctx.func("repid.serializer.default_serializer")
    srets = C.own_returns(ser)
    ctx.floor(rule, len(srets), 2, "returns of default_serializer")
    for r_ in srets:
        ok = r_.value is not None and "data" in C.names_in(C.inline_locals(ser, r_.value, calls="all") or r_.value)
        ctx.check(ok, rule, ser, f"default_serializer returns an encoding of data: {unparse(r_.value)[:50] if r_.value else 'None'}", "derived from the argument",
                  f"default_serializer returns {unparse(r_.value) if r_.value else 'None'}, which does not depend on the arguments", node=r_, instance=f"serializer return {unparse(r_.value)[:40] if r_.value else ''}")
    je = ctx.prog.module("repid._utils.json_encoder").assigns.get("JSON_ENCODER")
    ok = isinstance(je, ast.Call) and unparse(C.kw(je, "separators")) == "(',', ':')"
    ctx.check(ok, rule, "repid._utils.json_encoder", "JSON_ENCODER uses compact separators", "(',', ':')", f"JSON_ENCODER is {unparse(je)[:80]} (the bucket-marker window assumes compact output)",
              instance="encoder separators")
    n = 0
    for q in DATA:
        c = ctx.prog.cls(q)
        n += 1
        kinds = _field_kinds(ctx, c)
        dec = ctx.func(f"{q}.decode")
        _register_module_helpers(dec.module)
        table = _decode_table(dec, [h for h in C.helper_callees(ctx, dec) if h.cls is None])
        ctx.check(table == kinds, rule, dec, f"{c.name}.decode converts exactly the non-JSON-native fields", f"{kinds}",
                  f"{c.name}: fields needing conversion by type are {kinds} but decode converts {table}: "
                  f"{sorted(set(kinds) - set(table))} stay raw JSON values / {sorted(set(table) - set(kinds))} are converted without need / kinds differ",
                  instance=f"{c.name}: decode table")
        e = ctx.func(f"{q}.encode")
        rets = [r for r in ast.walk(e.node) if isinstance(r, ast.Return)]
        ok = len(rets) == 1 and unparse(rets[0].value) == "JSON_ENCODER.encode(asdict(self))"
        ctx.check(ok, rule, e, f"{c.name}.encode = JSON_ENCODER.encode(asdict(self))", "all fields, repid encoder", f"{c.name}.encode returns {unparse(rets[0].value) if rets else '?'}",
                  instance=f"{c.name}: encode")
        rets = [r for r in ast.walk(dec.node) if isinstance(r, ast.Return)]
        ok = len(rets) == 1 and unparse(rets[0].value) == "cls(**loaded)"
        ctx.check(ok, rule, dec, f"{c.name}.decode returns cls(**loaded)", "every decoded key reaches the constructor", f"{c.name}.decode returns {unparse(rets[0].value) if rets else '?'}",
                  instance=f"{c.name}: decode return")
        pops = [x for x in ast.walk(dec.node) if isinstance(x, ast.Call) and dotted(x.func) == "loaded.pop"]
        popped = set()
        for p_ in pops:
            for lp in ast.walk(dec.node):
                if isinstance(lp, ast.For) and any(x is p_ for x in ast.walk(lp)) and isinstance(lp.iter, (ast.List, ast.Tuple)):
                    popped |= {x.value for x in lp.iter.elts if isinstance(x, ast.Constant)}
            if p_.args and isinstance(p_.args[0], ast.Constant):
                popped.add(p_.args[0].value)
        allowed = {"started_when", "finished_when", "success", "exception"} if c.name == "ArgsBucket" else set()
        own = set(c.annotations)
        ctx.check(popped <= allowed and not (popped & own), rule, dec, f"{c.name}.decode drops only foreign keys", f"dropped: {sorted(popped)}",
                  f"{c.name}.decode drops {sorted(popped)} (allowed: {sorted(allowed)}): an enqueued setting would be lost", instance=f"{c.name}: dropped keys")
        # None values are passed through
        ld = [x for _, x in C.flat_walk(ctx, dec) if isinstance(x, ast.Call) and dotted(x.func) == "json.loads"]
        ctx.check(len(ld) >= 1, rule, dec, f"{c.name}.decode parses JSON", "json.loads", f"{c.name}.decode does not json.loads its input", instance=f"{c.name}: loads")
    ctx.floor(rule, n, 6, "serialisable dataclasses")


# ----------------------------------------------------------------------------- MAP
def mapping(ctx: Ctx, rule="R-C07-MAP") -> None:
    f = ctx.func("repid.job.Job._construct_routing_key")
    rk = [c for c in ast.walk(f.node) if isinstance(c, ast.Call) and isinstance(c.func, ast.Attribute) and c.func.attr == "ROUTING_KEY_CLASS"]
    ctx.require(len(rk) == 1, f"{f.qualname}: ROUTING_KEY_CLASS(...) not found")
    want = {"topic": "self.name", "queue": "self.queue.name", "priority": "self.priority.value"}
    kw = {k.arg: k.value for k in rk[0].keywords}
    for k, src in want.items():
        ctx.check(dotted(kw.get(k)) == src, rule, f, f"routing key {k} <- {src}", src, f"Job routing key gets {k}={unparse(kw.get(k)) if k in kw else '<default>'} instead of {src}", node=rk[0],
                  instance=f"routing key {k}")
    idv = kw.get("id_")
    ok = isinstance(idv, ast.BoolOp) and isinstance(idv.op, ast.Or) and dotted(idv.values[0]) == "self.id_" and isinstance(idv.values[1], ast.Attribute) and "uuid4" in unparse(idv.values[1])
    ctx.check(ok, rule, f, "routing key id_ <- self.id_ or a fresh uuid", "given id kept", f"Job routing key id_={unparse(idv) if idv is not None else '<default>'}", node=rk[0], instance="routing key id_")
    f = ctx.func("repid.job.Job._construct_parameters")
    pc = [c for c in ast.walk(f.node) if isinstance(c, ast.Call) and C.utext(f, c.func) == "self._conn.message_broker.PARAMETERS_CLASS"]
    ctx.require(len(pc) == 1, f"{f.qualname}: PARAMETERS_CLASS(...) not found")
    kw = {k.arg: k.value for k in pc[0].keywords}
    simple = {"execution_timeout": "self.timeout", "timestamp": "self.timestamp", "ttl": "self.ttl"}
    for k, src in simple.items():
        ctx.check(dotted(kw.get(k)) == src, rule, f, f"parameters {k} <- {src}", src, f"Job parameters get {k}={unparse(kw.get(k)) if k in kw else '<default>'} instead of {src}", node=pc[0],
                  instance=f"parameters {k}")
    nested = {"retries": ("RETRIES_CLASS", {"max_amount": "self.retries"}), "delay": ("DELAY_CLASS", {"delay_until": "self.deferred_until", "defer_by": "self.deferred_by", "cron": "self.cron"}),
              "result": ("RESULT_CLASS", {"id_": "self.result_id", "ttl": "self.result_ttl"})}
    for k, (cls_attr, m) in nested.items():
        v = C.inline_locals(f, kw.get(k), calls="all") if kw.get(k) is not None else None
        cons = C.constructions(ctx, f, [v], cls_attr) if v is not None else []
        if not ctx.check(len(cons) == 1, rule, f, f"parameters {k} built with {cls_attr}", cls_attr, f"Job parameters {k} is {unparse(v)[:60] if v is not None else '<default>'}", node=pc[0],
                         instance=f"parameters {k} class"):
            continue
        calls = [cons[0][0]]
        kk = cons[0][1]
        for a, src in m.items():
            ctx.check(dotted(kk.get(a)) == src, rule, f, f"{k}.{a} <- {src}", src, f"Job parameters {k}.{a}={unparse(kk.get(a)) if a in kk else '<default>'} instead of {src}", node=calls[0],
                      instance=f"parameters {k}.{a}")
        extra = sorted(set(kk) - set(m))
        ctx.check(not extra, rule, f, f"{k}: no constant keyword", "only job settings", f"Job parameters {k} also sets {extra}", node=calls[0], instance=f"parameters {k} extras")
    extra = sorted(set(kw) - set(simple) - set(nested))
    ctx.check(not extra, rule, f, "parameters: no further keyword", "only job settings", f"Job parameters also set {extra}", node=pc[0], instance="parameters extras")
    # Job.__init__ stores what it is given
    init = ctx.func("repid.job.Job.__init__")
    for attr in ("name", "priority", "id_", "deferred_until", "deferred_by", "cron", "retries", "timeout", "ttl", "result_ttl", "args_ttl"):
        st = [n for n in ast.walk(init.node) if isinstance(n, ast.Assign) and any(dotted(t) == f"self.{attr}" for t in n.targets)]
        ctx.check(len(st) == 1 and dotted(st[0].value) == attr, rule, init, f"self.{attr} = {attr}", "setting stored as given", f"Job.__init__ stores {unparse(st[0].value) if st else 'nothing'} as {attr}",
                  instance=f"Job.{attr} stored")
    e = ctx.func("repid.job.Job.enqueue")
    enq = [c for c in ast.walk(e.node) if isinstance(c, ast.Call) and isinstance(c.func, ast.Attribute) and c.func.attr == "enqueue"]
    ctx.require(len(enq) == 1, f"{e.qualname}: broker enqueue not found")
    srcs = []
    for i, nm in enumerate(("key", "payload", "params")):
        a = C.arg(enq[0], i, nm)
        d = C.local_defs(e, a.id) if isinstance(a, ast.Name) else []
        srcs.append(unparse(d[0]) if len(d) == 1 else unparse(a))
    ok = srcs == ["self._construct_routing_key()", "await self._construct_args()", "self._construct_parameters()"]
    ctx.check(ok, rule, e, "enqueue(key, args, parameters) from the three constructors", "constructed values enqueued", f"Job.enqueue sends {srcs}", node=enq[0], instance="Job.enqueue arguments")


# ----------------------------------------------------------------------------- WIRE
def _const_strs(e: ast.AST) -> set[str]:
    return {x.value for x in ast.walk(e) if isinstance(x, ast.Constant) and isinstance(x.value, str)}


def wire(ctx: Ctx, rule="R-C07-WIRE") -> None:
    # ---------- redis
    written: dict[str, set[str]] = {}
    read: dict[str, set[str]] = {}
    for q in (C.REDIS_BROKER, C.REDIS_CONS):
        for m in ctx.prog.cls(q).methods.values():
            for c in ast.walk(m.node):
                if not (isinstance(c, ast.Call) and isinstance(c.func, ast.Attribute)):
                    continue
                a = c.func.attr
                if a in ("hsetnx",) and len(c.args) >= 3 and isinstance(c.args[1], ast.Constant):
                    written.setdefault(c.args[1].value, set()).add(unparse(c.args[2]))
                elif a == "hset":
                    mp = C.kw(c, "mapping")
                    if isinstance(mp, ast.Dict):
                        for k, v in zip(mp.keys, mp.values):
                            if isinstance(k, ast.Constant):
                                written.setdefault(k.value, set()).add(unparse(v))
                    k, v = C.kw(c, "key"), C.kw(c, "value")
                    if isinstance(k, ast.Constant):
                        written.setdefault(k.value, set()).add(unparse(v))
                elif a == "hget" and len(c.args) >= 2 and isinstance(c.args[1], ast.Constant):
                    read.setdefault(c.args[1].value, set()).add(m.short())
                elif a == "hmget":
                    ks = C.kw(c, "keys") or (c.args[1] if len(c.args) > 1 else None)
                    if isinstance(ks, (ast.List, ast.Tuple)):
                        for x in ks.elts:
                            if isinstance(x, ast.Constant):
                                read.setdefault(x.value, set()).add(m.short())
                elif a == "hdel":
                    for x in c.args[1:]:
                        if isinstance(x, ast.Constant):
                            read.setdefault(x.value, set()).add(m.short() + "(hdel)")
    ctx.check(set(written) == set(read) == {"payload", "parameters", "_reject_to"}, rule, C.REDIS_BROKER, "redis hash fields written == read", f"{sorted(written)}",
              f"redis message hash: fields written {sorted(written)} vs fields read {sorted(read)}: the consumer cannot find what the producer stored", instance="redis fields agree")
    ctx.check(written.get("payload") == {"payload"}, rule, C.REDIS_BROKER, "redis 'payload' field <- payload", "payload", f"redis 'payload' field is written from {written.get('payload')}", instance="redis payload source")
    ctx.check(written.get("parameters") == {"params.encode()"}, rule, C.REDIS_BROKER, "redis 'parameters' field <- params.encode()", "params.encode()",
              f"redis 'parameters' field is written from {written.get('parameters')}", instance="redis parameters source")
    redis_op_fields(ctx, rule)
    d = ctx.func(f"{C.REDIS_CONS}.__get_message_details")
    rets = [r for r in ast.walk(d.node) if isinstance(r, ast.Return) and isinstance(r.value, ast.Tuple)]
    ctx.require(len(rets) == 1 and len(rets[0].value.elts) == 3, f"{d.qualname}: (key, payload, parameters) return not found")
    k_, p_, pr_ = rets[0].value.elts
    hg = {}
    for n in ast.walk(d.node):
        if isinstance(n, (ast.Assign, ast.AnnAssign)) and isinstance(n.value, ast.Await) and isinstance(n.value.value, ast.Call) and isinstance(n.value.value.func, ast.Attribute) \
                and n.value.value.func.attr == "hget":
            tgt = n.targets[0] if isinstance(n, ast.Assign) else n.target
            c = n.value.value
            hg[dotted(tgt)] = (unparse(c.args[0]), c.args[1].value if isinstance(c.args[1], ast.Constant) else None)
    tp, tpr = C.utext(d, p_, calls="all", awaits=True), C.utext(d, pr_, calls="all", awaits=True)
    ok = tp.endswith(".decode()") and ("hget(mnc(routing_key), 'payload')" in tp or ("hget(mnc(self.broker.ROUTING_KEY_CLASS(" in tp and "'payload')" in tp))
    ctx.check(ok, rule, d, "redis consumer payload <- hash field 'payload' of the message's own hash", "payload.decode()", f"redis consumer returns payload {unparse(p_)} read via {hg.get('payload')}",
              instance="redis payload read")
    ok = tpr.startswith("self.broker.PARAMETERS_CLASS.decode(") and ("hget(mnc(routing_key), 'parameters')" in tpr or ("hget(mnc(self.broker.ROUTING_KEY_CLASS(" in tpr and "'parameters')" in tpr)) and tpr.endswith(".decode())")
    ctx.check(ok, rule, d, "redis consumer parameters <- decode(hash field 'parameters')", "PARAMETERS_CLASS.decode", f"redis consumer returns parameters {unparse(pr_)[:70]} read via {hg.get('parameters')}",
              instance="redis parameters read")
    rk = [c for c in ast.walk(d.node) if isinstance(c, ast.Call) and isinstance(c.func, ast.Attribute) and c.func.attr == "ROUTING_KEY_CLASS"]
    ctx.require(len(rk) == 1, f"{d.qualname}: ROUTING_KEY_CLASS(...) not found")
    kw = {k.arg: unparse(k.value) for k in rk[0].keywords}
    un0 = [n for n in ast.walk(d.node) if isinstance(n, ast.Assign) and isinstance(n.value, ast.Call) and dotted(n.value.func) == "parse_short_message_name" and isinstance(n.targets[0], ast.Tuple)]
    tnames = [dotted(e) for e in un0[0].targets[0].elts] if un0 else ["?", "?"]
    prio_param = [p.arg for p in d.params()][2]
    ctx.check(kw == {"id_": tnames[1], "topic": tnames[0], "queue": "self.queue_name", "priority": f"{prio_param}.value"}, rule, d, "redis consumer rebuilds the routing key from name parts, queue and priority",
              str(kw), f"redis consumer builds the routing key as {kw}", node=rk[0], instance="redis routing key rebuilt")
    un = [n for n in ast.walk(d.node) if isinstance(n, ast.Assign) and isinstance(n.value, ast.Call) and dotted(n.value.func) == "parse_short_message_name"]
    ok = len(un) == 1 and isinstance(un[0].targets[0], ast.Tuple) and len(un[0].targets[0].elts) == 2
    ctx.check(ok, rule, d, "topic, id_ = parse_short_message_name(...)", "order of the short name", "redis consumer unpacks the short message name in another order than mnc writes it", instance="redis short name order")
    # ---------- rabbitmq
    e = ctx.func(f"{C.RABBIT_BROKER}.enqueue")
    o = ctx.func(f"{C.RABBIT_CONS}.on_new_message")
    mc = [c for c in ast.walk(e.node) if isinstance(c, ast.Call) and dotted(c.func) == "MessageContent"]
    ctx.require(len(mc) == 1, f"{e.qualname}: MessageContent(...) not found")
    def kwtext(v):
        if isinstance(v, ast.Name) and C.stored_value(e, v.id) is not None:
            v = C.stored_value(e, v.id)  # computed into a local first (one assignment or the two arms of an if/else)
        t3 = C.negate_aware_ifexp(v)
        if t3 is not None and isinstance(t3[0], ast.Compare) and isinstance(t3[0].ops[0], ast.Is) and C.is_const(t3[0].comparators[0], None):
            # `<a> if x is None else <b>`: written with the non-None arm first
            return f"{unparse(t3[2])} if {unparse(t3[0].left)} is not None else {unparse(t3[1])}"
        return C.utext(e, v)

    body_w = {k.arg: kwtext(k.value) for k in mc[0].keywords}
    body_r = {s.slice.value for s in ast.walk(o.node) if isinstance(s, ast.Subscript) and dotted(s.value) == "decoded" and isinstance(s.slice, ast.Constant)}
    ctx.check(set(body_w) == body_r == {"payload", "parameters"}, rule, e, "rabbitmq body keys written == read", f"{sorted(body_w)}", f"rabbitmq body: written {sorted(body_w)} vs read {sorted(body_r)}",
              instance="rabbitmq body keys")
    ctx.check(body_w.get("payload") == "payload" and body_w.get("parameters", "").startswith("params.encode()"), rule, e, "rabbitmq body values", "payload, params.encode()",
              f"rabbitmq body is built from {body_w}", instance="rabbitmq body sources")
    pub = [c for c in ast.walk(e.node) if isinstance(c, ast.Call) and isinstance(c.func, ast.Attribute) and c.func.attr == "basic_publish"][0]
    props = C.kw(pub, "properties")
    pw = {k.arg: unparse(k.value) for k in props.keywords} if isinstance(props, ast.Call) else {}
    ctx.check(pw.get("message_id") == "key.id_" and pw.get("priority") == "key.priority", rule, e, "rabbitmq properties message_id/priority <- key", "key.id_, key.priority",
              f"rabbitmq publishes message_id={pw.get('message_id')}, priority={pw.get('priority')}", instance="rabbitmq properties written")
    ctx.check(pw.get("headers") == "{'queue': key.queue, 'topic': key.topic}", rule, e, "rabbitmq headers queue/topic <- key", "{'queue': key.queue, 'topic': key.topic}",
              f"rabbitmq publishes headers {pw.get('headers')}", instance="rabbitmq headers written")
    bd = C.kw(pub, "body")
    ctx.check(unparse(bd) == "JSON_ENCODER.encode(body).encode()", rule, e, "rabbitmq body = JSON of the message content", "JSON_ENCODER.encode(body).encode()", f"rabbitmq body is {unparse(bd)}",
              instance="rabbitmq body encoding")
    hdr_r = {c.args[0].value for c in ast.walk(o.node) if isinstance(c, ast.Call) and isinstance(c.func, ast.Attribute) and c.func.attr == "get" and "headers" in unparse(c.func.value)
             and c.args and isinstance(c.args[0], ast.Constant)}
    ctx.check(hdr_r == {"topic", "queue"}, rule, o, "rabbitmq headers read == written", "topic, queue", f"rabbitmq consumer reads headers {sorted(hdr_r)}", instance="rabbitmq headers read")
    rk = [c for c in ast.walk(o.node) if isinstance(c, ast.Call) and isinstance(c.func, ast.Attribute) and c.func.attr == "ROUTING_KEY_CLASS"]
    ctx.require(len(rk) == 1, f"{o.qualname}: ROUTING_KEY_CLASS(...) not found")
    kw = {k.arg: k.value for k in rk[0].keywords}

    def origin(v):
        out = set()
        for x in C.expand_locals(o, v):
            t = unparse(x)
            for tag in ("properties.message_id", "headers.get('topic'", "headers.get('queue'", "properties.priority"):
                if tag in t:
                    out.add(tag)
        return out

    want = {"id_": "properties.message_id", "topic": "headers.get('topic'", "queue": "headers.get('queue'", "priority": "properties.priority"}
    for k, tag in want.items():
        v = kw.get(k)
        ctx.check(v is not None and tag in origin(v), rule, o, f"rabbitmq routing key {k} <- {tag}", tag, f"rabbitmq consumer takes routing key {k} from {unparse(v)[:60] if v is not None else '<default>'}",
                  node=rk[0], instance=f"rabbitmq routing key {k}")
    put = [c for c in ast.walk(o.node) if isinstance(c, ast.Call) and dotted(c.func) == "self.queue.put"]
    ok = len(put) == 1 and isinstance(put[0].args[0], ast.Tuple) and len(put[0].args[0].elts) == 3 and unparse(put[0].args[0].elts[1]) == "decoded['payload']" \
        and isinstance(put[0].args[0].elts[2], ast.Name)
    ok = ok and any(unparse(d) == "self.broker.PARAMETERS_CLASS.decode(decoded['parameters'])" for d in C.local_defs(o, put[0].args[0].elts[2].id))
    ctx.check(ok, rule, o, "rabbitmq consumer hands out (key, body payload, decoded parameters)", "decoded['payload'], PARAMETERS_CLASS.decode(decoded['parameters'])",
              "rabbitmq consumer does not hand out the body's payload and its decoded parameters", instance="rabbitmq handed out tuple")
    # ---------- in-memory: the message object itself
    f = ctx.func(f"{C.INMEM_BROKER}._put_in_queue") if f"{C.INMEM_BROKER}._put_in_queue" in ctx.prog.functions else ctx.func(f"{C.INMEM_BROKER}.enqueue")
    mk = [c for c in ast.walk(f.node) if isinstance(c, ast.Call) and dotted(c.func) == "Message"]
    margs = [C.arg(mk[0], i, nm) for i, nm in enumerate(("key", "payload", "parameters"))] if len(mk) == 1 else []
    ok = len(mk) == 1 and all(a is not None for a in margs) and [unparse(a) for a in margs[:2]] == ["key", "payload"] and unparse(margs[2]).startswith("params")
    ctx.check(ok, rule, f, "in-memory message = (key, payload, params)", "Message(key, payload, params or default)", f"in-memory broker stores {unparse(mk[0]) if mk else '?'}", instance="in-memory message")
    c = ctx.func(f"{C.INMEM_CONS}.consume")
    rets = [r for r in ast.walk(c.node) if isinstance(r, ast.Return) and r.value is not None]
    ok = len(rets) == 1 and unparse(rets[0].value) == "(msg.key, msg.payload, msg.parameters)"
    ctx.check(ok, rule, c, "in-memory consume returns the stored triple", "(msg.key, msg.payload, msg.parameters)", f"in-memory consume returns {unparse(rets[0].value) if rets else '?'}", instance="in-memory handed out")


# ----------------------------------------------------------------------------- FALSY
TRANSPORT_FUNCS = (f"{C.RABBIT_CONS}.on_new_message", f"{C.REDIS_CONS}.__get_message_details", f"{C.INMEM_CONS}.consume", "repid.job.Job.__init__",
                   "repid.job.Job._construct_routing_key", "repid.job.Job._construct_args", "repid.job.Job.enqueue", f"{C.REDIS_BROKER}.enqueue", f"{C.REDIS_BROKER}.requeue",
                   f"{C.RABBIT_BROKER}.enqueue", f"{C.INMEM_BROKER}.enqueue", f"{C.INMEM_BROKER}.requeue", f"{C.PROCESSOR}.get_payload", f"{C.PROCESSOR}.process")


def falsy_tests(ctx: Ctx, rule: str) -> None:
    """On the transport path (job -> broker -> consumer -> processor) presence of a wire value is tested with `is None`, never by truthiness: the empty
    payload (a job without arguments), falsy JSON arguments ({}, [], 0, False, "") and priority 0 are legal values that a truthiness test takes for 'missing'."""
    def atoms(e):
        if isinstance(e, ast.BoolOp):
            for v in e.values:
                yield from atoms(v)
        elif isinstance(e, ast.UnaryOp) and isinstance(e.op, ast.Not):
            yield from atoms(e.operand)
        elif isinstance(e, ast.NamedExpr):
            yield from atoms(e.value)
        else:
            yield e

    probe = ast.parse("x = 1 if not payload or other is None else 2").body[0].value
    ctx.require([unparse(a) for a in atoms(probe.test)] == ["payload", "other is None"], "truthiness-atom detector does not recognise its positive example")
    n = 0
    for q in TRANSPORT_FUNCS:
        if q not in ctx.prog.functions:
            continue
        f = ctx.func(q)
        tests = [x.test for x in ast.walk(f.node) if isinstance(x, (ast.If, ast.While, ast.IfExp, ast.Assert))] + [c for x in ast.walk(f.node) if isinstance(x, ast.comprehension) for c in x.ifs]
        for t in tests:
            for a in atoms(t):
                if not isinstance(a, (ast.Name, ast.Attribute, ast.Subscript)):
                    continue
                txt = C.utext(f, a)
                last = (dotted(a) or unparse(a)).split(".")[-1]
                hot = last in ("payload", "raw_payload", "priority", "args", "data") or last.endswith("_payload") or "['payload']" in txt or txt.endswith(".priority")
                if not hot:
                    continue
                n += 1
                ctx.fail(rule, f, f"truthiness test of {unparse(a)} in `{unparse(t)[:60]}`",
                         f"{f.short()} decides by the truthiness of `{unparse(a)}` (`{unparse(t)[:80]}`): an empty payload (job without arguments), falsy arguments ({{}}, [], 0, False, '') "
                         "or priority 0 are legal values and are treated like a missing one - the message is dropped / dead-lettered or delivered with other content than enqueued",
                         node=t, instance=f"{f.short()}: truthiness of {unparse(a)[:40]}")
    if not n:
        ctx.ok(rule, "no truthiness test of a payload / priority / arguments value on the transport path", f"{len(TRANSPORT_FUNCS)} functions scanned")


def falsy(ctx: Ctx, rule="R-C07-FALSY") -> None:
    n = 0
    for q in (f"{C.RABBIT_CONS}.on_new_message", f"{C.REDIS_CONS}.__get_message_details", f"{C.INMEM_CONS}.consume", "repid.job.Job._construct_routing_key",
              f"{C.REDIS_BROKER}.enqueue", f"{C.REDIS_BROKER}.requeue", f"{C.RABBIT_BROKER}.enqueue"):
        f = ctx.func(q)
        for b in ast.walk(f.node):
            if isinstance(b, ast.BoolOp) and isinstance(b.op, ast.Or):
                first = b.values[0]
                if isinstance(first, (ast.Compare, ast.BoolOp, ast.UnaryOp)):
                    continue  # a condition, not a value substitution
                hot = [w for w in ("priority", "payload") if _mentions(first, w) or w in unparse(first)]
                n += 1
                ctx.check(not hot, rule, f, f"`{unparse(b)[:70]}`", "no falsy-legal wire value on the left of `or`",
                          f"{f.short()}: `{unparse(b)[:90]}` replaces a legal falsy value of {hot} (priority 0 = LOW, empty payload) by the default: the consumer receives a "
                          "different value than was enqueued", node=b, instance=f"{f.short()}: {unparse(b)[:50]}")
    falsy_tests(ctx, rule)
    pr = ctx.prog.cls("repid.data.priorities.PrioritiesT")
    vals = {k: v.value for k, v in pr.attrs.items() if isinstance(v, ast.Constant)}
    ctx.check(0 in vals.values(), rule, pr.qualname, "domain fact: a priority with value 0 exists", str(vals), "no falsy priority any more (R-C07-FALSY domain fact outdated)", instance="priority domain")
    from .delay import whole_duration_rule

    whole_duration_rule(ctx, rule)  # durations of a day or more are not truncated to their sub-day remainder


# ----------------------------------------------------------------------------- ALPHABET
def _alphabet(pattern: str) -> set[str]:
    import re._parser as sre  # type: ignore[import-not-found]

    out: set[str] = set()

    def add(op, av):
        name = str(op)
        if name == "LITERAL":
            out.add(chr(av))
        elif name == "RANGE":
            out.update(chr(c) for c in range(av[0], av[1] + 1))
        elif name == "IN":
            for o, a in av:
                if str(o) == "NEGATE":
                    raise AnalysisError("negated character class in a name validator")
                add(o, a)
        elif name in ("MAX_REPEAT", "MIN_REPEAT"):
            for o, a in av[2]:
                add(o, a)
        elif name == "SUBPATTERN":
            for o, a in av[3]:
                add(o, a)
        elif name == "BRANCH":
            for br in av[1]:
                for o, a in br:
                    add(o, a)
        elif name in ("ANY", "NOT_LITERAL", "CATEGORY"):
            raise AnalysisError(f"validator regex uses {name}: alphabet not enumerable")
        elif name == "AT":
            pass
        else:
            raise AnalysisError(f"unsupported regex construct {name} in a name validator")

    for op, av in sre.parse(pattern):
        add(op, av)
    return out


def alphabet(ctx: Ctx, rule="R-C07-ALPHABET") -> None:
    m = ctx.prog.module("repid._utils.regex_validators")
    forbidden = set(":*?[]\\/ \n\t{}\"'")
    for name in ("VALID_NAME", "VALID_ID"):
        v = m.assigns.get(name)
        ctx.require(isinstance(v, ast.Call) and dotted(v.func) == "re.compile" and isinstance(v.args[0], ast.Constant), f"{name} is not re.compile(<literal>)")
        al = _alphabet(v.args[0].value)
        bad = sorted(al & forbidden)
        ctx.check(not bad, rule, m.name, f"{name} alphabet excludes key separators and glob metacharacters", f"{len(al)} characters: letters, digits, '_' and '-'",
                  f"{name} = {v.args[0].value!r} accepts {bad}: such a name breaks the ':'-separated Redis key encoding / scan patterns (messages become unreachable or are "
                  "attributed to another queue/topic)", instance=f"{name} alphabet")
    # fullmatch, not match/search
    users = 0
    for fn in ctx.prog.iter_functions():
        for c in ast.walk(fn.node):
            if isinstance(c, ast.Call) and isinstance(c.func, ast.Attribute) and dotted(c.func.value) in ("VALID_NAME", "VALID_ID"):
                users += 1
                ctx.check(c.func.attr == "fullmatch", rule, fn, f"{unparse(c)[:50]} in {fn.short()}", "whole string validated",
                          f"{fn.short()} validates with {dotted(c.func.value)}.{c.func.attr}(): only a prefix is checked, the rest of the name may contain ':'", node=c,
                          instance=f"{fn.short()}: {dotted(c.func.value)}.{c.func.attr}({unparse(c.args[0]) if c.args else ''})")
    rk = ctx.func("repid.data._key.RoutingKey.__post_init__")
    checked = {unparse(c.args[0]): dotted(c.func.value) for c in ast.walk(rk.node) if isinstance(c, ast.Call) and isinstance(c.func, ast.Attribute) and c.func.attr == "fullmatch"}
    # table-driven form: for pattern, value, ... in ((VALID_ID, self.id_, ...), ...): if pattern.fullmatch(value) is None: raise
    for tgt, it, body, node in C.iterations(rk):
        rows = C.inline_locals(rk, it)
        if isinstance(tgt, ast.Tuple) and isinstance(rows, (ast.Tuple, ast.List)) and all(isinstance(r_, ast.Tuple) for r_ in rows.elts):
            names = [dotted(e) for e in tgt.elts]
            for c in [c for b in body for c in ast.walk(b) if isinstance(c, ast.Call) and isinstance(c.func, ast.Attribute) and c.func.attr == "fullmatch"]:
                pv, vv = dotted(c.func.value), dotted(c.args[0]) if c.args else None
                if pv in names and vv in names:
                    raises = any(isinstance(x, ast.Raise) for b in body for x in ast.walk(b))
                    checked.pop(vv, None)
                    if raises:
                        for r_ in rows.elts:
                            checked[unparse(r_.elts[names.index(vv)])] = dotted(r_.elts[names.index(pv)])
    ctx.floor(rule, users + sum(1 for v in checked.values() if v in ("VALID_NAME", "VALID_ID")), 8, "validator uses")
    want = {"self.id_": "VALID_ID", "self.topic": "VALID_NAME", "self.queue": "VALID_NAME"}
    ctx.check(checked == want, rule, rk, "RoutingKey validates id_, topic and queue", str(want), f"RoutingKey.__post_init__ validates {checked}", instance="RoutingKey validation")
    g = ctx.cfg(rk)
    for t in [n for n in g.nodes if n.kind == "test" and "fullmatch" in n.label]:
        # the branch taken when the match fails must raise
        fail_env = {"*m": lambda text, node: (False if isinstance(node, ast.Call) and isinstance(node.func, ast.Attribute) and node.func.attr == "fullmatch" else
                                               (True if isinstance(node, ast.Compare) and isinstance(node.left, ast.Call) and isinstance(node.left.func, ast.Attribute)
                                                and node.left.func.attr == "fullmatch" and isinstance(node.ops[0], ast.Is) and C.is_const(node.comparators[0], None) else None))}
        v = flow.eval_cond(t.ast, fail_env, rk)
        branch = "T" if v is True else ("F" if v is False else None)
        succ_t = flow.reach(g, [t.id], (branch,)) if branch else set()
        ok = branch is not None and any(g.nodes[i].kind == "raise" for i in succ_t | flow.reach(g, succ_t, ("n", "raise")))
        ctx.check(ok, rule, rk, f"`{t.label[:50]}` -> raise", "invalid value rejected", f"RoutingKey: `{t.label[:60]}` does not reject an invalid value", instance=f"RoutingKey: {t.label[:40]}")
    # split / join agreement in redis utils
    u = ctx.prog.module("repid.connections.redis.utils")
    mnc = ctx.func("repid.connections.redis.utils.mnc")
    qnc = ctx.func("repid.connections.redis.utils.qnc")

    mt = set()
    for v in C.returned_values(mnc):
        mt |= C.fstring_templates(mnc, v)
    ctx.check(mt == {"{}:{}", "m:{}:{}:{}:{}"}, rule, mnc, "mnc = m:<queue>:<priority>:<topic>:<id> (short: <topic>:<id>)", "5 parts full / 2 parts short", f"mnc builds {sorted(mt)}", instance="mnc shape")
    rv = [C.inline_locals(mnc, v) for v in C.returned_values(mnc)]
    holes = sorted({unparse(x.value) for v in rv for x in ast.walk(v) if isinstance(x, ast.FormattedValue)} | {unparse(x.value) for n in ast.walk(mnc.node) if isinstance(n, ast.JoinedStr) for x in n.values if isinstance(x, ast.FormattedValue)})
    ctx.check(set(holes) - {"prefix"} == {"key.queue", "key.priority", "key.topic", "key.id_"}, rule, mnc, "mnc is built from queue, priority, topic and id of the key", str(holes), f"mnc is built from {holes}", instance="mnc fields")
    qt = set()
    for v in C.returned_values(qnc):
        qt |= C.fstring_templates(qnc, v)
    ctx.check(qt == {"q:{}:{}:dead", "q:{}:{}:d", "q:{}:{}:n"}, rule, qnc, "qnc = q:<queue>:<priority>:<n|d|dead>", "4 parts", f"qnc builds {sorted(qt)}", instance="qnc shape")
    expect = {"full_message_name_from_short": 4, "parse_short_message_name": 2, "parse_message_name": 5}
    for fname, nparts in expect.items():
        fn = ctx.func(f"repid.connections.redis.utils.{fname}")
        sp = [n for n in ast.walk(fn.node) if isinstance(n, ast.Assign) and isinstance(n.value, ast.Call) and isinstance(n.value.func, ast.Attribute) and n.value.func.attr == "split"
              and n.value.args and C.is_const(n.value.args[0], ":")]
        ok = len(sp) == 1 and isinstance(sp[0].targets[0], ast.Tuple) and len(sp[0].targets[0].elts) == nparts and len(sp[0].value.args) == 1
        ctx.check(ok, rule, fn, f"{fname}: split(':') into {nparts} parts", "as many parts as the constructor joins", f"{fname} unpacks {unparse(sp[0]) if sp else '?'}", instance=f"{fname} parts")
    pm = ctx.func("repid.connections.redis.utils.parse_message_name")
    sp = [n for n in ast.walk(pm.node) if isinstance(n, ast.Assign) and isinstance(n.targets[0], ast.Tuple)][0]
    ret = [r for r in ast.walk(pm.node) if isinstance(r, ast.Return)][0]
    tn = [dotted(e) for e in sp.targets[0].elts]
    rt = ret.value.elts if isinstance(ret.value, ast.Tuple) else []
    ok = len(tn) == 5 and len(rt) == 4 and [dotted(rt[0]), dotted(rt[1]), dotted(rt[2])] == [tn[4], tn[3], tn[1]] and unparse(rt[3]) == f"int({tn[2]})"
    ctx.check(ok, rule, pm, "parse_message_name field order = mnc field order", "(parts[4], parts[3], parts[1], int(parts[2])) = (id, topic, queue, priority)",
              f"parse_message_name unpacks {unparse(sp.targets[0])} and returns {unparse(ret.value)}", instance="parse_message_name order")
    fm = ctx.func("repid.connections.redis.utils.full_message_name_from_short")
    sp = [n for n in ast.walk(fm.node) if isinstance(n, ast.Assign) and isinstance(n.targets[0], ast.Tuple)][0]
    tn = [dotted(e) for e in sp.targets[0].elts]
    ret = [r for r in ast.walk(fm.node) if isinstance(r, ast.Return)][0]
    hs = [unparse(x.value) for x in ret.value.values if isinstance(x, ast.FormattedValue)] if isinstance(ret.value, ast.JoinedStr) else []
    ok = len(tn) == 4 and hs == [tn[1], tn[2], [p.arg for p in fm.params()][0]] and C.fstring_templates(fm, ret.value) == {"m:{}:{}:{}"}
    ctx.check(ok, rule, fm, "full_message_name_from_short = m:<queue part>:<priority part>:<short name>", "same shape as mnc", f"full_message_name_from_short returns {unparse(ret.value)}", instance="full name from short")
    gm = ctx.func("repid.connections.redis.utils.get_queue_marker")
    ret = [r for r in ast.walk(gm.node) if isinstance(r, ast.Return)][0]
    ctx.check(unparse(ret.value) == "full_queue_name.split(':')[-1]", rule, gm, "queue marker = last part of the queue name", "split(':')[-1]", f"get_queue_marker returns {unparse(ret.value)}", instance="queue marker")
    from .C11 import redis_prefix_terminator

    redis_prefix_terminator(ctx, rule)  # a topic that is a prefix of another topic stays distinguishable in the Redis key encoding



# ----------------------------------------------------------------------------- MARKER
def marker(ctx: Ctx, rule="R-C07-MARKER") -> None:
    c = ctx.prog.cls("repid._utils.args_bucket_in_message_id._ArgsBucketInMessageId")
    key = c.attrs.get("KEY")
    ctx.require(isinstance(key, ast.Constant) and isinstance(key.value, str), "_ArgsBucketInMessageId.KEY not found")
    cons = ctx.func(f"{c.qualname}.construct")
    r = [x for x in ast.walk(cons.node) if isinstance(x, ast.Return)][0]
    ctx.check(unparse(r.value) == "JSON_ENCODER.encode({cls.KEY: id_})", rule, cons, "construct = compact JSON {KEY: id}", "JSON_ENCODER.encode({cls.KEY: id_})", f"construct returns {unparse(r.value)}",
              instance="marker construct")
    chk = ctx.func(f"{c.qualname}.check")
    r = [x for x in ast.walk(chk.node) if isinstance(x, ast.Return)][0]
    v = r.value
    ok = False
    why = f"check is `{unparse(v)}`"
    v = C.inline_locals(chk, v) or v

    def window(e):
        """k for `len(cls.KEY) + k`"""
        if isinstance(e, ast.BinOp) and isinstance(e.op, ast.Add):
            l, rr = e.left, e.right
            if isinstance(rr, ast.Constant) and unparse(l) == "len(cls.KEY)":
                return rr.value
            if isinstance(l, ast.Constant) and unparse(rr) == "len(cls.KEY)":
                return l.value
        return None

    if isinstance(v, ast.Compare) and isinstance(v.left, ast.Call) and isinstance(v.left.func, ast.Attribute) and v.left.func.attr == "find" and len(v.left.args) == 3:
        a0, a1, a2 = v.left.args
        af = window(a2)
        ok = dotted(a0) == "cls.KEY" and C.is_const(a1, 0) and af is not None and 2 <= af <= 3 and isinstance(v.ops[0], ast.NotEq) and unparse(v.comparators[0]) == "-1"
        why = f"window is [0, len(KEY)+{af}) (needs to cover offset 2 of compact JSON and nothing beyond the first key)"
    elif isinstance(v, ast.Compare) and isinstance(v.ops[0], ast.In) and dotted(v.left) == "cls.KEY" and isinstance(v.comparators[0], ast.Subscript) and isinstance(v.comparators[0].slice, ast.Slice):
        sl = v.comparators[0].slice  # KEY in string[:len(KEY)+k]
        af = window(sl.upper) if sl.upper is not None else None
        ok = (sl.lower is None or C.is_const(sl.lower, 0)) and sl.step is None and af is not None and 2 <= af <= 3 and isinstance(v.comparators[0].value, ast.Name)
        why = f"window is [0, len(KEY)+{af}) (needs to cover offset 2 of compact JSON and nothing beyond the first key)"
    elif isinstance(v, ast.Call) and isinstance(v.func, ast.Attribute) and v.func.attr == "startswith":
        ok = any(isinstance(x, ast.Attribute) and x.attr == "KEY" for x in ast.walk(v))
    ctx.check(ok, rule, chk, "check looks for KEY only at the start of the payload", "bounded window",
              f"_ArgsBucketInMessageId.check is not bounded to the start of the payload ({why}): an inline payload that merely mentions the marker later on is taken for a bucket "
              "reference and replaced by another bucket's data (or fails)", node=r, instance="marker check bounded")
    dec = ctx.func(f"{c.qualname}.deconstruct")
    r = [x for x in ast.walk(dec.node) if isinstance(x, ast.Return)][0]
    ctx.check(unparse(r.value) == "json.loads(string).get(cls.KEY)", rule, dec, "deconstruct reads KEY", "json.loads(string).get(cls.KEY)", f"deconstruct returns {unparse(r.value)}", instance="marker deconstruct")
    gp = ctx.func(f"{C.PROCESSOR}.get_payload")
    g = ctx.cfg(gp)
    rets = [n for n in g.nodes if n.kind == "return"]

    def env(is_marker, found):
        def fn(text, node):
            if isinstance(node, ast.Call) and (dotted(node.func) or "").endswith("_ArgsBucketInMessageId.check"):
                return is_marker
            if isinstance(node, ast.Compare) and isinstance(node.ops[0], ast.Is) and dotted(node.left) == "bucket" and C.is_const(node.comparators[0], None):
                return not found
            return None
        return {"*m": fn}

    for (im, fo), want in {(False, None): "initial_payload", (True, True): "bucket.data", (True, False): "initial_payload"}.items():
        rr = flow.reach_under(g, env(im, fo), flow.NORMAL_KINDS)
        got = sorted({unparse(n.ast.value) for n in rets if n.id in rr})
        ctx.check(got == [want], rule, gp, f"get_payload[marker={im}, bucket found={fo}]", f"-> {want}", f"get_payload with marker={im}, bucket found={fo} returns {got}", instance=f"get_payload[{im},{fo}]")
    gb = [n for n in g.calls() if C.bucket_op(ctx, n, ("get_bucket",))]
    ok = len(gb) == 1 and "_ab" in (gb[0].callee or "") and unparse(gb[0].ast.args[0]) == "_ArgsBucketInMessageId.deconstruct(initial_payload)"
    ctx.check(ok, rule, gp, "bucket fetched from the args broker under the deconstructed id", "_ab.get_bucket(deconstruct(payload))", "get_payload does not fetch the args bucket by the marker's id", instance="get_payload fetch")
    ca = ctx.func("repid.job.Job._construct_args")
    st = [n for n in ast.walk(ca.node) if isinstance(n, ast.Call) and isinstance(n.func, ast.Attribute) and n.func.attr == "store_bucket"]
    ok = len(st) == 1 and unparse(st[0].args[0]) == "self.args_id" and "_ab" in unparse(st[0].func)
    ctx.check(ok, rule, ca, "arguments stored under args_id on the args broker", "_ab.store_bucket(self.args_id, bucket)", "Job._construct_args does not store the arguments under args_id", instance="args stored")
    bk = [n for n in ast.walk(ca.node) if isinstance(n, ast.Call) and isinstance(n.func, ast.Attribute) and n.func.attr == "BUCKET_CLASS"]
    ok = len(bk) == 1 and {k.arg: unparse(k.value) for k in bk[0].keywords} == {"data": "self.args", "ttl": "self.args_ttl"}
    ctx.check(ok, rule, ca, "bucket carries the serialised arguments and args_ttl", "BUCKET_CLASS(data=self.args, ttl=self.args_ttl)", f"argument bucket is {unparse(bk[0]) if bk else '?'}", instance="args bucket content")
    def _pos(txt: str) -> str:
        return txt.replace("construct(id_=", "construct(")  # the marker's only parameter, by keyword or by position

    vals = sorted({_pos(C.utext(ca, v)) for v in C.returned_values(ca)})
    ctx.check(vals == sorted(["_ArgsBucketInMessageId.construct(self.args_id)", "self.args or ''"]), rule, ca, "marker built from the same args_id, else the inline arguments",
              "construct(self.args_id) | self.args or ''", f"Job._construct_args returns {vals}", instance="marker id")
    g_ca = ctx.cfg(ca)

    def ca_env(bucketer, has_args, id_set):
        def fn(text, node):
            d = dotted(node)
            if d == "self.use_args_bucketer":
                return bucketer
            if d == "self.args_id_set":
                return id_set
            if isinstance(node, ast.Compare) and isinstance(node.ops[0], ast.Is) and dotted(node.left) == "self.args" and C.is_const(node.comparators[0], None):
                return not has_args
            return None
        return {"*ca": fn}

    for (bu, ha, ids), want_marker, want_store in (((True, True, False), True, True), ((True, True, True), True, True), ((False, True, True), True, False), ((True, False, True), True, False),
                                                  ((False, True, False), False, False), ((True, False, False), False, False)):
        r_ = flow.reach_under(g_ca, ca_env(bu, ha, ids), flow.NORMAL_KINDS)
        stored = any(n.id in r_ for n in g_ca.calls() if isinstance(n.ast.func, ast.Attribute) and n.ast.func.attr == "store_bucket")
        rv = set()
        for n in g_ca.nodes:
            if n.kind == "return" and n.id in r_:
                v = n.ast.value
                if isinstance(v, ast.Name) and len(C.local_defs(ca, v.id)) > 1:
                    rv |= {_pos(C.utext(ca, s_.meta.get("value"))) for s_ in g_ca.nodes if s_.kind == "store" and s_.target == v.id and s_.id in r_}
                else:
                    rv.add(_pos(C.utext(ca, v)))
        is_marker = rv == {"_ArgsBucketInMessageId.construct(self.args_id)"}
        is_inline = rv == {"self.args or ''"}
        ctx.check((is_marker if want_marker else is_inline) and stored == want_store, rule, ca, f"_construct_args[bucketer={bu}, args={'set' if ha else 'None'}, args_id given={ids}]",
                  f"-> {'bucket marker' if want_marker else 'inline arguments'}{', bucket stored' if want_store else ''}",
                  f"Job._construct_args with bucketer={bu}, args {'set' if ha else 'None'}, args_id given={ids} returns {sorted(rv)} (bucket stored: {stored})", instance=f"construct_args[{bu},{ha},{ids}]")
    init = ctx.func("repid.job.Job.__init__")
    st = [n for n in ast.walk(init.node) if isinstance(n, ast.Assign) and any(dotted(t) == "self.args" for t in n.targets)]
    ok = len(st) == 1 and unparse(st[0].value) == "None if args is None else Config.SERIALIZER(args)"
    ctx.check(ok, rule, init, "arguments serialised once with the configured serializer", "Config.SERIALIZER(args)", f"Job.__init__ stores args as {unparse(st[0].value) if st else '?'}", instance="args serialised")
