"""C02 - Every delivery ends in exactly one, correct disposition."""
from __future__ import annotations

import ast

from .. import flow
from ..cfg import handler_classes, handler_match
from ..engine import Ctx
from ..model import dotted, unparse
from . import common as C
from .ladder import check_ladder, check_ladder_arguments, check_process_passthrough, outcome_env, same_layer_policy
from .shared import _mentions, await_map, eager_action_rules

SUMMARY = "Decision table of the disposition ladder over all valuations; exactly-one-terminal-action path counting in process()."
DECIDED = [
    "R-C02-LADDER: decision table of report_to_broker over (success, already_tried ? max_amount, defer_by, cron) - 24 "
    "valuations - equals retry / reschedule / ack / nack as specified, with the delivered key, payload and parameters",
    "R-C02-ONCE: in process() (same-layer callees inlined) every normal path applies exactly one terminal broker "
    "operation unless the actor answered eagerly, in which case none (and no result store)",
    "R-C02-CATCH: dependency resolution, input conversion, the actor call (inside wait_for with the message's "
    "execution timeout) and output conversion lie in one try whose handlers map _NoAction -> reporting_done=True, "
    "Exception -> success=False, and let cancellation through",
    "R-C02-RACE: the reject on the cancel branch of _process_with_event is unreachable when the processing task "
    "is already done, and is preceded by cancelling the task",
    "R-C02-SURVIVE: processing tasks are spawned (never awaited inline) by the consume loop, so an actor outcome "
    "cannot terminate it; the done-callback does not re-raise task results",
    "R-C16-EAGER (shared): eager responses raise _NoAction after exactly one action",
    "R-C02-CATCH (dependencies): the dependency gathers of Depends.resolve / actor_run do not turn provider failures into values (no return_exceptions), names and values come from one mapping (C18's chain rules reused)",
    "R-C02-CATCH (total helpers): helpers process() calls outside the outcome try (get_payload) contain no raise of their own",
    "R-C02-LADDER (round 5): process() never re-binds the delivered key / payload / parameters (what is requeued is what was delivered); R-C02-CATCH: only a payload that IS a bucket reference (marker at its start) is looked up in the bucket broker (C07's marker rules reused)",
    "R-C02-ONCE (round 6): nothing in runner / processor / consumers is shielded from cancellation; consumers hand back what they hold only after the in-flight deliveries were finished or cancelled (C03 shutdown reused); R-C16-EAGER: an eager action performs the action it is named after and no other",
    "R-C02-AWAITED: in the files this property is anchored in, no bare statement calls a coroutine function (the operation would never run)",
]
NOT_DECIDED = ["'the worker keeps processing the other messages' as liveness", "actors that swallow CancelledError/BaseException"]
ASSUMPTIONS = ["exceptions raised by non-call expressions (subscripts, attribute access) are not modelled as edges"]


def run(ctx: Ctx) -> None:
    from .shared import every_operation_awaited

    every_operation_awaited(ctx, "R-C02-AWAITED")  # in the files this property is anchored in, no asynchronous operation is created and dropped
    lt = check_ladder(ctx, "R-C02-LADDER")
    check_ladder_arguments(ctx, "R-C02-LADDER", lt)
    check_process_passthrough(ctx, "R-C02-LADDER")
    from .C03 import shutdown

    with ctx.as_rule("R-C02-ONCE"):
        shutdown(ctx, "R-C02-ONCE")  # in-flight deliveries are finished (or cancelled + rejected) BEFORE the consumers hand back what they hold: otherwise a delivery is returned and then also acked / requeued
    from .shared import no_shield

    no_shield(ctx, "R-C02-ONCE", ("repid/_processor.py", "repid/_runner.py", "repid/worker.py", "repid/message.py", "repid/dependencies/message_dependency.py", "repid/connections/redis/consumer.py", "repid/connections/redis/message_broker.py", "repid/connections/rabbitmq/consumer.py", "repid/connections/rabbitmq/message_broker.py", "repid/connections/in_memory/consumer.py", "repid/connections/in_memory/message_broker.py"), "the runner cancels the processing task and rejects the message; a shielded report / take goes on and applies a second disposition (or takes a message nobody receives)")
    once(ctx)
    catch(ctx)
    race(ctx)
    survive(ctx)
    eager_action_rules(ctx, "R-C16-EAGER")
    pr = ctx.func(f"{C.PROCESSOR}.process")
    for h in C.helper_callees(ctx, pr, depth=1):
        if h.name in ("_actor_run", "actor_run", "report_to_broker", "set_result_bucket") or h.cls is None or h.cls.qualname != C.PROCESSOR:
            continue
        gh = ctx.cfg(h)
        raises = [n for n in gh.nodes if n.kind == "raise" and isinstance(n.ast, ast.Raise)]
        ctx.check(not raises, "R-C02-CATCH", h, f"{h.short()} (called by process() outside the outcome try) raises nothing of its own", "a missing bucket etc. is a value, not an exception",
                  f"{h.short()} raises ({[unparse(r.ast)[:50] for r in raises]}) and is called by process() before the actor's try block: the exception escapes process(), the delivery gets "
                  "no terminal action at all (the message stays in flight)", instance=f"{h.short()}: total")
    from .C07 import marker

    with ctx.as_rule("R-C02-CATCH"):
        marker(ctx, "R-C02-CATCH")  # only a payload that IS a bucket reference is looked up: an inline payload merely containing the marker text must not send process() to a missing bucket broker (it raises before the try)
    from .C18 import DEPENDS, chain

    with ctx.as_rule("R-C02-CATCH"):
        # a failing (nested) dependency must fail the execution: the gathers do not turn exceptions into values that are then passed on as arguments
        for q, provider in ((f"{DEPENDS}.resolve", "self._fn"), (f"{C.PROCESSOR}._actor_run", "actor.fn")):
            chain(ctx, ctx.func(q), provider)


def once(ctx: Ctx, rule: str = "R-C02-ONCE") -> None:
    f = ctx.func(f"{C.PROCESSOR}.process")
    g = flow.inline(f, ctx.res, ctx.depth, same_layer_policy(f, ctx))
    term = [n for n in g.calls() if C.broker_op(ctx, n, C.TERMINAL_OPS)]
    stores = [n for n in g.calls() if C.bucket_op(ctx, n, ("store_bucket",))]
    runs = [n for n in g.calls() if (n.callee or "").endswith("actor_run")]
    ctx.floor(rule, len(term), 4, "terminal broker operations reachable from process()")
    ctx.floor(rule, len(runs), 1, "actor_run calls in process()")
    # eager answer: nothing more
    r = flow.reach_under(g, outcome_env(reporting_done=True), flow.NORMAL_KINDS)
    bad = [n for n in term + stores if n.id in r]
    ctx.check(not bad and g.exit.id in r, rule, f, "eager path of process()", "after an eager response: no broker operation, no result store",
              "after an eager response (reporting_done) process() still performs: " + ", ".join(b.label[:60] for b in bad), node=bad[0] if bad else None,
              instance="process: nothing after eager response")

    def sym(n):
        if n.kind == "call":
            op = C.broker_op(ctx, n, C.TERMINAL_OPS)
            if op:
                return ("terminal", op)
            if (n.callee or "").endswith("actor_run"):
                return "actor_run"
        if n.kind == "test" and isinstance(n.ast, ast.AST) and _mentions(n.ast, "reporting_done"):
            return None
        return None

    # traces where reporting_done is False: prune the eager branch
    env = outcome_env(reporting_done=False)
    keep = flow.reach_under(g, env, flow.NORMAL_KINDS)

    def sym2(n):
        if n.id not in keep:
            return "$pruned"
        return sym(n)

    trs = flow.traces(g, sym2, loop_bound=ctx.loop_bound)
    trs = {t for t in trs if "$pruned" not in t and t[-1] == "$exit"}
    counts = {sum(1 for s in t if isinstance(s, tuple) and s[0] == "terminal") for t in trs}
    ctx.check(counts == {1}, rule, f, "terminal operations per non-eager path of process()",
              f"{len(trs)} distinct normal event sequence(s), each with exactly one terminal operation",
              f"a normal path through process() applies {sorted(counts)} terminal broker operations (must be exactly 1): "
              f"{sorted(trs, key=str)[:3]}", instance="process: exactly one terminal op")
    runs_per = {sum(1 for s in t if s == "actor_run") for t in trs}
    ctx.check(runs_per == {1}, rule, f, "actor_run per path of process()", "exactly one actor run per delivery",
              f"process() runs the actor {sorted(runs_per)} times on some path", instance="process: one actor run")
    # the terminal op must come after the actor run
    ctx.check(all(t.index("actor_run") < min(i for i, s in enumerate(t) if isinstance(s, tuple)) for t in trs if "actor_run" in t and any(isinstance(s, tuple) for s in t)),
              rule, f, "disposition after actor run", "disposition decided after the actor finished",
              "process() reports to the broker before running the actor", instance="process: run before disposition")


def catch(ctx: Ctx, rule: str = "R-C02-CATCH") -> None:
    f = ctx.func(f"{C.PROCESSOR}._actor_run")
    tries = [n for n in ast.walk(f.node) if isinstance(n, ast.Try)]
    ctx.require(len(tries) >= 1, f"{f.qualname}: no try statement (anchor vanished)")

    def in_body(t: ast.Try, node: ast.AST) -> bool:
        return any(node is x for st in t.body for x in ast.walk(st))

    def find_calls(pred):
        return [n for n in ast.walk(f.node) if isinstance(n, ast.Call) and pred(n)]

    fn_calls = find_calls(lambda c: dotted(c.func) == "actor.fn")
    ctx.require(len(fn_calls) == 1, f"{f.qualname}: expected exactly one call of actor.fn, found {len(fn_calls)}")
    guard_try = None
    for t in tries:
        if in_body(t, fn_calls[0]):
            guard_try = t
    if not ctx.check(guard_try is not None, rule, f, "actor.fn(...) inside try", "actor call protected by the outcome try",
                     "the actor call is outside the try that classifies the outcome: an actor exception escapes process() and the "
                     "message gets no disposition", node=fn_calls[0], instance="actor call in try"):
        return
    t = guard_try
    wanted = {
        "convert_inputs": find_calls(lambda c: isinstance(c.func, ast.Attribute) and c.func.attr == "convert_inputs"),
        "convert_outputs": find_calls(lambda c: isinstance(c.func, ast.Attribute) and c.func.attr == "convert_outputs"),
        "dependency resolve": find_calls(lambda c: isinstance(c.func, ast.Attribute) and c.func.attr == "resolve"),
        "dependency gather": find_calls(lambda c: (dotted(c.func) or "").endswith("gather")),
    }
    helper_sites = {}
    for h in C.helper_callees(ctx, f):
        sites = [c for c in ast.walk(f.node) if isinstance(c, ast.Call) and any(cal is h for cal in ctx.res.callees(f, c, record=False))]
        for what, pred in (("dependency resolve", lambda c: isinstance(c.func, ast.Attribute) and c.func.attr == "resolve"),
                           ("convert_inputs", lambda c: isinstance(c.func, ast.Attribute) and c.func.attr == "convert_inputs"),
                           ("convert_outputs", lambda c: isinstance(c.func, ast.Attribute) and c.func.attr == "convert_outputs"),
                           ("dependency gather", lambda c: (dotted(c.func) or "").endswith("gather"))):
            if any(isinstance(c, ast.Call) and pred(c) for c in ast.walk(h.node)):
                wanted[what] = wanted[what] + sites  # the work happens where the helper is called
    for what, calls in wanted.items():
        ctx.require(bool(calls), f"{f.qualname}: no {what} call found (anchor vanished)")
        for c in calls:
            ctx.check(in_body(t, c), rule, f, f"{what} inside the outcome try", "failure counts as a failed execution",
                      f"{what} ({unparse(c)[:60]}) happens outside the try of actor_run: its failure escapes as a crash of the processing "
                      "task and the message is neither retried nor dead-lettered", node=c, instance=f"{what} in try")
    # wait_for with the execution timeout
    wf = [c for c in find_calls(lambda c: (dotted(c.func) or "").endswith("wait_for")) if any(fn_calls[0] is x for x in ast.walk(c))]
    ok = False
    if len(wf) == 1:
        to = C.arg(wf[0], 1, "timeout")
        if to is not None:
            ok = any(_mentions(x, "execution_timeout") for x in C.expand_locals(f, to))
    ctx.check(ok, rule, f, "asyncio.wait_for(actor.fn(...), timeout=execution_timeout)", "actor bounded by the message's execution timeout",
              "the actor call is not bounded by wait_for with the message's execution_timeout: a hanging actor never gets a disposition",
              node=fn_calls[0], instance="actor call under wait_for(timeout)")
    if len(wf) == 1 and C.arg(wf[0], 1, "timeout") is not None:
        trunc = [a for x in C.expand_locals(f, C.arg(wf[0], 1, "timeout")) for a in ast.walk(x) if isinstance(a, ast.Attribute) and a.attr in ("seconds", "microseconds", "days")]
        ctx.check(not trunc, rule, f, "time limit = whole execution_timeout (total_seconds)", "no truncated timedelta field",
                  f"the actor's time limit is computed from `{unparse(trunc[0]) if trunc else ''}`: the .seconds field drops whole days, so a timeout of a day or more becomes "
                  "(close to) zero and a job that would succeed is cancelled at once and retried/dead-lettered", node=trunc[0] if trunc else None, instance="time limit not truncated")
    aw = [n for n in ast.walk(f.node) if isinstance(n, ast.Await) and wf and n.value is wf[0]]
    ctx.check(bool(aw), rule, f, "await of wait_for", "awaited", "the wait_for(...) around the actor is not awaited", instance="wait_for awaited")

    # handlers
    def first_match(flavour, cls):
        for h in t.handlers:
            m = handler_match(h, flavour, cls)
            if m == "yes":
                return h
        return None

    def actor_results(h: ast.ExceptHandler | None, body):
        return C.constructions(ctx, f, body, "ActorResult")

    h_no = first_match("base", "_NoAction")
    ok = False
    why = "no handler catches _NoAction"
    if h_no is not None:
        ars = actor_results(h_no, h_no.body)
        rets = [n for st in h_no.body for n in ast.walk(st) if isinstance(n, ast.Return)]
        ok = len(ars) == 1 and C.is_const(ars[0][1].get("reporting_done"), True) and len(rets) >= 1 and handler_classes(h_no) == ["_NoAction"]
        why = "the _NoAction handler must return ActorResult(..., reporting_done=True)"
        if ok:
            # data / success / exception taken from the _NoAction instance
            nm = h_no.name
            for kwname in ("data", "success", "exception"):
                v = ars[0][1].get(kwname)
                if not (isinstance(v, ast.Attribute) and isinstance(v.value, ast.Name) and v.value.id == nm and v.attr == kwname):
                    ok = False
                    why = f"ActorResult.{kwname} of an eager response is not taken from the _NoAction instance"
    ctx.check(ok, rule, f, "except _NoAction -> ActorResult(reporting_done=True)", "eager response: nothing more is reported",
              f"actor_run: {why}; an eager response would be followed by a second disposition", node=h_no, instance="_NoAction handler")
    h_exc = first_match("exc", None)
    ok = h_exc is not None and handler_classes(h_exc) == ["Exception"]
    ctx.check(ok, rule, f, "except Exception handler of actor_run", "any actor Exception is a failed execution",
              "actor_run has no `except Exception` handler classifying failures (or it is wider/narrower than Exception): "
              f"{[handler_classes(h) for h in t.handlers]}", instance="Exception handler")
    h_c = first_match("cancel", None)
    ctx.check(h_c is None, rule, f, "cancellation passes through actor_run", "CancelledError is not swallowed",
              "a handler of actor_run catches CancelledError/BaseException: a cancelled processing task would be treated as an "
              "actor outcome and get a disposition besides the reject", node=h_c, instance="cancel not caught")
    # success / reporting_done of the non-eager ActorResult
    g = ctx.cfg(f)
    final = []
    for n in g.nodes:
        if n.kind == "return" and isinstance(n.ast, ast.Return) and n.ast.value is not None:
            cons = C.constructions(ctx, f, [n.ast.value], "ActorResult")
            if len(cons) == 1 and not C.is_const(cons[0][1].get("reporting_done"), True):
                n.meta["actor_result_kw"] = cons[0][1]
                final.append(n)
    if not ctx.check(len(final) >= 1, rule, f, "final ActorResult", "found", "actor_run has no non-eager ActorResult return", instance="final result"):
        return
    for fr in final:
        kwv = fr.meta["actor_result_kw"]
        ctx.check(C.is_const(kwv.get("reporting_done"), False), rule, f, "ActorResult(reporting_done=False) for non-eager outcomes",
                  "non-eager outcomes are reported by the processor", "a non-eager ActorResult does not say reporting_done=False: "
                  "the message would get no disposition", node=fr, instance="final result: reporting_done False")
        sv = kwv.get("success")
        if isinstance(sv, ast.Name):
            name = sv.id
            st_true = [n.id for n in g.nodes if n.kind == "store" and n.target == name and C.is_const(n.meta.get("value"), True)]
            st_false = [n.id for n in g.nodes if n.kind == "store" and n.target == name and C.is_const(n.meta.get("value"), False)]
            handlers = [n for n in g.nodes if n.meta.get("handler")]
            exc_h = [h.id for h in handlers if h.meta.get("flavour") == "exc"]
            ok1 = all(flow.must_pass(g, h, [fr.id], st_false, flow.NORMAL_KINDS) for h in exc_h) and bool(exc_h)
            ok1 = ok1 and not any(flow.reach(g, [h], flow.NORMAL_KINDS) & set(st_true) for h in exc_h)
            ctx.check(ok1, rule, f, "success = False on the exception path", "failure recorded",
                      "the Exception path of actor_run does not end with success=False", node=fr, instance="exception path: success False")
            blocked = {h.id for h in handlers}
            r = flow.reach(g, [g.entry.id], flow.NORMAL_KINDS, blocked=blocked)
            ok2 = flow.must_pass(g, g.entry.id, [fr.id], st_true + list(blocked), flow.NORMAL_KINDS) and not (r & set(st_false))
            ctx.check(ok2, rule, f, "success = True on the normal path", "success recorded",
                      "the exception-free path of actor_run does not end with success=True", node=fr, instance="normal path: success True")
        else:
            ctx.fail(rule, f, "ActorResult(success=...)", f"unrecognised success expression {unparse(sv)}", node=fr)


def _wait_partition(f, name: str) -> str | None:
    """'done' / 'pending' when `name` is bound to the 1st / 2nd element of an `await asyncio.wait(...)` result."""
    for n in ast.walk(f.node):
        if isinstance(n, ast.Assign) and isinstance(n.value, ast.Await) and isinstance(n.value.value, ast.Call) \
                and (dotted(n.value.value.func) or "").endswith("asyncio.wait"):
            for t in n.targets:
                if isinstance(t, ast.Tuple) and len(t.elts) == 2:
                    for i, el in enumerate(t.elts):
                        if isinstance(el, ast.Name) and el.id == name:
                            return "done" if i == 0 else "pending"
    return None


def done_env(f, task_names: set[str], done: bool) -> dict:
    def fn(text, node):
        if isinstance(node, ast.Call) and isinstance(node.func, ast.Attribute) and node.func.attr == "done" \
                and isinstance(node.func.value, ast.Name) and node.func.value.id in task_names:
            return done
        if isinstance(node, ast.Compare) and isinstance(node.ops[0], ast.In) and isinstance(node.left, ast.Name) \
                and node.left.id in task_names and isinstance(node.comparators[0], ast.Name):
            part = _wait_partition(f, node.comparators[0].id)
            if part == "done":
                return done
            if part == "pending":
                return not done
        return None

    return {"*done": fn}


def cancel_env(is_set: bool) -> dict:
    def fn(text, node):
        if isinstance(node, ast.Call) and isinstance(node.func, ast.Attribute) and node.func.attr == "is_set" and _mentions(node.func.value, "cancel_event"):
            return is_set
        return None

    return {"*cancel": fn}


def race(ctx: Ctx, rule: str = "R-C02-RACE") -> None:
    f = ctx.func(f"{C.RUNNER}._process_with_event")
    g = ctx.cfg(f)
    rejects = [n for n in g.calls() if C.broker_op(ctx, n, ("reject",))]
    ctx.require(len(rejects) >= 1, f"{f.qualname}: no reject call (anchor vanished)")
    # names of the processing task: locals bound to create_task(self.process(...))
    tasks = set()
    for n in ast.walk(f.node):
        if isinstance(n, ast.Assign) and isinstance(n.value, ast.Call) and (dotted(n.value.func) or "").endswith("create_task"):
            if any(isinstance(c, ast.Call) and (dotted(c.func) or "").endswith(".process") for a in n.value.args for c in ast.walk(a)):
                tasks |= {t.id for t in n.targets if isinstance(t, ast.Name)}
    ctx.require(bool(tasks), f"{f.qualname}: processing task creation not found (anchor vanished)")
    for rj in rejects:
        r = flow.reach_under(g, {**done_env(f, tasks, True)}, flow.NORMAL_KINDS)
        ctx.check(rj.id not in r, rule, f, "reject of a message whose processing task is done",
                  "reject unreachable once the processing task has completed",
                  "_process_with_event rejects the message even when the processing task has already completed (cancel event set in the "
                  "same loop step): the message is both disposed (ack/nack/requeue) and returned to the queue", node=rj,
                  instance="reject guarded by task-not-done")
        r2 = flow.reach_under(g, {**done_env(f, tasks, False), **cancel_env(True)}, flow.NORMAL_KINDS)
        ctx.check(rj.id in r2, rule, f, "reject reachable on cancel of a running task", "a cancelled running task's message is returned",
                  "with the cancel event set and the task still running the message is not rejected (it would stay in flight)", node=rj,
                  instance="reject on cancel")
        cancels = [n.id for n in g.calls() if isinstance(n.ast.func, ast.Attribute) and n.ast.func.attr == "cancel"
                   and isinstance(n.ast.func.value, ast.Name) and n.ast.func.value.id in tasks]
        ctx.check(bool(cancels) and flow.must_pass(g, g.entry.id, [rj.id], cancels, flow.NORMAL_KINDS), rule, f,
                  "task cancelled before reject", "the processing task is cancelled before its message is returned",
                  "the message is rejected without cancelling its processing task first: the actor keeps running and its later "
                  "disposition is a second terminal action", node=rj, instance="cancel precedes reject")
    # on the not-cancelled branch the task is awaited (its exception is retrieved, the slot is held until it ends)
    r3 = flow.reach_under(g, {**cancel_env(False)}, flow.NORMAL_KINDS)
    awaited = [n for n in g.nodes if n.kind == "await" and isinstance(n.ast, ast.Await) and isinstance(n.ast.value, ast.Name) and n.ast.value.id in tasks]
    ctx.check(any(a.id in r3 for a in awaited), rule, f, "await of the processing task when not cancelled", "task awaited",
              "when not cancelled _process_with_event does not await the processing task: the concurrency slot is released while the actor still runs",
              instance="task awaited")


def survive(ctx: Ctx, rule: str = "R-C02-SURVIVE") -> None:
    f = ctx.func(f"{C.RUNNER}._run_consumer")
    from .runner import RC_EXCLUDE

    g = ctx.icfg(f, exclude=RC_EXCLUDE)
    spawns = []
    inline_awaits = []
    for n in g.calls():
        if (n.callee or "").endswith("_process_with_event") or (n.callee or "").endswith(".process"):
            parent_is_task = any(isinstance(c, ast.Call) and (dotted(c.func) or "").endswith("create_task")
                                 and any(x is n.ast for a in c.args for x in ast.walk(a)) for c in ast.walk(n.func.node))
            (spawns if parent_is_task else inline_awaits).append(n)
    ctx.floor(rule, len(spawns), 1, "create_task(self._process_with_event(...)) sites in _run_consumer")
    ctx.check(not inline_awaits, rule, f, "processing spawned as tasks", "actor outcomes cannot propagate into the consume loop",
              "the consume loop runs message processing inline (not as a task): an exception from processing ends the consumer", instance="spawned, not inline")
    cb = ctx.func(f"{C.RUNNER}._task_callback")
    bad = [n for n in ast.walk(cb.node) if isinstance(n, ast.Call) and isinstance(n.func, ast.Attribute) and n.func.attr in ("result",)]
    ctx.check(not bad, rule, cb, "no task.result() in the done-callback", "a failed task does not raise inside the callback before the slot is released",
              "_task_callback calls task.result(): for a failed processing task it raises inside the callback", instance="callback does not re-raise")
