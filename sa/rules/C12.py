"""C12 - Expired messages are never executed; live ones are never dropped."""
from __future__ import annotations

import ast

from .. import flow
from ..engine import Ctx
from ..model import dotted, unparse
from . import common as C
from .C11 import _topic_env
from .C19 import overdue_siblings
from .ladder import check_prepare_reschedule, check_prepare_retry
from .shared import _mentions, category_env

SUMMARY = "Must-pass-through of the overdue test on each consumer's NORMAL path, sibling agreement on the category restriction and on the expiry comparison, ownership of +dead events."
DECIDED = [
    "R-C12-GATE: on each consumer's NORMAL path every route from 'message taken' to 'message handed out' passes the is_overdue test with the "
    "false outcome; the true outcome's only effect is 'to the dead-letter place' (in-memory dead.append, Redis nack, RabbitMQ basic_nack(requeue=False)) and no hand-out",
    "R-C12-RETRIEVABLE: the overdue test is restricted to the NORMAL category in all three consumers (an expired dead letter stays consumable)",
    "R-C12-CMP: the four is_overdue implementations agree: now > timestamp + ttl (strict), False exactly when ttl is None",
    "R-C12-DEADOWN: the only events that add to a dead-letter place are the overdue branch, the nack operation, reject of a message taken "
    "from dead and the Redis orphan-data branch",
    "R-C12-CLOCK: reschedule restarts the time-to-live clock, retry does not (shared with C06-RESET / C04-STEP)",
    "R-C12-CLOCK (stored): Redis requeue overwrites payload and parameters with HSET (HSETNX would keep the old clock); R-C12-RETRIEVABLE (names): dead-letter list names carry the message's priority",
    "R-C12-CMP (clock family): every clock reading / timestamp conversion in repid belongs to one family (naive local); R-C12-CLOCK (fresh defaults): timestamps default per object",
    "R-C12-GATE (round 5): category comparisons by equality",
    "R-C12-CLOCK (round 6): Job._construct_parameters / _construct_routing_key keep nothing on the job (a modified, re-enqueued job sends its current timestamp and ttl)",
    "R-C12-AWAITED: in the files this property is anchored in, no bare statement calls a coroutine function (the operation would never run)",
]
NOT_DECIDED = ["the instant of the test relative to the expiry on a real clock"]
ASSUMPTIONS = ["RabbitMQ dead-letters a nacked (requeue=False) message to the queue's DLX routing key (topology checked by C05-POLL)"]


def run(ctx: Ctx) -> None:
    from .shared import every_operation_awaited

    every_operation_awaited(ctx, "R-C12-AWAITED")  # in the files this property is anchored in, no asynchronous operation is created and dropped
    from .shared import category_equality

    category_equality(ctx, "R-C12-GATE")
    from .shared import fresh_defaults

    with ctx.as_rule("R-C12-CLOCK"):
        fresh_defaults(ctx, "R-C12-CLOCK")  # the time-to-live clock starts when the object is built, not when the module was imported
    gate(ctx)
    overdue_siblings(ctx, "R-C12-CMP")
    from .shared import job_constructs_fresh

    job_constructs_fresh(ctx, "R-C12-CLOCK")
    from .shared import clock_family

    clock_family(ctx, "R-C12-CMP")
    deadown(ctx)
    check_prepare_reschedule(ctx, "R-C12-CLOCK")
    check_prepare_retry(ctx, "R-C12-CLOCK")
    from .brokers import redis_op_fields, redis_queue_names

    redis_op_fields(ctx, "R-C12-CLOCK")  # the restarted clock (fresh timestamp in the requeued parameters) is really stored
    redis_queue_names(ctx, "R-C12-RETRIEVABLE")  # dead-lettered expired messages are filed where the DEAD reader of their priority looks


def _env(overdue: bool, category: str, extra=None):
    base = _topic_env(False, overdue, extra)
    cat = category_env(category == "NORMAL", category)
    return {**base, **cat}


def gate(ctx: Ctx) -> None:
    # ---------------- in-memory: the overdue test lives on the NORMAL path only (__consume_normal)
    f = ctx.func(f"{C.INMEM_CONS}.__consume_normal")
    g = ctx.cfg(f)
    r = flow.reach_under(g, _env(True, "NORMAL"), flow.NORMAL_KINDS)
    calls = [g.nodes[i] for i in r if g.nodes[i].kind == "call"]
    dead = [c for c in calls if C.attr_chain(c.ast.func)[-2:] == ["dead", "append"]]
    back = [c for c in calls if C.attr_chain(c.ast.func)[-2:] == ["simple", "put_nowait"]]
    rets = [g.nodes[i] for i in r if g.nodes[i].kind == "return"]
    ok = len(dead) == 1 and not back and bool(rets) and all(C.is_const(x.ast.value, None) for x in rets) and unparse(dead[0].ast.args[0]) == "msg"
    ctx.check(ok, "R-C12-GATE", f, "in-memory: overdue -> dead, not handed out", "dead.append(msg); return None",
              f"in-memory __consume_normal on an overdue message: dead-lettered={len(dead)}, put back={len(back)}, returns={[unparse(x.ast.value) for x in rets]}", instance="in-memory overdue")
    r = flow.reach_under(g, _env(False, "NORMAL"), flow.NORMAL_KINDS)
    dead = [g.nodes[i] for i in r if g.nodes[i].kind == "call" and "dead" in C.attr_chain(g.nodes[i].ast.func)]
    handed = [g.nodes[i] for i in r if g.nodes[i].kind == "return" and dotted(g.nodes[i].ast.value) == "msg"]
    ctx.check(not dead and len(handed) == 1, "R-C12-GATE", f, "in-memory: live message handed out, never dead-lettered", "return msg", "in-memory __consume_normal dead-letters (or withholds) a live message",
              instance="in-memory live")
    r = flow.reach_under(g, {**_topic_env(True, False), **category_env(True, "NORMAL")}, flow.NORMAL_KINDS)
    dead = [g.nodes[i] for i in r if g.nodes[i].kind == "call" and "dead" in C.attr_chain(g.nodes[i].ast.func)]
    ctx.check(not dead, "R-C12-GATE", f, "in-memory: a live message of a foreign topic is not dead-lettered", "no +dead without expiry",
              "in-memory __consume_normal dead-letters a live message (foreign topic) - never dead-lettered for a reason other than expiry", instance="in-memory live foreign")
    tests = [t for t in g.nodes if t.kind == "test" and _mentions(t.ast, "is_overdue")]
    ok = len(tests) == 1 and unparse(tests[0].ast) == "msg.parameters.is_overdue"
    ctx.check(ok, "R-C12-GATE", f, "in-memory: the test reads the taken message's own parameters", "msg.parameters.is_overdue", f"in-memory overdue test is {[t.label for t in tests]}", instance="in-memory test operand")
    for hn in [n for n in g.nodes if n.kind == "return" and dotted(n.ast.value) == "msg"]:
        ctx.check(flow.must_pass(g, g.entry.id, [hn.id], [t.id for t in tests], flow.NORMAL_KINDS), "R-C12-GATE", f, "in-memory: hand-out passes the overdue test", "must-pass-through",
                  "in-memory __consume_normal can hand out a message without testing is_overdue", node=hn, instance="in-memory must-pass")
    for other in ("__consume_delayed", "__consume_dead"):
        of = ctx.func(f"{C.INMEM_CONS}.{other}")
        ctx.check(not _mentions(of.node, "is_overdue"), "R-C12-RETRIEVABLE", of, f"in-memory {other}: no overdue test", "expired delayed/dead messages stay retrievable",
                  f"in-memory {other} applies the overdue test to a non-NORMAL category", instance=f"in-memory {other}")
    disp = ctx.func(f"{C.INMEM_CONS}.__init__")
    want_map = {"NORMAL": "__consume_normal", "DELAYED": "__consume_delayed", "DEAD": "__consume_dead"}
    d = [n for n in ast.walk(disp.node) if isinstance(n, ast.Dict) and len(n.keys) == 3]
    ok = len(d) == 1 and {dotted(k).split(".")[-1]: dotted(v).split(".")[-1] for k, v in zip(d[0].keys, d[0].values)} == want_map
    if not d:
        # the same table written as a selector method: `if category == MessageCategory.X: return self.__consume_x`
        for sel in ctx.prog.cls(C.INMEM_CONS).methods.values():
            rets_ = [r for r in C.own_returns(sel) if isinstance(r.value, ast.Attribute) and dotted(r.value.value) == "self" and r.value.attr in want_map.values()]
            if len(rets_) == 3:
                gs = ctx.cfg(sel)
                got_map = {}
                for cat in want_map:
                    rr = flow.reach_under(gs, category_env(cat == "NORMAL", cat), flow.NORMAL_KINDS)
                    got_map[cat] = sorted({n.ast.value.attr for n in gs.nodes if n.kind == "return" and n.id in rr and isinstance(n.ast.value, ast.Attribute)})
                ok = got_map == {k: [v] for k, v in want_map.items()}
                disp = sel
    ctx.check(ok, "R-C12-RETRIEVABLE", disp, "in-memory category dispatch", "NORMAL/DELAYED/DEAD -> their own readers", "in-memory category dispatch table changed", instance="in-memory dispatch")
    # ---------------- redis
    f = ctx.func(f"{C.REDIS_CONS}.consume_or_none")
    g = ctx.cfg(f)
    nacks = [n for n in g.calls() if C.broker_op(ctx, n, ("nack",))]
    rets = [n for n in g.nodes if n.kind == "return" and not C.is_const(n.ast.value, None)]
    ctx.require(bool(nacks) and bool(rets), f"{f.qualname}: nack / hand-out not found")

    def got_none(text, node):
        if isinstance(node, ast.Compare) and isinstance(node.ops[0], ast.Is) and dotted(node.left) == "msg" and C.is_const(node.comparators[0], None):
            return False
        return None

    for cat in ("NORMAL", "DELAYED", "DEAD"):
        for overdue in (True, False):
            r = flow.reach_under(g, _env(overdue, cat, got_none), flow.NORMAL_KINDS)
            nk = any(n.id in r for n in nacks)
            want_nack = overdue and cat == "NORMAL"
            # hand-out in the same iteration: from the test's outcome
            tests = [t for t in g.nodes if t.kind == "test" and _mentions(t.ast, "is_overdue")]
            ctx.require(len(tests) == 1, f"{f.qualname}: expected one is_overdue test")
            first = flow.reach_under(g, _env(overdue, cat, got_none), flow.NORMAL_KINDS, start=tests[0].id, blocked={n.id for n in g.nodes if n.kind == "iter"})
            handed = any(x.id in first for x in rets)
            rule = "R-C12-GATE" if cat == "NORMAL" else "R-C12-RETRIEVABLE"
            ctx.check(nk == want_nack and handed == (not want_nack), rule, f, f"redis consumer[{cat}], overdue={overdue}", "nack, not handed out" if want_nack else "handed out, not nacked",
                      f"redis consume_or_none for category {cat} with an {'overdue' if overdue else 'live'} message: nack={'yes' if nk else 'no'}, handed out={'yes' if handed else 'no'}"
                      + (" - an expired dead letter is re-dead-lettered forever and can never be retrieved" if cat != "NORMAL" and nk else ""), node=nacks[0],
                      instance=f"redis[{cat},{overdue}]")
    for nk in nacks:
        ctx.check(unparse(nk.ast.args[0]) == "key" if nk.ast.args else False, "R-C12-GATE", f, "redis: nack of the taken message's key", "nack(key)", f"redis nacks {unparse(nk.ast)}", node=nk, instance="redis nack key")
    t = [t for t in g.nodes if t.kind == "test" and _mentions(t.ast, "is_overdue")][0]
    ctx.check("params.is_overdue" in unparse(t.ast) and any(isinstance(n, ast.Assign) and isinstance(n.targets[0], ast.Tuple) and unparse(n.targets[0]) in ("(key, _, params)", "key, _, params")
                                                            and dotted(n.value) == "msg" for n in ast.walk(f.node)), "R-C12-GATE", f, "redis: the test reads the taken message's parameters",
              "key, _, params = msg", "redis overdue test does not read the taken message's own parameters", instance="redis test operand")
    for hn in rets:
        ctx.check(flow.must_pass(g, g.entry.id, [hn.id], [t.id], flow.NORMAL_KINDS) and dotted(hn.ast.value) == "msg", "R-C12-GATE", f, "redis: hand-out passes the overdue test", "must-pass-through",
                  "redis consume_or_none can hand out a message without testing is_overdue", node=hn, instance="redis must-pass")
    bc = ctx.func(f"{C.REDIS_CONS}.backgroud_consume")
    puts = [c for c in ast.walk(bc.node) if isinstance(c, ast.Call) and dotted(c.func) == "self.queue.put"]
    ok = len(puts) == 1 and isinstance(puts[0].args[0], ast.Name) and any(isinstance(d, ast.Await) and isinstance(d.value, ast.Call) and (dotted(d.value.func) or "").endswith("consume_or_none")
                                                                          for d in C.local_defs(bc, puts[0].args[0].id))
    ctx.check(ok, "R-C12-GATE", bc, "redis: only messages from consume_or_none reach the local queue", "queue.put(await consume_or_none())", "redis background consumer queues messages that bypass consume_or_none",
              instance="redis single hand-out path")
    # ---------------- rabbitmq
    f = ctx.func(f"{C.RABBIT_CONS}.on_new_message")
    g = ctx.cfg(f)

    def active(text, node):
        if isinstance(node, ast.Attribute) and node.attr == "__is_paused":
            return False
        if isinstance(node, ast.Attribute) and node.attr == "__is_consuming":
            return True
        return None

    nacks = [n for n in g.calls() if (n.callee or "").endswith("basic_nack")]
    puts = [n for n in g.calls() if (n.callee or "") == "self.queue.put"]
    tagst = [n for n in g.nodes if n.kind == "store" and "_id_to_delivery_tag" in (n.target or n.label)]
    ctx.require(bool(nacks) and bool(puts), f"{f.qualname}: basic_nack / queue.put not found")
    for cat in ("NORMAL", "DELAYED", "DEAD"):
        for overdue in (True, False):
            r = flow.reach_under(g, _env(overdue, cat, active), flow.NORMAL_KINDS)
            nk = any(n.id in r for n in nacks)
            handed = any(p.id in r for p in puts)
            want_nack = overdue and cat == "NORMAL"
            rule = "R-C12-GATE" if cat == "NORMAL" else "R-C12-RETRIEVABLE"
            ctx.check(nk == want_nack and handed == (not want_nack), rule, f, f"rabbitmq consumer[{cat}], overdue={overdue}", "basic_nack(requeue=False), not handed out" if want_nack else "handed out",
                      f"rabbitmq on_new_message for category {cat} with an {'overdue' if overdue else 'live'} message: nack={'yes' if nk else 'no'}, handed out={'yes' if handed else 'no'}",
                      node=nacks[0], instance=f"rabbitmq[{cat},{overdue}]")
            if want_nack:
                ctx.check(not any(s.id in r for s in tagst), rule, f, "rabbitmq: an overdue message is not registered as held", "no delivery tag stored", "rabbitmq registers an overdue message as held", instance="rabbitmq overdue not held")
    r = flow.reach_under(g, {**_topic_env(True, False, active), **category_env(True, "NORMAL")}, flow.NORMAL_KINDS)
    ctx.check(not any(n.id in r for n in nacks), "R-C12-GATE", f, "rabbitmq: a live message of a foreign topic is not dead-lettered", "no nack without expiry",
              "rabbitmq on_new_message nacks (dead-letters) a live message of a foreign topic", instance="rabbitmq live foreign")
    for nk in nacks:
        ok = unparse(nk.ast.args[0]) == "message.delivery_tag" and C.is_const(C.kw(nk.ast, "requeue"), False)
        ctx.check(ok, "R-C12-GATE", f, "rabbitmq: basic_nack(delivery_tag, requeue=False)", "dead-lettered through the DLX", f"rabbitmq overdue branch calls {unparse(nk.ast)[:80]}", node=nk, instance="rabbitmq nack call")
    tests = [t for t in g.nodes if t.kind == "test" and _mentions(t.ast, "is_overdue")]
    ok = len(tests) == 1 and "params.is_overdue" in unparse(tests[0].ast) and any(unparse(d) == "self.broker.PARAMETERS_CLASS.decode(decoded['parameters'])" for d in C.local_defs(f, "params"))
    ctx.check(ok, "R-C12-GATE", f, "rabbitmq: the test reads the delivered message's parameters", "params = decode(body parameters)", "rabbitmq overdue test does not read the delivered message's parameters",
              instance="rabbitmq test operand")
    for p in puts:
        ctx.check(flow.must_pass(g, g.entry.id, [p.id], [t.id for t in tests], flow.NORMAL_KINDS), "R-C12-GATE", f, "rabbitmq: hand-out passes the overdue test", "must-pass-through",
                  "rabbitmq on_new_message can hand out a message without testing is_overdue", node=p, instance="rabbitmq must-pass")


def deadown(ctx: Ctx, rule="R-C12-DEADOWN") -> None:
    allowed = {
        f"{C.INMEM_CONS}.__consume_normal": "overdue branch",
        f"{C.INMEM_BROKER}.nack": "nack operation",
        f"{C.REDIS_BROKER}.__mark_dead": "helper of nack / reject-to-dead",
        f"{C.REDIS_CONS}.__get_message_details": "orphan-data branch",
    }
    sites = []
    for fn in ctx.prog.iter_functions():
        if not fn.module.name.startswith("repid.connections"):
            continue
        for c in ast.walk(fn.node):
            if not (isinstance(c, ast.Call) and isinstance(c.func, ast.Attribute)):
                continue
            ch = C.attr_chain(c.func)
            if ch[-2:] == ["dead", "append"] or (ch[-1] in ("lpush", "rpush", "zadd") and c.args and isinstance(c.args[0], ast.Call) and C.is_const(C.kw(c.args[0], "dead"), True)):
                sites.append((fn, c))
            if ch[-1] == "basic_nack":
                sites.append((fn, c))
    ctx.floor(rule, len(sites), 5, "+dead event sites")
    allowed[f"{C.RABBIT_BROKER}.nack"] = "nack operation"
    allowed[f"{C.RABBIT_CONS}.on_new_message"] = "overdue branch"
    for fn, c in sites:
        ctx.check(fn.qualname in allowed, rule, fn, f"{unparse(c)[:60]} in {fn.short()}", allowed.get(fn.qualname, ""),
                  f"{fn.short()} adds a message to a dead-letter place ({unparse(c)[:70]}): only the overdue branch, nack, reject-to-dead and the Redis orphan branch may do that - "
                  "a live message would be dead-lettered for another reason", node=c, instance=f"+dead in {fn.short()}")
    md = ctx.func(f"{C.REDIS_BROKER}.__mark_dead")
    users = sorted({fn.name for fn in ctx.prog.cls(C.REDIS_BROKER).methods.values() for c in ast.walk(fn.node)
                    if isinstance(c, ast.Call) and (dotted(c.func) or "").endswith("__mark_dead")})
    ctx.check(users == ["nack", "reject"], rule, md, "redis __mark_dead used by nack and reject only", str(users), f"redis __mark_dead is called from {users}", instance="redis mark_dead users")
    rj = ctx.func(f"{C.REDIS_BROKER}.reject")
    g = ctx.cfg(rj)
    mdc = [n for n in g.calls() if (n.callee or "").endswith("__mark_dead")]

    def env(to_dead):
        def fn(text, node):
            if isinstance(node, ast.Compare) and isinstance(node.ops[0], ast.Eq) and dotted(node.left) == "reject_to" and C.is_const(node.comparators[0], "dead"):
                return to_dead
            return None
        return {"*r": fn}

    r = flow.reach_under(g, env(False), flow.NORMAL_KINDS)
    ctx.check(bool(mdc) and not any(m.id in r for m in mdc), rule, rj, "redis reject dead-letters only messages taken from dead", "reject_to == 'dead'",
              "redis reject can dead-letter a message that was not taken from the dead queue", instance="redis reject to dead")
