"""C10 - messages_limit is an upper bound and a stop condition."""
from __future__ import annotations

import ast

from .. import flow
from ..engine import Ctx
from ..model import dotted, unparse
from . import common as C
from .runner import run_consumer_symbols
from .shared import _mentions, await_map, ord_env

SUMMARY = "The spawn of a processing task is gated by the message budget, atomically with the budget update; stop condition; plugin M=1."
DECIDED = [
    "R-C10-GATE: between receiving a message and spawning its task the consume loop tests the budget (started vs max_tasks, three "
    "orderings evaluated): exhausted -> no spawn, the message is rejected and its permit released; available -> spawn; the started counter "
    "is incremented on every path to the spawn and no suspension point separates the test from the increment and the spawn",
    "R-C10-STOP: the done-callback counts a finished task before evaluating the limit and sets the stop event under it; run_one_queue "
    "cancels the consume task when the stop event is set; the surplus message is returned with reject (parameters untouched, see C03); the executions "
    "in flight at the stop get the worker's graceful_shutdown_time (argument mapping) before anything is cancelled",
    "R-C10-PLUGIN: the testing plugin builds its worker with the literal messages_limit=1 and runs it inside the wrapped enqueue after "
    "the real enqueue",
    "R-C10-GATE (shared counter): the started-executions counter compared with max_tasks is state of the runner, not a local of one queue's loop; R-C10-STOP (order): finish_gracefully precedes the consumers' finish() (C03's shutdown rules reused)",
    "R-C10-STOP (all paths): the done-callback counts the task and evaluates the limit on every path, however the task ended",
    "R-C10-STOP (round 5): the Redis finish() awaits its rejects, finish() drains only this consumer's own container, and the in-memory take records its holder before its last suspension point (C03 / C14 rules reused)",
    "R-C10-PLUGIN / R-C10-GATE (round 6): the run-on-enqueue wrapper holds no lock across its awaits; the limiter is as wide as tasks_limit whatever the budget",
    "R-C10-AWAITED: in the files this property is anchored in, no bare statement calls a coroutine function (the operation would never run)",
]
NOT_DECIDED = ["that run() returns promptly once M executions have finished (timing)"]
ASSUMPTIONS = ["C09 (ownership): tasks are spawned only by the consume loop"]


def run(ctx: Ctx) -> None:
    from .shared import every_operation_awaited

    every_operation_awaited(ctx, "R-C10-AWAITED")  # in the files this property is anchored in, no asynchronous operation is created and dropped
    gate(ctx)
    stop(ctx)
    plugin(ctx)
    from .C03 import graceful_budget, shutdown, unchanged

    unchanged(ctx, "R-C10-STOP")  # messages beyond the limit are returned untouched
    shutdown(ctx, "R-C10-STOP")  # the M started executions finish (finish_gracefully) before their messages could be handed back by finish()
    graceful_budget(ctx, "R-C10-STOP")
    from .C09 import own_rule

    with ctx.as_rule("R-C10-GATE"):
        own_rule(ctx, "R-C10-GATE")  # the limiter is as wide as tasks_limit, independent of the budget: a message beyond M is bounced at once, not held until a slot frees while the stop is under way
    from .brokers import inmem_consume_rules
    from .C03 import finish
    from .C14 import finish_own

    with ctx.as_rule("R-C10-STOP"):
        finish(ctx, "R-C10-STOP")  # run() returns only after the prefetched messages beyond M are back in their queue (the rejects are awaited)
        finish_own(ctx, "R-C10-STOP")
        inmem_consume_rules(ctx, rule_t="R-C10-STOP", rule_a="R-C10-STOP")  # a consumer cancelled at the limit has recorded everything it took, so finish() returns it  # the M started executions get the graceful period to finish, they are not cut short by another budget


def gate(ctx: Ctx, rule="R-C10-GATE") -> None:
    f = ctx.func(f"{C.RUNNER}._run_consumer")
    from .runner import RC_EXCLUDE

    g = ctx.icfg(f, exclude=RC_EXCLUDE)
    sym = run_consumer_symbols(ctx, f, g)
    spawns = [n for n in g.nodes if sym(n) == "spawn"]
    rejects = [n for n in g.nodes if sym(n) == "reject"]
    releases = [n for n in g.nodes if sym(n) == "release"]
    ctx.require(bool(spawns), f"{f.qualname}: spawn site not found")
    tests = [n for n in g.nodes if n.kind == "test" and any(_mentions(x, "max_tasks", "max_tasks_hit", "messages_limit") for x in C.expand_locals(n.func, n.ast))]
    if not ctx.check(bool(tests), rule, f, "budget test between receive and spawn", "spawn control-dependent on the message budget",
                     "the consume loop spawns a processing task without testing the message budget: messages_limit only bounds finished tasks, "
                     "so with slow actors more than messages_limit executions are started", node=spawns[0], instance="budget test exists"):
        return
    counter = None
    for t in tests:
        for c in ast.walk(t.ast):
            if isinstance(c, ast.Compare):
                for side in (c.left, c.comparators[0]):
                    d = dotted(side)
                    if d and d.startswith("self.") and "max_tasks" not in d:
                        counter = d
    if counter is None:
        # compared with something that is not state of the runner: a local of one consume loop counts per queue, not per worker
        local_cmp = sorted({dotted(side) for t in tests for c in ast.walk(t.ast) if isinstance(c, ast.Compare) for side in (c.left, c.comparators[0])
                            if isinstance(side, ast.Name)})
        if local_cmp:
            ctx.fail(rule, f, f"budget compared with local {local_cmp}", f"the consume loop compares max_tasks with the local variable(s) {local_cmp}: every queue's consume loop "
                     "counts on its own, so a worker serving several queues starts up to (queues x messages_limit) executions", node=tests[0], instance="budget counter shared by all queues")
            return
    ctx.require(counter is not None, f"{f.qualname}: the quantity compared with max_tasks not recognised")
    ctx.ok(rule, "budget counter shared by all queues", f"{counter} is state of the runner")
    cname = counter.split(".")[-1]
    for ordering in ("lt", "eq", "gt"):
        env = {}
        for fn_ in {n.func.qualname: n.func for n in g.nodes}.values():
            env.update(ord_env(g, fn_, cname, "max_tasks", ordering))
        ctx.require(bool(env), f"{f.qualname}: comparison {cname} ? max_tasks not found")
        r = flow.reach_under(g, env, flow.NORMAL_KINDS)
        sp = any(s.id in r for s in spawns)
        if ordering == "lt":
            ctx.check(sp, rule, f, f"budget left ({cname} < max_tasks) -> spawn", "task spawned", "with budget left the consume loop does not spawn",
                      instance="gate[lt]")
        else:
            rj = any(x.id in r for x in rejects)
            ctx.check(not sp and rj, rule, f, f"budget exhausted ({cname} {'==' if ordering == 'eq' else '>'} max_tasks) -> no spawn, message rejected",
                      "surplus message returned untouched",
                      f"with {cname} {'==' if ordering == 'eq' else '>'} max_tasks the consume loop {'still spawns a task' if sp else 'neither spawns nor returns the message'}",
                      node=spawns[0], instance=f"gate[{ordering}]")
            # the permit taken for the surplus message is given back and consuming stops
            trs = flow.traces(g, sym, loop_bound=2, env=env)
            trs = {t for t in trs if "reject" in t}
            ok = bool(trs) and all(t.count("acquire") == t.count("release") for t in trs) and all(t[-1] == "$exit" and t[-2] == "reject" for t in trs)
            ctx.check(ok, rule, f, f"exhausted[{ordering}]: permit released, loop left after the reject", "no leaked permit, consuming stops",
                      f"on the exhausted path the permit is not released or the loop goes on consuming: {sorted(trs, key=str)[:2]}", instance=f"gate[{ordering}] cleanup")
    # counter increment on every path to the spawn, after the test; no suspension between test and spawn
    incr = [n for n in g.nodes if n.kind == "store" and n.target == counter and isinstance(n.meta.get("value"), ast.AugAssign)
            and isinstance(n.meta["value"].op, ast.Add) and C.is_const(n.meta["value"].value, 1)]
    incr += [n for n in g.nodes if n.kind == "store" and n.target == counter and isinstance(n.meta.get("value"), ast.BinOp)]
    for s in spawns:
        ctx.check(bool(incr) and flow.must_pass(g, g.entry.id, [s.id], [i.id for i in incr], flow.NORMAL_KINDS), rule, f, f"{counter} += 1 before every spawn",
                  "each started task is counted", f"a task is spawned without counting it in {counter}: the budget is never exhausted", node=s,
                  instance="counter incremented")
        for t in tests:
            heads = {n.id for n in g.nodes if n.kind == "iter"}
            between = flow.reach(g, [t.id], flow.NORMAL_KINDS, blocked=heads) & flow.reach_back(g, [s.id], flow.NORMAL_KINDS, blocked=heads)
            susp = [g.nodes[i] for i in between if flow.is_suspension(g.nodes[i])]
            ctx.check(not susp, rule, f, "no suspension point between the budget test and the spawn", "check-then-act is atomic",
                      f"between the budget test and the spawn the loop can be suspended at {[x.label[:50] for x in susp[:2]]}: two consume loops "
                      "(several queues) can both pass the test with the same count and together start more than messages_limit executions",
                      node=susp[0] if susp else None, instance="atomic check-then-spawn")
    init = ctx.func(f"{C.RUNNER}.__init__")
    st = [n for n in ast.walk(init.node) if isinstance(n, ast.Assign) and any(dotted(t) == counter for t in n.targets)]
    ctx.check(len(st) == 1 and C.is_const(st[0].value, 0), rule, init, f"{counter} starts at 0", "fresh budget per run", f"{counter} is not initialised to 0", instance="counter init")
    mt = [n for n in ast.walk(init.node) if isinstance(n, ast.Assign) and any(dotted(t) == "self.max_tasks" for t in n.targets)]
    ctx.check(len(mt) == 1 and dotted(mt[0].value) == "max_tasks", rule, init, "self.max_tasks = max_tasks", "limit stored", "the runner does not store its max_tasks argument",
              instance="max_tasks stored")


def stop(ctx: Ctx, rule="R-C10-STOP") -> None:
    cb = ctx.func(f"{C.RUNNER}._task_callback")
    g = ctx.cfg(cb)
    incr = [n for n in g.nodes if n.kind == "store" and (n.target or "").endswith("_tasks_processed")]
    tests = [n for n in g.nodes if n.kind == "test" and _mentions(n.ast, "max_tasks_hit", "max_tasks")]
    sets = [n for n in g.calls() if (n.callee or "").endswith("stop_consume_event.set")]
    ctx.require(bool(tests) and bool(sets), f"{cb.qualname}: limit test / stop event not found")
    ctx.check(bool(incr) and all(flow.must_pass(g, g.entry.id, [t.id], [i.id for i in incr], flow.NORMAL_KINDS) for t in tests), rule, cb,
              "finished task counted before the limit is evaluated", "the M-th finished task triggers the stop",
              "_task_callback evaluates the limit before counting the finished task: the stop event is set one task late (run() does not return after M)",
              instance="count before test")
    ctx.check(bool(incr) and flow.must_pass(g, g.entry.id, [g.exit.id], [i.id for i in incr], flow.NORMAL_KINDS) and
              flow.must_pass(g, g.entry.id, [g.exit.id], [t.id for t in tests], flow.NORMAL_KINDS), rule, cb,
              "every finished task is counted and the limit evaluated, however the task ended", "no early way out of the done-callback",
              "_task_callback can return without counting the finished task / evaluating the limit (e.g. for a task that ended with an exception): the M-th execution is never "
              "registered, the stop event is never set and run() does not return although its M executions are over", instance="count on every path")

    def hit_env(hit):
        def fn(text, node):
            if isinstance(node, ast.Attribute) and node.attr == "max_tasks_hit":
                return hit
            return None
        return {"*hit": fn}

    r_hit = flow.reach_under(g, hit_env(True), flow.NORMAL_KINDS)
    r_not = flow.reach_under(g, hit_env(False), flow.NORMAL_KINDS)
    ctx.check(all(s.id in r_hit for s in sets) and not any(s.id in r_not for s in sets), rule, cb, "stop event set exactly when the limit is hit", "stop only when the limit is hit",
              "_task_callback does not set the stop event exactly when max_tasks_hit holds", instance="stop under test")
    hit = ctx.func(f"{C.RUNNER}.max_tasks_hit")
    ctx.check(_mentions(hit.node, "max_tasks") and _mentions(hit.node, "_tasks_processed"), rule, hit, "max_tasks_hit reads the limit and the finished count",
              "limit - finished - in flight", "max_tasks_hit does not depend on max_tasks and the finished-task count", instance="max_tasks_hit operands")
    cmp_ = [c for c in ast.walk(hit.node) if isinstance(c, ast.Compare)]
    ok = len(cmp_) == 1 and isinstance(cmp_[0].ops[0], ast.LtE) and C.is_const(cmp_[0].comparators[0], 0)
    ctx.check(ok, rule, hit, "max_tasks_hit: remaining budget <= 0", "hit exactly when nothing is left",
              f"max_tasks_hit compares with {unparse(cmp_[0]) if cmp_ else '?'} (boundary changed: the stop comes one task late or early)", instance="max_tasks_hit boundary")
    r1 = ctx.func(f"{C.RUNNER}.run_one_queue")
    g = ctx.cfg(r1)
    cancels = [n for n in g.calls() if (n.callee or "").endswith("consume_task.cancel")]

    def env(is_set):
        def fn(text, node):
            if isinstance(node, ast.Call) and isinstance(node.func, ast.Attribute) and node.func.attr == "is_set" and _mentions(node.func.value, "stop_consume_event"):
                return is_set
            return None
        return {"*stop": fn}

    r = flow.reach_under(g, env(True), flow.NORMAL_KINDS)
    ctx.check(bool(cancels) and any(c.id in r for c in cancels), rule, r1, "consume task cancelled when the stop event is set", "consuming stops",
              "run_one_queue does not cancel the consume task when the stop event is set", instance="run_one_queue cancels")
    waits = [n for n in g.calls() if (n.callee or "").endswith("asyncio.wait")]
    ok = any(_mentions(w.ast, "stop_consume_event_task") and _mentions(w.ast, "consume_task") and
             (dotted(C.kw(w.ast, "return_when")) or "").endswith("FIRST_COMPLETED") for w in waits)
    ctx.check(ok, rule, r1, "run_one_queue waits for stop event OR end of the consume task", "FIRST_COMPLETED over both",
              "run_one_queue does not wait on {stop event, consume task} with FIRST_COMPLETED", instance="run_one_queue wait")


def plugin(ctx: Ctx, rule="R-C10-PLUGIN") -> None:
    f = ctx.func("repid.testing.plugin._repid_app_with_worker_modifier")
    ws = [c for c in ast.walk(f.node) if isinstance(c, ast.Call) and dotted(c.func) == "Worker"]
    ctx.require(len(ws) == 1, f"{f.qualname}: Worker(...) construction not found")
    ctx.check(C.is_const(C.kw(ws[0], "messages_limit"), 1), rule, f, "Worker(messages_limit=1) in the testing plugin", "exactly the enqueued job is processed",
              f"the testing plugin builds its worker with messages_limit={unparse(C.kw(ws[0], 'messages_limit'))}", node=ws[0], instance="plugin messages_limit")
    m = ctx.func("repid.testing.modifiers.RunWorkerOnEnqueueModifier.wrapper")
    inner = m.nested.get("inner")
    ctx.require(inner is not None, f"{m.qualname}: inner wrapper not found")
    from .shared import no_lock_across_reentry

    no_lock_across_reentry(ctx, rule, inner, "an actor that enqueues a follow-up job re-enters this wrapper while the outer enqueue still holds the lock: the inner enqueue waits for the lock, the "
                           "actor for the inner enqueue, the one-message worker for the actor - enqueue never returns")
    g = ctx.cfg(inner)
    fn_calls = [n for n in g.calls() if n.callee == "fn"]
    mi = ctx.func("repid.testing.modifiers.RunWorkerOnEnqueueModifier.__init__")
    ctor_param = [p_.arg for p_ in mi.params()][2]
    ctor_attrs = {t.attr for n in ast.walk(mi.node) if isinstance(n, ast.Assign) and dotted(n.value) == ctor_param for t in n.targets if isinstance(t, ast.Attribute)}
    runs = [n for n in g.calls() if isinstance(n.ast.func, ast.Attribute) and n.ast.func.attr == "run" and isinstance(n.ast.func.value, ast.Call)
            and isinstance(n.ast.func.value.func, ast.Attribute) and n.ast.func.value.func.attr in ctor_attrs]
    ctx.require(bool(fn_calls) and bool(runs), f"{inner.qualname}: wrapped enqueue / worker run not found")
    aw = await_map(g)
    ctx.check(all(flow.must_pass(g, g.entry.id, [r.id], [aw[c.id].id for c in fn_calls if c.id in aw], flow.NORMAL_KINDS) for r in runs) and all(r.id in aw for r in runs), rule,
              inner, "worker run awaited after the real enqueue", "enqueue, then process exactly that job",
              "run-on-enqueue does not await the real enqueue before running the worker (or does not await the run)", instance="plugin order")
    rets = [n for n in g.nodes if n.kind == "return"]
    res_names = {t.id for n in ast.walk(inner.node) if isinstance(n, ast.Assign) and isinstance(n.value, ast.Await) and isinstance(n.value.value, ast.Call) and dotted(n.value.value.func) == "fn"
                 for t in n.targets if isinstance(t, ast.Name)}
    ctx.check(bool(res_names) and all(isinstance(n.ast.value, ast.Name) and n.ast.value.id in res_names for n in rets), rule, inner, "wrapped enqueue returns the real result", "result passed through",
              "run-on-enqueue wrapper does not return the real enqueue's result", instance="plugin result")
