"""C05 - Delayed messages are never delivered early and never forgotten."""
from __future__ import annotations

import ast

from .. import flow
from ..engine import Ctx
from ..model import FuncInfo, dotted, unparse
from . import common as C
from .shared import _mentions, category_env, ord_env

SUMMARY = ("Routing of every insertion by the due time, rounding direction of due-time conversions, finite-ordering "
           "evaluation of the due test, polling structure, RabbitMQ delay topology.")
DECIDED = [
    "R-C05-ROUTE: every insertion (enqueue/requeue, Redis reject) chooses waiting vs delayed by wait_until/"
    "wait_timestamp(params) of the message's own parameters; the three helper siblings return the stored next "
    "execution time when set, else the computed one, and None only without params/delay",
    "R-C05-ROUND: rounding-direction lattice on due-time conversions: the producer side never rounds down coarser than "
    "1 ms, the consumer's 'now' never rounds up; no duration anywhere in repid is taken from timedelta.seconds/.microseconds without the .days of the same value "
    "(whole days are not dropped from a delay)",
    "R-C05-CMP: the in-memory due test moves a message only when due < now (three orderings evaluated); the Redis "
    "normal-category fetch of the delayed set is score-bounded by now, the unbounded fetch is reachable only for the "
    "DELAYED category",
    "R-C05-POLL: in-memory consume refreshes delayed->waiting before and inside its idle loop; Redis looks at the delayed "
    "set before the normal list on every poll; RabbitMQ's delayed queue dead-letters into the main queue",
    "R-C05-CMP (elapsed): a deferred_until that has passed is not handed out again as next execution time (C06's first-run rule reused)",
    "R-C05-CMP (one clock): the in-memory refresh reads the clock exactly once, into a plain `now`",
    "R-C05-POLL (round 5): the Redis delayed scan ends only on an empty page (a due message behind a full page of foreign entries is still found); R-C05-ROUTE: category comparisons by equality",
    "R-C05-ROUND / R-C05-POLL / R-C05-ROUTE (round 6 + sweep): the RabbitMQ TTL is not capped; the in-memory refresh period is a constant; RabbitMQ: TTL exactly for a due time ahead, delayed queue exactly with a TTL, dead-letter route delayed -> work queue, a NORMAL consumer subscribes the work queue",
    "R-C05-AWAITED: in the files this property is anchored in, no bare statement calls a coroutine function (the operation would never run)",
    "R-C05-ROUTE (Redis sweep rules): the Redis key constructors (delayed messages live in :d lists only)",
    "R-C05-ROUTE (sweep stage two): in-memory reject decision table (DEAD -> dead, DELAYED with due time -> delayed bucket, else waiting; due time looked up for DELAYED holders only)",
]
NOT_DECIDED = ["the delivery latency bound after T (timing)", "RabbitMQ per-message TTL head-of-line blocking (server behaviour)"]
ASSUMPTIONS = ["Redis ZRANGE BYSCORE -inf..now returns only members with score <= now", "RabbitMQ dead-letters expired messages of a queue to its DLX routing key"]

INMEM_UTILS = "repid.connections.in_memory.utils"
REDIS_UTILS = "repid.connections.redis.utils"
RABBIT_UTILS = "repid.connections.rabbitmq.utils"


def run(ctx: Ctx) -> None:
    from .shared import every_operation_awaited

    every_operation_awaited(ctx, "R-C05-AWAITED")  # in the files this property is anchored in, no asynchronous operation is created and dropped
    from .brokers import inmem_reject_table

    inmem_reject_table(ctx, "R-C05-ROUTE")  # a not-yet-due message rejected by a DELAYED reader goes back to the delayed map, never to the waiting queue
    from .brokers import redis_name_constructors

    redis_name_constructors(ctx, "R-C05-ROUTE")  # delayed messages live in :d lists only (a plain qnc() is the waiting list)
    from .brokers import rabbit_enqueue_contract, rabbit_lifecycle

    rabbit_enqueue_contract(ctx, "R-C05-ROUTE")  # RabbitMQ: a TTL exactly for a due time ahead, the delayed queue exactly with a TTL, the dead-letter route delayed -> work queue
    rabbit_lifecycle(ctx, "R-C05-ROUTE")  # a NORMAL consumer subscribes the work queue, never the delayed one
    from .shared import category_equality

    category_equality(ctx, "R-C05-ROUTE")
    route_rules(ctx, "R-C05-ROUTE", ("enqueue", "requeue", "reject"))
    helper_siblings(ctx, "R-C05-ROUTE")
    from .brokers import redis_source_rules

    redis_source_rules(ctx, "R-C05-ROUTE")  # a rejected not-yet-due message goes back to the delayed set
    rounding(ctx, "R-C05-ROUND")
    from .delay import whole_duration_rule

    whole_duration_rule(ctx, "R-C05-ROUND")
    compare(ctx, "R-C05-CMP")
    poll(ctx, "R-C05-POLL")
    from .brokers import redis_scan_exhaustive

    redis_scan_exhaustive(ctx, "R-C05-POLL")  # bounded latency: a due message behind a full page of other topics' entries is still found
    from .C06 import first_run

    first_run(ctx, "R-C05-CMP")  # a due time that has already passed is not handed out again as "next execution time" (the successor would run at once, not a period later)


# ----------------------------------------------------------------------------- helpers
def none_env(names: set[str], is_none: bool) -> dict:
    def fn(text, node):
        if isinstance(node, ast.Compare) and isinstance(node.ops[0], ast.Is) and isinstance(node.comparators[0], ast.Constant) \
                and node.comparators[0].value is None:
            d = dotted(node.left)
            if d in names:
                return is_none
        if isinstance(node, ast.Name) and node.id in names:
            return not is_none
        return None

    return {"*none:" + ",".join(sorted(names)): fn}


def _calls(f: FuncInfo, pred) -> list[ast.Call]:
    return [n for n in ast.walk(f.node) if isinstance(n, ast.Call) and pred(n)]


def _is_call_to(ctx: Ctx, f: FuncInfo, c: ast.Call, qual: str) -> bool:
    return any(cal.qualname == qual for cal in ctx.res.callees(f, c))


def _wait_helper_of(ctx: Ctx, f: FuncInfo, e: ast.AST, helper_quals: tuple[str, ...]) -> ast.Call | None:
    """The wait_until/wait_timestamp call (if any) the expression e is derived from (through locals)."""
    for fn, x in C.deep_defs(ctx, f, e):
        for sub in ast.walk(x):
            if isinstance(sub, ast.Call) and any(_is_call_to(ctx, fn, sub, q) for q in helper_quals):
                return sub
    return None


# ----------------------------------------------------------------------------- ROUTE
def route_rules(ctx: Ctx, rule: str, ops=("enqueue", "requeue", "reject")) -> None:
    # ---------------- in-memory
    helper = f"{INMEM_UTILS}.wait_until"
    ctx.func(helper)
    for op in ops:
        if op == "reject":
            continue  # in-memory reject: see R-C01-SOURCE (known finding)
        f = ctx.func(f"{C.INMEM_BROKER}.{op}")
        g = flow.inline(f, ctx.res, ctx.depth, lambda n, cal: cal.cls is not None and cal.cls.qualname == C.INMEM_BROKER and cal.name not in C.BROKER_OPS)
        from .brokers import inmem_event

        def place_fn(n):
            fe = n.ast.func
            if isinstance(fe, ast.Attribute) and isinstance(fe.value, ast.Name) and fe.value.id not in ("self", "q"):
                fe = C.resolve_base(n.func, fe)  # `bucket = ...delayed.setdefault(t, [])`; `bucket.append(m)`
            return fe

        puts = [n for n in g.calls() if (inmem_event(n) or ("", ""))[:2] == ("+", "waiting")]
        dels = [n for n in g.calls() if (inmem_event(n) or ("", ""))[:2] == ("+", "delayed")]
        if not ctx.check(bool(puts) and bool(dels), rule, f, f"in-memory {op}: both insertion places present",
                         "waiting and delayed insertions found", f"in-memory {op} has no insertion into {'the waiting queue' if not puts else 'the delayed map'}: "
                         "a message with a due time would be delivered at once (or an immediate one never)", instance=f"in-memory {op}: places"):
            continue
        # the branch variable
        owner = dels[0].func
        tests = [n for n in g.nodes if n.kind == "test" and n.func is owner]
        names = set()
        for t in tests:
            for nm in C.names_in(t.ast):
                if _wait_helper_of(ctx, owner, ast.Name(id=nm, ctx=ast.Load()), (helper,)) is not None:
                    names.add(nm)
        if not ctx.check(bool(names), rule, f, f"in-memory {op}: branch on wait_until(params)", "routing decided by the due time",
                         f"in-memory {op} does not branch on the result of wait_until(params): delayed and immediate messages are not told apart",
                         node=dels[0], instance=f"in-memory {op}: branch variable"):
            continue
        for is_none in (True, False):
            r = flow.reach_under(g, none_env(names, is_none), flow.NORMAL_KINDS)
            got_put = any(p.id in r for p in puts)
            got_del = any(d.id in r for d in dels)
            ctx.check(got_put == is_none and got_del == (not is_none), rule, f, f"in-memory {op}: due time {'absent' if is_none else 'present'}",
                      f"-> {'waiting' if is_none else 'delayed'} only",
                      f"in-memory {op}: with a due time {'absent' if is_none else 'present'} the message goes to "
                      f"{'waiting' if got_put else ''}{'+' if got_put and got_del else ''}{'delayed' if got_del else ''}{'nowhere' if not (got_put or got_del) else ''}",
                      node=dels[0], instance=f"in-memory {op}: route[{'none' if is_none else 'due'}]")
        # delayed key = the due time itself; helper argument = the op's params
        for d in dels:
            dfn = place_fn(d)
            sd = [c for c in ast.walk(dfn) if isinstance(c, ast.Call) and isinstance(c.func, ast.Attribute) and c.func.attr == "setdefault"]
            keyexpr = sd[0].args[0] if sd and sd[0].args else None
            if keyexpr is None:
                # delayed[k].append form
                subs = [s for s in ast.walk(dfn) if isinstance(s, ast.Subscript) and isinstance(s.value, ast.Attribute) and s.value.attr == "delayed"]
                keyexpr = subs[0].slice if subs else None
            ok = isinstance(keyexpr, ast.Name) and keyexpr.id in names
            ctx.check(ok, rule, f, f"in-memory {op}: delayed key is the due time", "stored under its due time",
                      f"in-memory {op} files the delayed message under {unparse(keyexpr) if keyexpr is not None else '?'} instead of its due time",
                      node=d, instance=f"in-memory {op}: delayed key")
        for nm in names:
            hc = _wait_helper_of(ctx, owner, ast.Name(id=nm, ctx=ast.Load()), (helper,))
            a = C.arg(hc, 0, "params")
            ok = isinstance(a, ast.Name) and a.id in [p.arg for p in owner.params()] and a.id == "params"
            ctx.check(ok, rule, f, f"in-memory {op}: wait_until(params)", "due time of the message's own parameters",
                      f"in-memory {op}: wait_until is applied to {unparse(a) if a is not None else 'nothing'} instead of the message's parameters",
                      node=hc, instance=f"in-memory {op}: helper argument")
        if op == "requeue":
            _passthrough(ctx, rule, f, g, "in-memory requeue")
    # ---------------- redis
    helper = f"{REDIS_UTILS}.wait_timestamp"
    ctx.func(helper)
    piq = ctx.func(f"{C.REDIS_BROKER}.__put_in_queue")
    for op in ops:
        f = ctx.func(f"{C.REDIS_BROKER}.{op}")
        from .brokers import piq_sites

        calls = piq_sites(ctx, f)
        if not ctx.check(len(calls) >= 1, rule, f, f"redis {op}: uses __put_in_queue", "insertion through the routing helper",
                         f"redis {op} does not insert through __put_in_queue (routing by due time lost)", instance=f"redis {op}: helper used"):
            continue
        for c in calls:
            du = C.arg(c, 2, "delay_until")
            hc = _wait_helper_of(ctx, f, du, (helper,)) if du is not None else None
            ok = hc is not None
            ctx.check(ok, rule, f, f"redis {op}: delay_until=wait_timestamp(...)", "routing decided by the due time",
                      f"redis {op} passes delay_until={unparse(du) if du is not None else '<default None>'} to __put_in_queue: "
                      "the message is not routed by its due time", node=c, instance=f"redis {op}: delay_until")
            if hc is not None:
                a = C.arg(hc, 0, "params")
                ok = isinstance(a, ast.Name) and a.id == "params"
                ctx.check(ok, rule, f, f"redis {op}: wait_timestamp(params)", "due time of the message's own parameters",
                          f"redis {op}: wait_timestamp applied to {unparse(a) if a is not None else 'nothing'}", node=hc, instance=f"redis {op}: helper argument")
            k = C.arg(c, 0, "key")
            ctx.check(isinstance(k, ast.Name) and k.id == "key", rule, f, f"redis {op}: same key", "key unchanged",
                      f"redis {op} inserts key {unparse(k)}", node=c, instance=f"redis {op}: key")
    g = ctx.cfg(piq)
    z = [n for n in g.calls() if isinstance(n.ast.func, ast.Attribute) and n.ast.func.attr == "zadd"]
    pushes = [n for n in g.calls() if isinstance(n.ast.func, ast.Attribute) and n.ast.func.attr in ("lpush", "rpush")]
    ctx.require(bool(z) and bool(pushes), f"{piq.qualname}: zadd / lpush / rpush not found (anchor vanished)")
    for is_none in (True, False):
        r = flow.reach_under(g, none_env({"delay_until"}, is_none), flow.NORMAL_KINDS)
        gz = any(n.id in r for n in z)
        gp = any(n.id in r for n in pushes)
        ctx.check(gp == is_none and gz == (not is_none), rule, piq, f"redis __put_in_queue: due time {'absent' if is_none else 'present'}",
                  f"-> {'list' if is_none else 'sorted set'} only", f"redis __put_in_queue with delay_until {'None' if is_none else 'set'} reaches "
                  f"{'list push ' if gp else ''}{'zadd' if gz else ''}", instance=f"redis put_in_queue[{'none' if is_none else 'due'}]")
    for n in z:
        qn = C.arg(n.ast, 0, "name")
        ok_q = isinstance(qn, ast.Call) and (dotted(qn.func) or "").endswith("qnc") and C.is_const(C.kw(qn, "delayed"), True)
        ctx.check(ok_q, rule, piq, "redis zadd on the delayed set", "delayed set of the message's queue and priority",
                  f"redis __put_in_queue zadds to {unparse(qn)[:80]} instead of qnc(queue, priority, delayed=True)", node=n, instance="redis zadd key")
        mp = C.arg(n.ast, 1, "mapping")
        ok_s = isinstance(mp, ast.Dict) and len(mp.values) == 1 and "delay_until" in C.names_in(mp.values[0])
        ctx.check(ok_s, rule, piq, "redis zadd score is the due time", "score = due unix time",
                  f"redis __put_in_queue scores the delayed message with {unparse(mp)[:80]} instead of its due time", node=n, instance="redis zadd score")
    for n in pushes:
        qn = C.arg(n.ast, 0, "name")
        ok_q = isinstance(qn, ast.Call) and (dotted(qn.func) or "").endswith("qnc") and not C.kw(qn, "delayed") and not C.kw(qn, "dead")
        ctx.check(ok_q, rule, piq, f"redis {n.ast.func.attr} on the normal list", "normal list of the message's queue and priority",
                  f"redis __put_in_queue pushes to {unparse(qn)[:80]}", node=n, instance=f"redis {n.ast.func.attr} key")
    # ---------------- rabbitmq
    helper = f"{RABBIT_UTILS}.wait_until"
    ctx.func(helper)
    f = ctx.func(f"{C.RABBIT_BROKER}.enqueue")
    pubs = _calls(f, lambda c: isinstance(c.func, ast.Attribute) and c.func.attr == "basic_publish")
    ctx.require(len(pubs) == 1, f"{f.qualname}: expected one basic_publish, found {len(pubs)}")
    pub = pubs[0]
    props = C.kw(pub, "properties")
    exp = C.kw(props, "expiration") if isinstance(props, ast.Call) else None
    hc = _wait_helper_of(ctx, f, exp, (helper,)) if exp is not None else None
    ok = hc is not None and isinstance(C.arg(hc, 0, "params"), ast.Name) and C.arg(hc, 0, "params").id == "params"
    ctx.check(ok, rule, f, "rabbitmq enqueue: expiration from wait_until(params)", "per-message TTL = time left until due",
              f"rabbitmq enqueue: expiration={unparse(exp) if exp is not None else '<missing>'} is not derived from wait_until(params)", node=pub,
              instance="rabbitmq enqueue: expiration")
    rk = C.kw(pub, "routing_key")
    ok = False
    if isinstance(rk, ast.Call) and isinstance(rk.func, ast.Attribute) and rk.func.attr == "qnc":
        dl = C.kw(rk, "delayed")
        # delayed must be true exactly when an expiration is set
        if isinstance(exp, ast.Name) and dl is not None:
            ok = any(isinstance(x, ast.Compare) and isinstance(x.ops[0], ast.IsNot) and dotted(x.left) == exp.id for x in [dl]) or \
                (isinstance(dl, ast.Name) and False)
    ctx.check(ok, rule, f, "rabbitmq enqueue: delayed queue iff expiration set", "routing_key = qnc(queue, delayed=exp is not None)",
              f"rabbitmq enqueue publishes to {unparse(rk)[:80]}: delayed routing is not tied to the expiration being set", node=pub,
              instance="rabbitmq enqueue: routing key")
    # the expiration is dropped only when not positive (already due)
    if isinstance(exp, ast.Name):
        owner, vals = _expiration_values(ctx, f, exp.id)
        g = ctx.cfg(owner)
        tests = [n for n in g.nodes if n.kind == "test"]
        ok = bool(vals(g))
        for s in vals(g):
            under = False
            for t in tests:
                if isinstance(t.ast, ast.Compare) and isinstance(t.ast.ops[0], (ast.Gt, ast.GtE)) and C.is_const(t.ast.comparators[0], 0):
                    if s.id in flow.reach(g, [t.id], ("T",)) | flow.reach(g, flow.reach(g, [t.id], ("T",)), flow.NORMAL_KINDS):
                        under = True
            ok = ok and under
        ctx.check(ok, rule, f, "rabbitmq enqueue: expiration set when millis > 0", "already-due messages are published directly",
                  "rabbitmq enqueue: the expiration is not set under a `millis > 0` test", instance="rabbitmq enqueue: positive expiration")
    if "requeue" in ops:
        f = ctx.func(f"{C.RABBIT_BROKER}.requeue")
        _passthrough(ctx, rule, f, ctx.cfg(f), "rabbitmq requeue")


def _expiration_values(ctx: Ctx, f: FuncInfo, name: str):
    """Where the RabbitMQ expiration gets a value: (owner function, cfg -> nodes producing a non-None expiration). Either stores to the local in
    enqueue itself, or the non-None returns of the private helper the local is computed by."""
    defs = C.local_defs(f, name)
    if len(defs) == 1 and isinstance(defs[0], ast.Call):
        cals = [c for c in ctx.res.callees(f, defs[0], record=False) if c.qualname in {h.qualname for h in C.helper_callees(ctx, f)}]
        if len(cals) == 1:
            return cals[0], (lambda g: [n for n in g.nodes if n.kind == "return" and isinstance(n.ast, ast.Return) and n.ast.value is not None and not C.is_const(n.ast.value, None)])
    return f, (lambda g: [n for n in g.nodes if n.kind == "store" and n.target == name and not C.is_const(n.meta.get("value"), None)])


def _passthrough(ctx: Ctx, rule: str, f: FuncInfo, g, label: str) -> None:
    """requeue implemented through another function of the broker must hand over (key, payload, params) unchanged."""
    own = [p.arg for p in f.params()]
    for n in ast.walk(f.node):
        if isinstance(n, ast.Call) and isinstance(n.func, ast.Attribute) and n.func.attr in ("enqueue", "_put_in_queue") \
                and isinstance(n.func.value, ast.Name) and n.func.value.id == "self":
            for i, nm in enumerate(("key", "payload", "params")):
                v = C.arg(n, i, nm)
                ctx.check(isinstance(v, ast.Name) and v.id == nm and nm in own, rule, f, f"{label}: {nm} handed over unchanged",
                          f"{nm} forwarded", f"{label} forwards {unparse(v) if v is not None else 'nothing'} as {nm}: the re-queued message "
                          f"does not carry the new {nm}", node=n, instance=f"{label}: {nm} passthrough")


def helper_siblings(ctx: Ctx, rule: str) -> None:
    for q in (f"{INMEM_UTILS}.wait_until", f"{RABBIT_UTILS}.wait_until", f"{REDIS_UTILS}.wait_timestamp"):
        f = ctx.func(q)
        g = ctx.cfg(f)
        rets = [n for n in g.nodes if n.kind == "return"]

        def ret_kind(n):
            v = n.ast.value
            if v is None or C.is_const(v, None):
                return "None"
            ex = C.expand_locals(f, v)
            m_next = any(_mentions(x, "next_execution_time") for x in ex)
            m_comp = any(_mentions(x, "compute_next_execution_time") for x in ex)
            if m_next and m_comp:
                return "next-or-computed"
            if m_next:
                return "next"
            if m_comp:
                return "computed"
            return "other:" + unparse(v)

        def env(params_none, delay_none, next_none, comp_none=False):
            def fn(text, node):
                if isinstance(node, ast.Compare) and isinstance(node.ops[0], ast.Is) and isinstance(node.comparators[0], ast.Constant) \
                        and node.comparators[0].value is None:
                    l = node.left
                    if isinstance(l, ast.NamedExpr):
                        l = l.value
                    d = dotted(C.inline_locals(f, l)) or dotted(l) or ""
                    if d == "params":
                        return params_none
                    if d == "params.delay":
                        return delay_none
                    if d.endswith("next_execution_time") and not d.endswith("compute_next_execution_time"):
                        return next_none
                    if d.endswith("compute_next_execution_time") or any(_mentions(x, "compute_next_execution_time") for x in C.expand_locals(f, l)):
                        return comp_none
                # truthiness tests of the stored / computed time (`if scheduled:`)
                if isinstance(node, (ast.Name, ast.Attribute)):
                    d = dotted(C.inline_locals(f, node)) or unparse(C.inline_locals(f, node) or node)
                    if d.endswith("next_execution_time") and not d.endswith("compute_next_execution_time") and next_none is not None:
                        return not next_none
                    if d.endswith("compute_next_execution_time"):
                        return not comp_none
                    if d == "params" and params_none is not None:
                        return not params_none
                    if d == "params.delay" and delay_none is not None:
                        return not delay_none
                return None

            return {"*wait": fn}

        cases = [
            ("params None", env(True, None, None), {"None"}),
            ("delay None", env(False, True, None), {"None"}),
            ("next set", env(False, False, False), {"next", "next-or-computed"}),
            ("next unset, computed set", env(False, False, True, False), {"computed", "next-or-computed"}),
        ]
        for label, e, want in cases:
            r = flow.reach_under(g, e, flow.NORMAL_KINDS)
            got = {ret_kind(n) for n in rets if n.id in r}
            ctx.check(bool(got) and got <= want, rule, f, f"{f.name} [{label}]", f"returns {sorted(got)}",
                      f"{f.short()} with {label} can return {sorted(got)} but must return one of {sorted(want)}", instance=f"{f.short()}[{label}]")
        # `a or b` form: the stored time must come first
        for n in rets:
            v = n.ast.value
            if isinstance(v, ast.BoolOp) and isinstance(v.op, ast.Or):
                first = v.values[0]
                ctx.check(_mentions(first, "next_execution_time") and not _mentions(first, "compute_next_execution_time"), rule, f,
                          f"{f.name}: stored next execution time preferred", "stored time first",
                          f"{f.short()} prefers the recomputed time over the stored next_execution_time: a retry back-off or an already "
                          "scheduled iteration would be replaced by a fresh computation", node=n.ast, instance=f"{f.short()}: preference")


# ----------------------------------------------------------------------------- ROUND
def rounding_of(e: ast.AST) -> tuple[str, str]:
    """(direction, granularity) of converting a time quantity to an integer: direction in exact/down/up/nearest/unknown."""
    if isinstance(e, ast.Call):
        d = (dotted(e.func) or "")
        last = d.split(".")[-1]
        if last in ("int", "floor", "trunc") and e.args:
            return "down", _granularity(e.args[0])
        if last == "ceil" and e.args:
            return "up", _granularity(e.args[0])
        if last == "round" and e.args:
            return "nearest", _granularity(e.args[0])
        if last == "str" and e.args:
            return rounding_of(e.args[0])
    if isinstance(e, ast.BinOp) and isinstance(e.op, ast.FloorDiv):
        r = e.right
        if isinstance(r, ast.Call) and (dotted(r.func) or "").split(".")[-1] == "timedelta":
            return "down", ("ms" if any(k.arg in ("milliseconds", "microseconds") for k in r.keywords) else "s")  # duration // unit
        return "down", "s"
    return "exact", ""


def _granularity(e: ast.AST) -> str:
    for n in ast.walk(e):
        if isinstance(n, ast.BinOp) and isinstance(n.op, ast.Mult):
            for side in (n.left, n.right):
                if isinstance(side, ast.Constant) and isinstance(side.value, (int, float)) and side.value >= 1000:
                    return "ms"
    return "s"


def rounding(ctx: Ctx, rule: str) -> None:
    f = ctx.func(f"{REDIS_UTILS}.wait_timestamp")
    # returns as the lowered graph sees them: `return a if c else b` is one return per arm
    rets = [n.ast for n in ctx.cfg(f).nodes if n.kind == "return" and isinstance(n.ast, ast.Return) and n.ast.value is not None and not C.is_const(n.ast.value, None)]
    ctx.floor(rule, len(rets), 1, "non-None returns of redis wait_timestamp")
    for r in rets:
        direction, gran = rounding_of(r.value)
        ok = direction in ("up", "exact") or (direction == "down" and gran == "ms")
        ctx.check(ok, rule, f, f"redis due-time score: {unparse(r.value)}", f"rounding {direction}{'/' + gran if gran else ''} never makes the score earlier than the due time",
                  f"redis wait_timestamp converts the due time with {unparse(r.value)} (rounds {direction} at 1 {gran or 's'}): a message due at "
                  "x.9 s gets score x and is deliverable up to one second early", node=r, instance=f"redis score rounding: {unparse(r.value)[:50]}")
    f = ctx.func(f"{REDIS_UTILS}.unix_time")
    rets = [n.ast for n in ctx.cfg(f).nodes if n.kind == "return" and isinstance(n.ast, ast.Return) and n.ast.value is not None]
    ctx.floor(rule, len(rets), 1, "returns of redis unix_time")
    for r in rets:
        direction, gran = rounding_of(r.value)
        ok = direction in ("down", "exact")
        ctx.check(ok, rule, f, f"redis consumer clock: {unparse(r.value)}", f"rounding {direction}: 'now' is never ahead of the real time",
                  f"redis unix_time rounds {direction}: the consumer's 'now' can be ahead of the clock, delayed messages become deliverable early",
                  node=r, instance="redis now rounding")
        ctx.check(any(isinstance(c, ast.Call) and (dotted(c.func) or "").endswith("time.time") for c in ast.walk(r.value)), rule, f,
                  "redis consumer clock reads time.time()", "wall clock", f"redis unix_time does not read time.time(): {unparse(r.value)}", node=r,
                  instance="redis now source")
    f = ctx.func(f"{C.RABBIT_BROKER}.enqueue")
    g = ctx.cfg(f)
    # expiration value: str(millis); millis := int(... * 1000)
    pubs = [n for n in ast.walk(f.node) if isinstance(n, ast.Call) and isinstance(n.func, ast.Attribute) and n.func.attr == "basic_publish"]
    props = C.kw(pubs[0], "properties") if pubs else None
    exp = C.kw(props, "expiration") if isinstance(props, ast.Call) else None
    ctx.require(exp is not None, f"{f.qualname}: expiration property not found (anchor vanished)")
    dd = [(fn_, x) for fn_, x in C.deep_defs(ctx, f, exp) if isinstance(x, (ast.Call, ast.BinOp))]
    owner_of = {id(x): fn_ for fn_, x in dd}
    defs = [x for _, x in dd]
    conv = []
    for d in defs:
        if rounding_of(d)[0] != "exact":
            conv.append(d)
        else:
            # a conversion buried in a larger expression: `int(x.total_seconds()) * 1000` rounds at one SECOND, whatever happens to the integer afterwards
            inner = [x for x in ast.walk(d) if x is not d and isinstance(x, (ast.Call, ast.BinOp)) and rounding_of(x)[0] != "exact" and not (isinstance(x, ast.Call) and (dotted(x.func) or "") == "str")]
            for x in inner:
                if not any(x is y or any(x is z for z in ast.walk(y)) for y in conv):
                    conv.append(x)
                    owner_of[id(x)] = owner_of.get(id(d), f)
    # the TTL is the whole time left: no clamp from above (RabbitMQ knows the due time only as this TTL - a capped TTL dead-letters the message into the work queue before it is due)
    all_defs = [x for _, x in C.deep_defs(ctx, f, exp)]
    clamps = [c for d in all_defs for c in ast.walk(d) if isinstance(c, ast.Call) and (dotted(c.func) or "").split(".")[-1] == "min"]
    names_in_chain = {x.id for d in all_defs for x in ast.walk(d) if isinstance(x, ast.Name)} | ({exp.id} if isinstance(exp, ast.Name) else set())
    for st in ast.walk(f.node):
        # `if millis > LIMIT: millis = LIMIT`
        if isinstance(st, ast.If) and isinstance(st.test, ast.Compare) and isinstance(st.test.ops[0], (ast.Gt, ast.GtE)) and isinstance(st.test.left, ast.Name) and st.test.left.id in names_in_chain \
                and not C.is_const(st.test.comparators[0], 0) and any(isinstance(b, ast.Assign) and any(isinstance(t, ast.Name) and t.id == st.test.left.id for t in b.targets) for b in st.body):
            clamps.append(st.test)
    ctx.check(not clamps, rule, f, "rabbitmq expiration is not capped", "the TTL carries the whole time left",
              f"rabbitmq enqueue caps the per-message TTL ({[unparse(c)[:60] for c in clamps][:2]}): the due time exists on RabbitMQ only as this TTL, so a message due later than the cap is "
              "dead-lettered into the work queue - and delivered - before its time", node=clamps[0] if clamps else None, instance="rabbitmq expiration uncapped")
    from .delay import _component_reads

    if not any(comps & {"seconds", "microseconds"} for fn_ in [f] + C.helper_callees(ctx, f) for comps in _component_reads(fn_.node).values()):  # a component-wise conversion is judged by whole_duration_rule
        ctx.floor(rule, len(conv), 1, "integer conversions feeding the RabbitMQ expiration")
    for d in conv:
        direction, gran = rounding_of(d)
        ok = gran == "ms" or direction == "up"
        ctx.check(ok, rule, f, f"rabbitmq expiration: {unparse(d)[:60]}", f"rounding {direction} at 1 {gran} (within the stated millisecond resolution)",
                  f"rabbitmq enqueue computes the TTL with {unparse(d)[:80]}: rounds {direction} at 1 {gran}, a message can leave the delayed queue "
                  "up to a second early", node=d, instance="rabbitmq expiration rounding")
        # time left = due - now
        d_full = C.inline_locals(owner_of.get(id(d), f), d, calls="all") or d  # `remaining = due - now` may be a local of its own
        d_full = C.expand_helper_calls(ctx, owner_of.get(id(d), f), d_full)  # `self._now()` = datetime.now() unless a clock was injected
        ok2 = any(isinstance(b, ast.BinOp) and isinstance(b.op, ast.Sub) and any((dotted(c.func) or "").endswith("datetime.now") for c in ast.walk(b.right) if isinstance(c, ast.Call))
                  for b in ast.walk(d_full))
        ctx.check(ok2, rule, f, "rabbitmq expiration = due - now", "time left until due",
                  f"rabbitmq enqueue: the TTL {unparse(d)[:80]} is not (due time - now)", node=d, instance="rabbitmq expiration base")


# ----------------------------------------------------------------------------- CMP
def compare(ctx: Ctx, rule: str) -> None:
    f = ctx.func(f"{C.INMEM_CONS}.__update_delayed")
    g = ctx.cfg(f)
    puts = [n for n in g.calls() if C.attr_chain(C.resolve_base(f, n.ast.func))[-2:] == ["simple", "put_nowait"]]
    pops = [n for n in g.calls() if C.attr_chain(C.resolve_base(f, n.ast.func))[-1] == "pop" and "delayed" in C.attr_chain(C.resolve_base(f, n.ast.func))]
    pops += [n for n in g.nodes if n.kind == "store" and "del " in (n.label or "") and "delayed" in C.utext(f, n.ast, calls="all")]
    ctx.require(bool(puts), f"{f.qualname}: no put into the waiting queue (anchor vanished)")
    # the iteration variables holding a due time (loops and comprehensions over the delayed map), and 'now'
    def over_delayed(it):
        return _mentions(C.inline_locals(f, it, calls="all") or it, "delayed")

    def first_name(tgt):
        if isinstance(tgt, ast.Tuple) and tgt.elts and isinstance(tgt.elts[0], ast.Name):
            return tgt.elts[0].id
        return tgt.id if isinstance(tgt, ast.Name) else None

    loops = [n for n in ast.walk(f.node) if isinstance(n, ast.For) and over_delayed(n.iter)]
    comps = [(c, gen) for c in ast.walk(f.node) if isinstance(c, (ast.ListComp, ast.SetComp, ast.GeneratorExp, ast.DictComp)) for gen in c.generators if over_delayed(gen.iter)]
    ctx.require(len(loops) + len(comps) >= 1, f"{f.qualname}: scan of the delayed map not found")
    tvars = {first_name(lp.target) for lp in loops} | {first_name(gen.target) for _, gen in comps}
    tvars.discard(None)
    ctx.require(bool(tvars), f"{f.qualname}: due-time loop variable not recognised")
    nows = [nm for nm in {x.id for x in ast.walk(f.node) if isinstance(x, ast.Name)} if any(
        isinstance(d, ast.Call) and (dotted(d.func) or "").endswith("datetime.now") and not d.args for d in C.local_defs(f, nm))]
    clock_reads = [c for c in ast.walk(f.node) if isinstance(c, ast.Call) and (dotted(c.func) or "").endswith("datetime.now")]
    ctx.check(len(clock_reads) == 1, rule, f, "in-memory refresh reads the clock once", "one `now` for selecting, promoting and removing",
              f"__update_delayed reads the clock {len(clock_reads)} times: entries are selected for promotion and for removal against different instants, so a bucket that becomes due "
              "between two readings is removed without having been promoted (its messages vanish) or promoted twice", instance="in-memory refresh: one clock read")
    if not ctx.check(len(nows) >= 1, rule, f, "in-memory due test compares with datetime.now()", "current time",
                     "__update_delayed does not compare due times with a plain datetime.now() (the instant is shifted or not read into a local once): messages are promoted before "
                     "their due time or against a moving clock", instance="in-memory now"):
        return
    filt = [c for comp, gen in comps for c in gen.ifs]  # comprehension filters select the entries that are moved
    for ordering, want in (("gt", False), ("lt", True)):
        env = {}
        for cmp_ in ast.walk(f.node):
            if isinstance(cmp_, ast.Compare) and len(cmp_.ops) == 1:
                l, r = cmp_.left, cmp_.comparators[0]
                if isinstance(l, ast.Name) and isinstance(r, ast.Name):
                    if l.id in tvars and r.id in nows:
                        env[("ord", l.id, r.id)] = ordering
                    elif r.id in tvars and l.id in nows:
                        env[("ord", l.id, r.id)] = {"lt": "gt", "gt": "lt"}[ordering]
        ctx.require(bool(env), f"{f.qualname}: comparison between the due time and now not found")
        r_ = flow.reach_under(g, env, flow.NORMAL_KINDS)
        moved = any(p.id in r_ for p in puts)
        if filt:
            sel = [flow.eval_cond(c, env, f) for c in filt]
            ctx.require(all(v is not None for v in sel), f"{f.qualname}: filter of the due-time selection not decidable from the due/now ordering")
            moved = moved and all(sel)
        ctx.check(moved == want, rule, f, f"in-memory due test [due {ordering} now]", f"message {'moved to waiting' if want else 'stays delayed'}",
                  f"__update_delayed with due time {'after' if ordering == 'gt' else 'before'} now {'moves' if moved else 'does not move'} the message "
                  f"to the waiting queue" + (" - it becomes deliverable before its due time" if ordering == "gt" else " - it is never delivered"),
                  node=puts[0], instance=f"in-memory due ordering {ordering}")
    if filt:
        # the moving loop runs over exactly what the filter selected
        selected = {t.id for n in ast.walk(f.node) if isinstance(n, ast.Assign) and any(n.value is c for c, _ in comps) for t in n.targets if isinstance(t, ast.Name)}
        mv = [lp for lp in ast.walk(f.node) if isinstance(lp, ast.For) and ((isinstance(lp.iter, ast.Name) and lp.iter.id in selected) or any(lp.iter is c for c, _ in comps))
              and any(isinstance(c, ast.Call) and C.attr_chain(C.resolve_base(f, c.func))[-2:] == ["simple", "put_nowait"] for c in ast.walk(lp))]
        ctx.check(bool(mv), rule, f, "selected due entries are the ones moved", "the moving loop iterates over the filtered keys",
                  "__update_delayed does not move exactly the entries its due-time filter selected", instance="in-memory due selection used")
    # every entry is examined: the map is keyed by due time in insertion order, not sorted
    for lp in loops:
        exits = [x for st in lp.body for x in ast.walk(st) if isinstance(x, (ast.Break, ast.Return))]
        sorted_iter = isinstance(lp.iter, ast.Call) and dotted(lp.iter.func) == "sorted"
        ctx.check(not exits or sorted_iter, rule, f, "delayed refresh examines every entry", "no early exit from the scan of an unsorted map",
                  "__update_delayed leaves its scan of the delayed map early (break/return) although the map is in insertion order, not sorted by due time: a due message filed "
                  "behind a later-due one is never moved to the waiting queue (forgotten)", node=exits[0] if exits else None, instance="in-memory refresh exhaustive")
    if not loops:
        ctx.ok(rule, "in-memory refresh exhaustive", "the delayed map is scanned by a comprehension (no early exit possible)")
    # moved messages are removed from the delayed map (not duplicated)
    ctx.check(bool(pops), rule, f, "moved entries removed from the delayed map", "no duplicate left behind",
              "__update_delayed copies due messages to the waiting queue without removing them from the delayed map (delivered again on every refresh)",
              instance="in-memory due entries removed")
    # normal consumption never reads the delayed map directly
    cn = ctx.func(f"{C.INMEM_CONS}.__consume_normal")
    ctx.check(not _mentions(cn.node, "delayed"), rule, cn, "normal consumption reads only the waiting queue", "delayed messages invisible to normal consumers",
              "__consume_normal reads the delayed map directly", instance="in-memory normal reads simple only")

    # ---- redis
    f = ctx.func(f"{C.REDIS_CONS}.__fetch_message_name")
    fetchers = [v for k, v in f.nested.items()]
    ctx.floor(rule, len(fetchers), 3, "fetcher variants in redis __fetch_message_name")
    g = ctx.cfg(f)
    defs = {n.ast: n for n in g.nodes if n.kind == "def"}

    def fetch_env(delayed, force):
        def fn(text, node):
            if isinstance(node, ast.Name):
                if node.id == "delayed":
                    return delayed
                if node.id == "force_delayed":
                    return force
            return None

        return {"*fetch": fn}

    def kind_of(fi: FuncInfo) -> str:
        calls = [c for c in ast.walk(fi.node) if isinstance(c, ast.Call) and isinstance(c.func, ast.Attribute)]
        if any(c.func.attr == "lrange" for c in calls):
            return "list"
        z = [c for c in calls if c.func.attr in ("zrange", "zrangebyscore")]
        if z:
            c = z[0]
            bys = C.is_const(C.kw(c, "byscore"), True) or c.func.attr == "zrangebyscore"
            end = C.kw(c, "end") or C.kw(c, "max")
            if bys and isinstance(end, ast.Call) and (dotted(end.func) or "").endswith("unix_time"):
                st = C.kw(c, "start") or C.kw(c, "min")
                if isinstance(st, ast.Constant) and st.value in ("-inf", 0, "0"):
                    return "due-only"
                return "byscore-but-start=" + unparse(st)
            if bys:
                return "byscore-end=" + unparse(end)
            return "unbounded"
        return "unknown"

    want = {(False, False): "list", (False, True): "list", (True, False): "due-only", (True, True): "unbounded"}
    for (dl, fo), w in want.items():
        r = flow.reach_under(g, fetch_env(dl, fo), flow.NORMAL_KINDS)
        got = sorted({kind_of(fi) for fi in fetchers if defs.get(fi.node) is not None and defs[fi.node].id in r})
        ctx.check(got == [w], rule, f, f"redis fetcher for delayed={dl}, force_delayed={fo}", f"-> {w}",
                  f"redis __fetch_message_name(delayed={dl}, force_delayed={fo}) uses the {got} fetch instead of '{w}'"
                  + (": messages not yet due are handed to normal consumers" if (dl, fo) == (True, False) else ""),
                  instance=f"redis fetcher[{dl},{fo}]")
    # force_delayed=True only from the DELAYED-category path
    cons = ctx.prog.cls(C.REDIS_CONS)
    for m in cons.methods.values():
        for c in ast.walk(m.node):
            if isinstance(c, ast.Call) and C.is_const(C.kw(c, "force_delayed"), True):
                ctx.check(m.name == "__get_message_delayed", rule, m, "force_delayed=True call site", "only the DELAYED-category reader bypasses the due test",
                          f"{m.short()} fetches the delayed set with force_delayed=True: not-yet-due messages reach a consumer outside the DELAYED category",
                          node=c, instance=f"redis force_delayed in {m.name}")
    gm = ctx.func(f"{C.REDIS_CONS}.__get_message")
    g = ctx.cfg(gm)
    for cat, want_fn in (("NORMAL", "__get_message_normal"), ("DELAYED", "__get_message_delayed"), ("DEAD", "__get_message_dead")):
        r = flow.reach_under(g, category_env(cat == "NORMAL", cat), flow.NORMAL_KINDS)
        called = sorted({cal.name for n in g.calls() if n.id in r for cal in ctx.res.callees(gm, n.ast) if cal.name.startswith("__get_message_")})
        ctx.check(called == [want_fn], rule, gm, f"redis category dispatch [{cat}]", f"-> {want_fn}",
                  f"redis consumer of category {cat} reads through {called} instead of {want_fn}", instance=f"redis dispatch[{cat}]")


# ----------------------------------------------------------------------------- POLL
def poll(ctx: Ctx, rule: str) -> None:
    f = ctx.func(f"{C.INMEM_CONS}.consume")
    g = ctx.cfg(f)
    upd = [n for n in g.calls() if (n.callee or "").endswith("__update_delayed")]
    takes = [n for n in g.calls() if any(cal.name in ("__consume_normal", "__consume_delayed", "__consume_dead") for cal in ctx.res.callees(f, n.ast))]
    ctx.require(bool(takes), f"{f.qualname}: take call (_consume_fn()) not found")
    ctx.check(bool(upd) and flow.must_pass(g, g.entry.id, [t.id for t in takes], [u.id for u in upd], flow.NORMAL_KINDS), rule, f,
              "delayed refresh before the first take", "due messages are moved before looking at the waiting queue",
              "in-memory consume() looks at the waiting queue without first moving due delayed messages into it", instance="in-memory refresh before take")
    # inside the idle loop: a refresh is reachable from the take and leads back to the take
    cyc = [u for u in upd if any(t.id in flow.reach(g, [u.id], flow.NORMAL_KINDS) and u.id in flow.reach(g, [t.id], flow.NORMAL_KINDS) for t in takes)]
    ctx.check(bool(cyc), rule, f, "delayed refresh inside the idle polling loop", "a waiting consumer sees messages that become due later",
              "in-memory consume() never refreshes the delayed map while it idles: a message that becomes due while a consumer is already "
              "waiting is not delivered until some other call happens", instance="in-memory refresh in loop")
    if cyc:
        # the refresh in the loop must be taken after boundedly many iterations: its guard compares an accumulating counter with a constant period
        u = cyc[0]
        guards = [t for t in g.nodes if t.kind == "test" and u.id in flow.reach(g, [t.id], ("T",)) | flow.reach(g, flow.reach(g, [t.id], ("T",)), flow.NORMAL_KINDS)
                  and t.id in flow.reach(g, [takes[0].id], flow.NORMAL_KINDS)]
        ok = True
        for t in guards:
            if t.ast is not None and any(isinstance(x, ast.Compare) and isinstance(x.ops[0], (ast.Gt, ast.GtE, ast.Lt, ast.LtE))
                                         for x in ast.walk(t.ast)):
                names = C.names_in(t.ast)
                incr = [s for s in g.nodes if s.kind == "store" and s.target in names and isinstance(s.meta.get("value"), ast.AugAssign)
                        and isinstance(s.meta["value"].op, ast.Add)]
                if names and not incr and not _mentions(t.ast, "locked"):
                    ok = False
                # ... and the period it is compared with is a constant of the class, not a value derived from what the delayed map held at some earlier moment
                for x in ast.walk(t.ast):
                    if isinstance(x, ast.Compare) and isinstance(x.ops[0], (ast.Gt, ast.GtE, ast.Lt, ast.LtE)):
                        for side in (x.left, x.comparators[0]):
                            if isinstance(side, ast.Name) and any(s.target == side.id for s in incr):
                                continue
                            defs = C.local_defs(f, side.id) if isinstance(side, ast.Name) else []
                            derived = [d for d in defs if any(isinstance(c, ast.Call) for c in ast.walk(d))]
                            ctx.check(not derived and len(defs) <= 1, rule, f, "idle-loop refresh period is a constant", "the refresh comes round every UPDATE_DELAYED_EVERY seconds whatever the map held",
                                      f"in-memory consume() waits for a refresh period `{unparse(side)}` computed from the state of the delayed map ({[unparse(d)[:50] for d in defs][:2]}): a message "
                                      "that is scheduled sooner AFTER the period was computed is not promoted until the old period has run out - an unbounded delivery latency for an idle consumer",
                                      node=t.ast, instance="in-memory refresh period constant")
        ctx.check(ok, rule, f, "idle-loop refresh guard advances", "the guard's counter grows on every idle iteration",
                  "the counter guarding the periodic delayed refresh is never incremented in the idle loop", instance="in-memory refresh guard")
    # redis: delayed before normal
    f = ctx.func(f"{C.REDIS_CONS}.__get_message_normal")
    g = ctx.cfg(f)
    gets = [n for n in g.calls() if (n.callee or "").endswith("__get_message_name")]
    dl = [n for n in gets if C.is_const(C.kw(n.ast, "delayed"), True)]
    nm = [n for n in gets if not C.kw(n.ast, "delayed")]
    ctx.check(len(dl) >= 1 and len(nm) >= 1 and all(flow.must_pass(g, g.entry.id, [n.id], [d.id for d in dl], flow.NORMAL_KINDS) for n in nm), rule, f,
              "redis: delayed set polled before the normal list", "due delayed messages are not starved by a busy normal list",
              "redis __get_message_normal does not look at the delayed set before the normal list on every poll (due delayed messages can be forgotten)",
              instance="redis delayed first")
    for d in dl:
        q = C.arg(d.ast, 0, "full_queue_name")
        ok = isinstance(q, ast.Call) and (dotted(q.func) or "").endswith("qnc") and C.is_const(C.kw(q, "delayed"), True)
        ctx.check(ok, rule, f, "redis: delayed poll reads the delayed set", "qnc(queue, priority, delayed=True)",
                  f"redis delayed poll reads {unparse(q)[:60]}", node=d, instance="redis delayed poll key")
        ctx.check(not C.is_const(C.kw(d.ast, "force_delayed"), True), rule, f, "redis: normal consumer's delayed poll is due-bounded", "no force",
                  "redis normal consumer polls the delayed set with force_delayed=True", node=d, instance="redis delayed poll bounded")
    # rabbitmq topology
    f = ctx.func(f"{C.RABBIT_BROKER}.queue_declare")
    decls = [n for n in ast.walk(f.node) if isinstance(n, ast.Call) and isinstance(n.func, ast.Attribute) and n.func.attr == "queue_declare"]
    ctx.floor(rule, len(decls), 3, "queue_declare calls in rabbitmq queue_declare")

    def qkind(e, fn=None):
        if fn is not None and isinstance(e, ast.Name) and e.id != "queue_name":
            e = C.inline_locals(fn, e)
        if isinstance(e, ast.Name) and e.id == "queue_name":
            return "main"
        if isinstance(e, ast.JoinedStr):
            txt = "".join(v.value if isinstance(v, ast.Constant) else "{" + unparse(v.value) + "}" for v in e.values)
            if txt == "{queue_name}:delayed":
                return "delayed"
            if txt == "{queue_name}:dead":
                return "dead"
        if isinstance(e, ast.Call) and isinstance(e.func, ast.Attribute) and e.func.attr == "qnc":
            if C.is_const(C.kw(e, "delayed"), True):
                return "delayed"
            if C.is_const(C.kw(e, "dead"), True):
                return "dead"
            return "main"
        return "?" + unparse(e)

    seen = {}
    for d in decls:
        k = qkind(C.arg(d, 0, "queue"), f)
        args = C.kw(d, "arguments")
        dlx = None
        if isinstance(args, ast.Dict):
            for kk, vv in zip(args.keys, args.values):
                if isinstance(kk, ast.Constant) and kk.value == "x-dead-letter-routing-key":
                    dlx = qkind(vv, f)
        seen[k] = dlx
    ctx.check(seen.get("delayed") == "main", rule, f, "rabbitmq: delayed queue dead-letters into the main queue", "expired delay -> main queue",
              f"rabbitmq delayed queue dead-letters to {seen.get('delayed')!r} instead of the main queue: delayed messages never become deliverable",
              instance="rabbitmq delayed -> main")
    ctx.check(seen.get("main") == "dead", rule, f, "rabbitmq: main queue dead-letters into the dead queue", "nack -> dead queue",
              f"rabbitmq main queue dead-letters to {seen.get('main')!r} instead of the dead queue", instance="rabbitmq main -> dead")
    ctx.check("dead" in seen and seen.get("dead") is None, rule, f, "rabbitmq: dead queue declared, no further DLX", "dead letters stay",
              "rabbitmq dead queue missing or dead-lettering onwards", instance="rabbitmq dead terminal")
    q = ctx.func(f"{RABBIT_UTILS}.qnc")
    g = ctx.cfg(q)

    def qenv(dl, dd):
        def fn(text, node):
            if isinstance(node, ast.Name) and node.id == "delayed":
                return dl
            if isinstance(node, ast.Name) and node.id == "dead":
                return dd
            return None
        return {"*q": fn}

    for (dl_, dd_), w in {(False, False): "main", (True, False): "delayed", (False, True): "dead"}.items():
        r = flow.reach_under(g, qenv(dl_, dd_), flow.NORMAL_KINDS)
        vals = []
        for n in g.nodes:
            if n.kind == "return" and n.id in r:
                v = n.ast.value
                if isinstance(v, ast.Name) and v.id != "queue_name" and len(C.local_defs(q, v.id)) > 1:
                    vals += [s_.meta.get("value") for s_ in g.nodes if s_.kind == "store" and s_.target == v.id and s_.id in r]
                else:
                    vals.append(v)
        got = sorted({qkind(v, q) for v in vals})
        ctx.check(got == [w], rule, q, f"rabbitmq qnc(delayed={dl_}, dead={dd_})", f"-> {w} queue name as declared",
                  f"rabbitmq qnc(delayed={dl_}, dead={dd_}) yields {got}, which is not the declared {w} queue name", instance=f"rabbitmq qnc[{dl_},{dd_}]")
