"""Rules over repid/_runner.py shared by C09 (tasks_limit) and C10 (messages_limit)."""
from __future__ import annotations

import ast

from .. import flow
from ..cfg import Node
from ..engine import Ctx
from ..model import FuncInfo, dotted, unparse
from . import common as C
from .shared import _mentions, await_map, ord_env


def run_consumer_symbols(ctx: Ctx, f: FuncInfo, g):
    aw = await_map(g)

    def sym(n: Node):
        if n.kind == "iter" and n.meta.get("async"):
            return "recv"
        if n.kind == "call":
            d = n.callee or ""
            if d.endswith("_limiter.acquire"):
                return "acquire" if n.id in aw else "acquire-NOT-awaited"
            if d.endswith("_limiter.release"):
                return "release"
            if d.endswith("create_task") and any(isinstance(c, ast.Call) and (dotted(c.func) or "").endswith("_process_with_event") for a in n.ast.args for c in ast.walk(a)):
                return "spawn"
            if d.endswith("add_done_callback") and n.ast.args and (dotted(n.ast.args[0]) or "").endswith("_task_callback"):
                return "callback"
            op = C.consumer_op(ctx, n, ("pause", "unpause"))
            if op:
                return op
            if C.consumer_op(ctx, n, ("consume", "__anext__")):
                return "recv"  # an explicit `await consumer.consume()` loop instead of `async for ... in consumer`
            bop = C.broker_op(ctx, n)
            if bop:
                return bop
        return None

    return sym


def segments(trace: tuple) -> list[list]:
    segs: list[list] = []
    cur: list | None = None
    for s in trace:
        if s == "recv":
            if cur is not None:
                segs.append(cur)
            cur = []
        elif cur is not None:
            cur.append(s)
    if cur is not None:
        segs.append(cur)
    return segs


RC_EXCLUDE = ("_process_with_event", "process", "_task_callback", "run_one_queue")


def pair_rule(ctx: Ctx, rule: str) -> None:
    f = ctx.func(f"{C.RUNNER}._run_consumer")
    g = ctx.icfg(f, exclude=RC_EXCLUDE)
    trs = flow.traces(g, run_consumer_symbols(ctx, f, g), loop_bound=2)
    segs = {tuple(s) for t in trs for s in segments(t)}
    ctx.floor(rule, len(segs), 2, "distinct receive-to-receive segments of the consume loop")
    n_spawn = 0
    for s in sorted(segs, key=str):
        body = [x for x in s if not str(x).startswith("$")]
        acq = body.count("acquire")
        rel = body.count("release")
        sp = body.count("spawn")
        n_spawn += sp
        problems = []
        if "acquire-NOT-awaited" in body:
            problems.append("the slot acquisition is not awaited")
        if sp > 1:
            problems.append("more than one task spawned for one message")
        if acq - rel != sp:
            problems.append(f"{acq} acquire / {rel} release for {sp} spawned task(s)")
        if sp == 1:
            i = body.index("spawn")
            if "acquire" not in body[:i]:
                problems.append("task spawned before a slot was acquired")
            if "callback" not in body[i + 1:]:
                problems.append("spawned task gets no done-callback (its slot is never released)")
            if "release" in body[:i] and body[:i].count("acquire") - body[:i].count("release") < 1:
                problems.append("slot released before the task was spawned")
        if sp == 0 and body and not any(x in ("reject",) for x in body) and "$exit" not in s and acq:
            problems.append("message received and slot taken but neither processed nor returned")
        ctx.check(not problems, rule, f, f"consume-loop segment {list(map(str, s))}",
                  "one permit acquired per spawned task, done-callback attached",
                  f"_run_consumer, event sequence {list(map(str, s))} between two receives: " + "; ".join(problems),
                  instance=f"segment {'/'.join(map(str, body)) or 'empty'}")
    ctx.check(n_spawn >= 1, rule, f, "a spawning segment exists", "processing tasks are spawned", "no path of _run_consumer spawns a processing task",
              instance="spawn exists")
    # the permit of a spawned task is released on every way the task can end
    cb = ctx.func(f"{C.RUNNER}._task_callback")
    gcb = ctx.cfg(cb)
    rel_cb = [n for n in gcb.calls() if (n.callee or "").endswith("_limiter.release")]
    pwe = ctx.func(f"{C.RUNNER}._process_with_event")
    gp = ctx.cfg(pwe)
    rel_p = [n for n in gp.calls() if (n.callee or "").endswith("_limiter.release")]
    if rel_cb:
        trs = flow.traces(gcb, lambda n: "release" if n in rel_cb else None, loop_bound=2)
        counts = {sum(1 for x in t if x == "release") for t in trs if t[-1] == "$exit"}
        ctx.check(counts == {1}, rule, cb, "release count per path of _task_callback", "exactly one release on every path",
                  f"_task_callback releases the slot {sorted(counts)} times depending on the path (must be exactly once)", instance="callback releases once")
        taskp = [p.arg for p in cb.params()][1:2]
        risky = [n for n in gcb.calls() if isinstance(n.ast.func, ast.Attribute) and n.ast.func.attr in ("result", "exception")
                 and isinstance(n.ast.func.value, ast.Name) and n.ast.func.value.id in taskp]
        before = [r for r in risky if any(rc.id in flow.reach(gcb, [r.id], flow.NORMAL_KINDS) for rc in rel_cb)]
        ctx.check(not before, rule, cb, "nothing that can raise precedes the release in _task_callback",
                  "release not preceded by task.result()/task.exception()",
                  f"_task_callback calls {[b.label for b in before]} before releasing the slot: for a cancelled or failed task it raises inside the "
                  "callback and the slot leaks (the worker stalls once all slots have leaked)", node=before[0] if before else None,
                  instance="callback release not preceded by raising calls")
        ctx.check(not rel_p, rule, pwe, "single owner of the release", "only the done-callback releases", "the slot is released both in the done-callback "
                  "and in _process_with_event (double release raises the concurrency above tasks_limit)", instance="single release owner")
    else:
        ok = bool(rel_p) and all(flow.must_pass(gp, gp.entry.id, [e.id], [r.id for r in rel_p], flow.ALL_KINDS) for e in (gp.exit, gp.xexit, gp.cexit)
                                 if e.id in flow.reach(gp, [gp.entry.id], flow.ALL_KINDS))
        ctx.check(ok, rule, pwe, "slot released on every exit of the processing task", "release on normal, exceptional and cancelled exits",
                  "the concurrency slot of a processing task is not released on every way the task can end (normal / exception / cancellation): "
                  "slots leak and the worker stalls", instance="release on all task exits")


def own_rule(ctx: Ctx, rule: str) -> None:
    allowed_limiter = {f"{C.RUNNER}.__init__", f"{C.RUNNER}._run_consumer", f"{C.RUNNER}._task_callback", f"{C.RUNNER}.max_tasks_hit",
                       f"{C.RUNNER}._process_with_event"} | {h.qualname for h in C.helper_callees(ctx, ctx.func(f"{C.RUNNER}._run_consumer"))} \
        | {h.qualname for h in C.helper_callees(ctx, ctx.func(f"{C.RUNNER}._task_callback"))} | {h.qualname for h in C.helper_callees(ctx, ctx.func(f"{C.RUNNER}.max_tasks_hit"))}
    n_sites = 0
    for fn in ctx.prog.iter_functions():
        for a in ast.walk(fn.node):
            if isinstance(a, ast.Attribute) and a.attr == "_limiter":
                n_sites += 1
                ctx.check(fn.qualname in allowed_limiter, rule, fn, f"use of _limiter in {fn.short()}", "limiter touched only by the runner's loop and callback",
                          f"{fn.short()} touches the concurrency limiter: permits acquired/released outside the consume loop and the done-callback break "
                          "the 'running actors <= permits held' argument", node=a, instance=f"_limiter in {fn.short()}")
            if isinstance(a, ast.Attribute) and a.attr in ("actor_run", "_actor_run"):
                ok = fn.qualname in (f"{C.PROCESSOR}.__init__", f"{C.PROCESSOR}.process")
                ctx.check(ok, rule, fn, f"reference to {a.attr} in {fn.short()}", "actor bodies are entered only through process()",
                          f"{fn.short()} refers to {a.attr}: an actor can be executed outside process(), i.e. outside the concurrency permit", node=a,
                          instance=f"{a.attr} in {fn.short()}")
            if isinstance(a, ast.Call) and isinstance(a.func, ast.Attribute) and a.func.attr == "process" and isinstance(a.func.value, ast.Name) and a.func.value.id == "self" \
                    and fn.cls is not None and ctx.prog.is_subclass_of(fn.cls.qualname, C.PROCESSOR):
                ctx.check(fn.qualname == f"{C.RUNNER}._process_with_event", rule, fn, f"self.process(...) in {fn.short()}", "process() started only by _process_with_event",
                          f"{fn.short()} calls process() directly, outside the permit-holding task", node=a, instance=f"process in {fn.short()}")
            if isinstance(a, ast.Call) and isinstance(a.func, ast.Attribute) and a.func.attr == "_process_with_event":
                rcf_ = ctx.func(f"{C.RUNNER}._run_consumer")
                ctx.check(fn.qualname == f"{C.RUNNER}._run_consumer" or fn in C.helper_callees(ctx, rcf_), rule, fn, f"_process_with_event(...) in {fn.short()}", "spawned only by the consume loop",
                          f"{fn.short()} starts _process_with_event outside the consume loop (no permit held)", node=a, instance=f"_process_with_event in {fn.short()}")
    ctx.floor(rule, n_sites, 4, "uses of _limiter")
    init = ctx.func(f"{C.RUNNER}.__init__")
    st = [n for n in ast.walk(init.node) if isinstance(n, ast.Assign) and any(dotted(t) == "self._limiter" for t in n.targets)]
    ok = len(st) == 1 and isinstance(st[0].value, ast.Call) and (dotted(st[0].value.func) or "").endswith("Semaphore") and st[0].value.args \
        and dotted(st[0].value.args[0]) == "tasks_concurrency_limit"
    ctx.check(ok, rule, init, "self._limiter = asyncio.Semaphore(tasks_concurrency_limit)", "permits = tasks_limit",
              f"the limiter is not a Semaphore(tasks_concurrency_limit): {unparse(st[0].value) if st else 'missing'}", instance="limiter construction")
    w = ctx.func(f"{C.WORKER}._run") if f"{C.WORKER}._run" in ctx.prog.functions else ctx.func(f"{C.WORKER}.run")
    rc = [c for c in ast.walk(w.node) if isinstance(c, ast.Call) and dotted(c.func) == "_Runner"]
    ctx.require(len(rc) == 1, f"{w.qualname}: _Runner(...) construction not found")
    ctx.check(dotted(C.kw(rc[0], "tasks_concurrency_limit")) == "self.tasks_limit", rule, w, "_Runner(tasks_concurrency_limit=self.tasks_limit)", "worker setting reaches the limiter",
              f"Worker builds the runner with tasks_concurrency_limit={unparse(C.kw(rc[0], 'tasks_concurrency_limit'))}", node=rc[0], instance="tasks_limit mapping")
    ctx.check(dotted(C.kw(rc[0], "max_tasks")) == "self.messages_limit", rule, w, "_Runner(max_tasks=self.messages_limit)", "worker setting reaches the budget",
              f"Worker builds the runner with max_tasks={unparse(C.kw(rc[0], 'max_tasks'))}", node=rc[0], instance="messages_limit mapping")
    wi = ctx.func(f"{C.WORKER}.__init__")
    for attr, param in (("tasks_limit", "tasks_limit"), ("messages_limit", "messages_limit")):
        st = [n for n in ast.walk(wi.node) if isinstance(n, ast.Assign) and any(dotted(t) == f"self.{attr}" for t in n.targets)]
        ctx.check(len(st) == 1 and dotted(st[0].value) == param, rule, wi, f"self.{attr} = {param}", "constructor argument stored",
                  f"Worker.__init__ stores {unparse(st[0].value) if st else 'nothing'} as {attr}", instance=f"Worker.{attr} stored")


def pause_rule(ctx: Ctx, rule: str) -> None:
    f = ctx.func(f"{C.RUNNER}._run_consumer")
    g = ctx.icfg(f, exclude=RC_EXCLUDE)
    trs = flow.traces(g, run_consumer_symbols(ctx, f, g), loop_bound=2)
    segs = {tuple(s) for t in trs for s in segments(t)}
    saw_pause = False
    for s in sorted(segs, key=str):
        body = [x for x in s if not str(x).startswith("$")]
        if "pause" in body or "unpause" in body:
            saw_pause = True
            ok = body.count("pause") == body.count("unpause") == 1 and "acquire" in body and body.index("pause") < body.index("acquire") < body.index("unpause")
            ctx.check(ok, rule, f, f"pause/acquire/unpause order in segment {list(map(str, body))}", "pause -> wait for a slot -> unpause",
                      f"_run_consumer segment {list(map(str, body))}: consumption is not paused around the blocked acquire and resumed right after it",
                      instance=f"pause segment {'/'.join(map(str, body))}")
    ctx.check(saw_pause, rule, f, "saturated arm pauses the consumer", "flow control present", "_run_consumer never pauses the consumer when all slots are taken",
              instance="pause arm exists")

    def env(locked):
        def fn(text, node):
            if isinstance(node, ast.Call) and isinstance(node.func, ast.Attribute) and node.func.attr == "locked" and _mentions(node.func.value, "_limiter"):
                return locked
            return None
        return {"*locked": fn}

    pauses = [n for n in g.calls() if C.consumer_op(ctx, n, ("pause",))]
    r = flow.reach_under(g, env(False), flow.NORMAL_KINDS)
    ctx.check(not any(p.id in r for p in pauses), rule, f, "no pause while a slot is free", "the consumer is not paused needlessly",
              "_run_consumer pauses the consumer although a slot is free", instance="no pause when free")
    r = flow.reach_under(g, env(True), flow.NORMAL_KINDS)
    ctx.check(any(p.id in r for p in pauses), rule, f, "pause when saturated", "paused when no slot is free", "_run_consumer does not pause when saturated",
              instance="pause when saturated")
    # in-memory pause/unpause pairing contract
    pu = ctx.func(f"{C.INMEM_CONS}.pause")
    gp = ctx.cfg(pu)

    def lock_env(locked):
        def fn(text, node):
            if isinstance(node, ast.Call) and isinstance(node.func, ast.Attribute) and node.func.attr == "locked":
                return locked
            return None
        return {"*l": fn}

    acq = [n for n in gp.calls() if (n.callee or "").endswith("_paused.acquire")]
    ctx.require(bool(acq), f"{pu.qualname}: lock acquire not found")
    r = flow.reach_under(gp, lock_env(False), flow.NORMAL_KINDS)
    r2 = flow.reach_under(gp, lock_env(True), flow.NORMAL_KINDS)
    ctx.check(any(a.id in r for a in acq) and not any(a.id in r2 for a in acq), rule, pu, "in-memory pause takes the lock iff it is free",
              "idempotent pause (never blocks on its own lock)", "in-memory pause() acquires its lock when already paused (deadlock) or not when free",
              instance="in-memory pause idempotent")


# ----------------------------------------------------------------------------- pause lock protocol (consumers with an asyncio.Lock as pause flag)
def pause_lock_protocol(ctx: Ctx, rule: str) -> None:
    """The pause flag is an asyncio.Lock that pause() takes and unpause() gives back - possibly from different tasks, with nobody 'owning' it.
    Everybody else may only *pass through* it: acquire and release again before the next suspension point. A reader that keeps the lock across
    an await (e.g. `async with lock: await fetch()`) makes pause() block behind a fetch and lets unpause() release a lock the fetch task still
    believes to hold - its own release then raises and the fetch task dies, which stalls consumption."""
    from .shared import await_map

    n_locks = 0
    n_sites = 0
    for cq in (C.INMEM_CONS, C.REDIS_CONS):
        cls = ctx.prog.cls(cq)
        init = ctx.func(f"{cq}.__init__")
        locks = sorted({dotted(t) for a in ast.walk(init.node) if isinstance(a, (ast.Assign, ast.AnnAssign)) and a.value is not None
                        and isinstance(a.value, ast.Call) and (dotted(a.value.func) or "").split(".")[-1] == "Lock"
                        for t in (a.targets if isinstance(a, ast.Assign) else [a.target]) if (dotted(t) or "").startswith("self.")})
        # the pause flag is the lock pause() acquires
        pause = ctx.func(f"{cq}.pause")
        taken = {dotted(c.func.value) for c in ast.walk(pause.node) if isinstance(c, ast.Call) and isinstance(c.func, ast.Attribute) and c.func.attr == "acquire"}
        flags = [l for l in locks if l in taken]
        if not ctx.check(len(flags) == 1, rule, pause, f"{cls.name}.pause takes the pause lock", "pause flag identified",
                         f"{cls.name}.pause() does not acquire the consumer's pause lock (locks {locks}, acquired {sorted(map(str, taken))}): pausing has no effect",
                         instance=f"{cls.name}: pause flag"):
            continue
        flag = flags[0]
        n_locks += 1
        for fn in ctx.prog.iter_functions():
            if fn.cls is None or fn.cls.qualname != cq or fn.name in ("pause", "unpause", "__init__"):
                continue
            if not any(isinstance(x, ast.Attribute) and dotted(x) == flag for x in ast.walk(fn.node)):
                continue
            g = ctx.cfg(fn)
            aw = await_map(g)
            rel = [n for n in g.nodes if (n.kind == "call" and isinstance(n.ast, ast.Call) and isinstance(n.ast.func, ast.Attribute) and n.ast.func.attr == "release"
                                          and dotted(n.ast.func.value) == flag)
                   or (n.meta.get("with_exit") and dotted(getattr(n.stmt, "items", [None])[0].context_expr if getattr(n.stmt, "items", None) else None) == flag)]
            starts = []
            for n in g.nodes:
                if n.kind == "call" and isinstance(n.ast, ast.Call) and isinstance(n.ast.func, ast.Attribute) and n.ast.func.attr == "acquire" and dotted(n.ast.func.value) == flag:
                    starts.append((n, aw.get(n.id, n)))
                elif n.meta.get("with_enter") and dotted(n.ast) == flag:
                    starts.append((n, n))
            for site, start in starts:
                n_sites += 1
                susp = [x.id for x in g.nodes if flow.is_suspension(x) and x.id != start.id]
                ok = flow.must_pass(g, start.id, susp + [g.exit.id], [r.id for r in rel], flow.NORMAL_KINDS) if rel else False
                ctx.check(ok, rule, fn, f"{fn.short()} only passes through {flag}", "acquired and released again before the next suspension point",
                          f"{fn.short()} keeps {flag} across a suspension point ({site.label}): the lock is the pause *flag* which pause()/unpause() set and clear from the "
                          "runner's task - a reader holding it makes pause() wait for the read in flight, and unpause() then releases the lock under the reader, whose own "
                          "release raises RuntimeError; the fetch task dies and the consumer never delivers again (stall)", node=site,
                          instance=f"{fn.short()}: pass-through of the pause flag")
    ctx.floor(rule, n_locks, 2, "consumers with a pause lock")
    ctx.floor(rule, n_sites, 1, "pass-through sites of a pause lock")


def rabbit_pause_flag(ctx: Ctx, rule: str) -> None:
    """RabbitMQ flow control: pause() raises a flag that on_new_message honours (deliveries are bounced while it is up) and unpause() must lower
    the SAME flag - a flag that is raised but never lowered makes the consumer bounce every delivery for ever after its first saturation (stall)."""
    cq = C.RABBIT_CONS

    def const_stores(fn, value):
        return {dotted(t) for a in ast.walk(fn.node) if isinstance(a, ast.Assign) and C.is_const(a.value, value) for t in a.targets if (dotted(t) or "").startswith("self.")}

    pause, unpause, onm = ctx.func(f"{cq}.pause"), ctx.func(f"{cq}.unpause"), ctx.func(f"{cq}.on_new_message")
    raised, lowered = const_stores(pause, True), const_stores(unpause, False)
    reads = {dotted(a) for t in [x.test for x in ast.walk(onm.node) if isinstance(x, (ast.If, ast.IfExp, ast.While))] for a in ast.walk(t) if isinstance(a, ast.Attribute)}
    honoured = raised & reads
    ctx.check(bool(honoured), rule, onm, "rabbitmq on_new_message honours the pause flag", f"tests {sorted(honoured)}",
              f"rabbitmq pause() raises {sorted(raised) or 'no flag'} but on_new_message tests {sorted(r for r in reads if r.startswith('self.'))}: pausing has no effect on deliveries already on their way",
              instance="rabbitmq pause flag honoured")
    ctx.check(bool(honoured) and honoured <= lowered, rule, unpause, "rabbitmq unpause lowers the flag pause raised", f"{sorted(honoured)} = False",
              f"rabbitmq unpause() lowers {sorted(lowered) or 'no flag'} while pause() raises (and on_new_message tests) {sorted(honoured)}: after the first saturation the consumer stays paused and "
              "bounces every delivery - the worker stalls", instance="rabbitmq pause flag lowered")
    init = ctx.func(f"{cq}.__init__")
    ctx.check(honoured <= const_stores(init, False), rule, init, "rabbitmq consumer starts unpaused", "flag initialised False",
              "rabbitmq consumer does not initialise its pause flag to False", instance="rabbitmq pause flag initial")


# ----------------------------------------------------------------------------- the actor's lifetime is inside its slot
DETACHING = {"shield", "create_task", "ensure_future", "run_coroutine_threadsafe", "gather", "wait", "as_completed", "to_thread"}


def actor_contained(ctx: Ctx, rule: str) -> None:
    """A slot counts one actor invocation only if the invocation ends when its processing task ends: the coroutine returned by actor.fn(...) is
    awaited by actor_run itself - directly or as the operand of asyncio.wait_for (whose timeout cancels it). Anything that detaches it
    (shield / create_task / ensure_future ...) lets the actor keep running after the timeout freed the slot."""
    sites = []
    for fn in ctx.prog.iter_functions():
        for n in ast.walk(fn.node):
            if isinstance(n, ast.Call) and isinstance(n.func, ast.Attribute) and n.func.attr == "fn" and dotted(n.func.value) in ("actor", "actor_data", "self._actor_data"):
                sites.append((fn, n))
    ctx.floor(rule, len(sites), 1, "actor invocation sites")
    for fn, call in sites:
        parent = {}
        for a in ast.walk(fn.node):
            for ch in ast.iter_child_nodes(a):
                parent[id(ch)] = a

        def consumed(e, depth=0):
            """None if e ends up awaited in place; otherwise the text of the construct that detaches / drops it."""
            p = parent.get(id(e))
            if isinstance(p, ast.Await):
                return None
            if isinstance(p, ast.Call) and e in p.args:
                nm = (dotted(p.func) or "").split(".")[-1]
                if nm == "wait_for" and p.args and p.args[0] is e:
                    return consumed(p, depth)
                return f"{unparse(p.func)}(...)" if nm in DETACHING else f"passed to {unparse(p.func)}(...)"
            if isinstance(p, (ast.Assign, ast.AnnAssign)) and depth < 3:
                tg = p.targets[0] if isinstance(p, ast.Assign) else p.target
                if isinstance(tg, ast.Name):
                    uses = [u for u in ast.walk(fn.node) if isinstance(u, ast.Name) and u.id == tg.id and isinstance(u.ctx, ast.Load)]
                    if not uses:
                        return "never awaited"
                    for u in uses:
                        r = consumed(u, depth + 1)
                        if r is not None:
                            return r
                    return None
            return f"used in {type(p).__name__}"

        why = "asyncio.shield(...)" if getattr(call, "_shielded", False) else consumed(call)  # (the model reads shield(x) as x and marks x)
        ctx.check(why is None, rule, fn, "the actor coroutine is awaited by actor_run (directly or under wait_for)", "its lifetime ends with the processing task, timeout cancels it",
                  f"{fn.short()} does not await the actor's coroutine in place: {why} - after a timeout or cancellation of the processing task the actor body keeps running while its slot "
                  "is released, so more than tasks_limit actor bodies are in progress", node=call, instance=f"{fn.short()}: actor awaited in place")


def sync_actor_contained(ctx: Ctx, rule: str) -> None:
    """Synchronous actors run in an executor. The wrapper built by asyncify owns that executor for the duration of the call (`with Executor() as pool`):
    leaving the `with` - also when the awaiting task was cancelled by the execution timeout - waits for the worker thread / process, so the invocation
    is over before the slot is released. A shared or default executor (run_in_executor(None, ...)) lets the function run on after its slot was reused."""
    f = ctx.func("repid._asyncify.asyncify")
    inner = [nf for nf in f.nested.values() if nf.is_async]
    ctx.require(len(inner) == 1, f"{f.qualname}: the async wrapper not found")
    w = inner[0]
    runs = [c for c in ast.walk(w.node) if isinstance(c, ast.Call) and isinstance(c.func, ast.Attribute) and c.func.attr == "run_in_executor"]
    ctx.floor(rule, len(runs), 1, "run_in_executor calls in asyncify")
    withs = [x for x in ast.walk(w.node) if isinstance(x, (ast.With, ast.AsyncWith))]
    for c in runs:
        pool = c.args[0] if c.args else None
        owner = None
        if isinstance(pool, ast.Name):
            for wi in withs:
                if any(isinstance(it.optional_vars, ast.Name) and it.optional_vars.id == pool.id for it in wi.items) and any(x is c for x in ast.walk(wi)):
                    owner = wi
        ok = owner is not None and all(isinstance(it.context_expr, ast.Call) for it in owner.items)
        ctx.check(ok, rule, w, f"{unparse(c)[:60]}: executor owned by the call", "with Executor() as pool: ... run_in_executor(pool, ...)",
                  f"asyncify runs the synchronous callable with {unparse(c)[:80]}: the executor is not created and shut down (waited for) around this one call, so after an execution timeout "
                  "or cancellation the function keeps running in its thread while the slot it occupied is given to the next message (more than tasks_limit actor bodies in progress)",
                  node=c, instance="asyncify: executor scoped to the call")
