"""Rule helpers shared by several properties."""
from __future__ import annotations

import ast

from .. import flow
from ..cfg import CFG, Node, exc_ancestors
from ..engine import Ctx
from ..model import FuncInfo, dotted, unparse
from . import common as C


# ----------------------------------------------------------------------------- assumption environments
def _mentions(e: ast.AST, *names: str) -> bool:
    for n in ast.walk(e):
        if isinstance(n, ast.Attribute) and n.attr in names:
            return True
        if isinstance(n, ast.Name) and n.id in names:
            return True
    return False


_FLAG_NAMES = ("__read_only", "read_only", "_Message__read_only")


def flag_env(value: bool) -> dict:
    def fn(text: str, node: ast.AST):
        if isinstance(node, (ast.Attribute, ast.Name)) and _mentions(node, *_FLAG_NAMES):
            return value
        if isinstance(node, ast.Compare) and _mentions(node.left, *_FLAG_NAMES):
            r = node.comparators[0]
            if isinstance(r, ast.Constant) and isinstance(r.value, bool) and isinstance(node.ops[0], (ast.Is, ast.Eq)):
                return value if r.value else (not value)
        return None

    return {"*flag": fn}


def _category_member(e: ast.AST) -> str | None:
    d = dotted(e)
    if d and d.split(".")[-1] in ("NORMAL", "DELAYED", "DEAD") and "MessageCategory" in d:
        return d.split(".")[-1]
    return None


def category_env(is_normal: bool, category: str | None = None) -> dict:
    """Classifies atoms that compare a message/consumer category with MessageCategory members."""
    cat = category or ("NORMAL" if is_normal else None)

    def fn(text: str, node: ast.AST):
        if not isinstance(node, ast.Compare):
            return None
        l, r = node.left, node.comparators[0]
        if not (_mentions(l, "_category", "category") or _mentions(r, "_category", "category")):
            return None
        op = node.ops[0]
        if isinstance(op, (ast.Eq, ast.Is)):
            m = _category_member(r) or _category_member(l)
            if m is None:
                return None
            if cat is not None:
                return m == cat
            return False if m == "NORMAL" else None
        if isinstance(op, ast.In) and isinstance(r, (ast.Tuple, ast.List, ast.Set)):
            ms = [_category_member(x) for x in r.elts]
            if None in ms:
                return None
            if cat is not None:
                return cat in ms
            if ms == ["NORMAL"]:
                return False
            if "NORMAL" not in ms and set(ms) == {"DELAYED", "DEAD"}:
                return True
            return None
        return None

    return {"*category": fn}


def ord_env(g: CFG, f: FuncInfo, name_a: str, name_b: str, ordering: str) -> dict:
    """('ord', left, right) entries for every comparison in f relating something that mentions name_a with name_b."""
    env: dict = {}
    flip = {"lt": "gt", "gt": "lt", "eq": "eq"}
    for n in ast.walk(f.node):
        if not (isinstance(n, ast.Compare) and len(n.ops) == 1):
            continue
        l, r = n.left, n.comparators[0]
        if isinstance(l, ast.NamedExpr):
            l = l.value
        la = any(_mentions(x, name_a) for x in C.expand_locals(f, l))
        lb = any(_mentions(x, name_b) for x in C.expand_locals(f, l))
        ra = any(_mentions(x, name_a) for x in C.expand_locals(f, r))
        rb = any(_mentions(x, name_b) for x in C.expand_locals(f, r))
        if la and rb and not (lb or ra):
            env[("ord", ast.unparse(l), ast.unparse(r))] = ordering
        elif lb and ra and not (la or rb):
            env[("ord", ast.unparse(l), ast.unparse(r))] = flip[ordering]
    return env


# ----------------------------------------------------------------------------- Message actions
def await_map(g: CFG) -> dict[int, Node]:
    """call node id -> the await node whose operand is that call (the copy that directly follows it)."""
    out: dict[int, Node] = {}
    by_ast: dict[int, list[Node]] = {}
    for n in g.nodes:
        if n.kind == "await" and isinstance(n.ast, ast.Await) and isinstance(n.ast.value, ast.Call):
            by_ast.setdefault(id(n.ast.value), []).append(n)
    for c in g.nodes:
        if c.kind != "call" or id(c.ast) not in by_ast:
            continue
        cands = by_ast[id(c.ast)]
        if len(cands) == 1:
            out[c.id] = cands[0]
            continue
        # several copies (finally blocks, inlining): take the one reachable first by normal edges
        seen = {c.id}
        todo = [c.id]
        ids = {a.id: a for a in cands}
        found = None
        while todo and found is None:
            x = todo.pop(0)
            for y, k in g.succ[x]:
                if k != "n" or y in seen:
                    continue
                if y in ids:
                    found = ids[y]
                    break
                seen.add(y)
                todo.append(y)
        if found is not None:
            out[c.id] = found
    return out


def message_action_facts(ctx: Ctx, f: FuncInfo, g: CFG) -> dict:
    bcalls = []
    for n in g.calls():
        op = C.broker_op(ctx, n, C.TERMINAL_OPS + ("enqueue",))
        if op is not None:
            bcalls.append((n, op))
    flag_stores = [n for n in g.nodes if n.kind == "store" and (n.target or "").split(".")[-1] in _FLAG_NAMES]
    return {"broker_calls": bcalls, "await_of": await_map(g), "flag_stores": flag_stores}


EAGER = ("ack", "nack", "reject", "reschedule", "retry", "force_retry")


def eager_action_rules(ctx: Ctx, rule: str) -> None:
    anc = exc_ancestors("_NoAction")
    noact = ctx.prog.cls("repid._utils.internal_exceptions._NoAction")
    ctx.check("BaseException" in anc and "Exception" not in anc, rule, noact.qualname, "class _NoAction(BaseException)",
              "_NoAction derives from BaseException only, so `except Exception` in user code and in actor_run does not swallow it",
              f"_NoAction must be a BaseException that is not an Exception (bases: {noact.base_exprs}); otherwise the generic "
              "failure handler of actor_run treats an eager response as an actor failure", instance="_NoAction base class")
    n = 0
    for action in EAGER:
        f = ctx.func(f"{C.MSGDEP}.{action}")
        g = ctx.icfg(f, exclude=EAGER + ("__execute_callbacks",))
        aw = await_map(g)

        def symbol(node: Node, f=f):
            if node.meta.get("inlined"):
                return None  # the helper's own events are what counts
            if node.kind == "call" and isinstance(node.ast, ast.Call):
                for cal in ctx.res.callees(node.func, node.ast):
                    if cal.cls is not None and cal.cls.qualname == C.MESSAGE and cal.name in EAGER:
                        return ("super", cal.name, "awaited" if node.id in aw else "NOT-awaited")
                    if cal.cls is not None and cal.cls.qualname == C.MSGDEP and cal.name in EAGER:
                        return ("another eager action", cal.name)  # an eager action answers with the action it is named after, never with a different one
                    if cal.name == "__execute_callbacks":
                        return ("callbacks", "awaited" if node.id in aw else "NOT-awaited")
                op = C.broker_op(ctx, node)
                if op:
                    return ("broker", op)
            if node.kind == "raise" and isinstance(node.ast, ast.Raise):
                exc = node.ast.exc
                if isinstance(exc, ast.Call):
                    exc = C.call_as_expr(ctx, node.func, exc)  # `raise self.__no_action(...)`: a private builder that returns the _NoAction(...) construction
                d = dotted(exc.func) if isinstance(exc, ast.Call) else (dotted(exc) if exc is not None else None)
                return "raise _NoAction" if d and d.split(".")[-1] == "_NoAction" else f"raise {d}"
            if node.kind == "return" and node.func is f:
                return "return"  # the action itself returns (a helper's return just hands a value back)
            return None

        trs = flow.traces(g, symbol, kinds=flow.NORMAL_KINDS + ("raise",), loop_bound=ctx.loop_bound)
        want = (("super", action, "awaited"), ("callbacks", "awaited"), "raise _NoAction", "$bexit")
        bad = sorted(t for t in trs if t != want)
        n += 1
        ctx.check(not bad and trs == {want}, rule, f, f"eager protocol of MessageDependency.{action}",
                  f"all {len(trs)} path(s): super().{action}() -> callbacks -> raise _NoAction",
                  f"MessageDependency.{action} does not follow 'one super().{action}(), then callbacks, then raise _NoAction' "
                  f"on every path; offending event sequence(s): {bad[:3]}", instance=f"MessageDependency.{action}: eager protocol",
                  traces=[list(map(str, t)) for t in bad[:5]])
    ctx.floor(rule, n, 6, "eager actions")


def lazy_callback_rules(ctx: Ctx, rule: str) -> None:
    slot_targets = set()
    for name in ("set_result", "set_exception"):
        f = ctx.func(f"{C.MSGDEP}.{name}")
        g = ctx.icfg(f)
        stores = [s for s in g.nodes if s.kind == "store" and (s.target or "").startswith("self.") and "lazy" in (s.target or "")]
        if not ctx.check(len(stores) == 1, rule, f, f"lazy slot store in {name}",
                         "one store to the lazy result slot", f"MessageDependency.{name} must overwrite the single lazy result slot exactly once "
                         f"(found {len(stores)} stores)", instance=f"{name}: lazy slot overwritten"):
            continue
        st = stores[0]
        slot_targets.add(st.target)
        v = st.meta.get("value")
        binding = {}
        if st.func is not f:
            # the store lives in a private helper: read its arguments as seen from the caller
            for c_ in ast.walk(f.node):
                if isinstance(c_, ast.Call) and any(cal is st.func for cal in ctx.res.callees(f, c_, record=False)):
                    binding = C.bind_call(st.func, c_)
        ok = False
        why = "value is not functools.partial(self._callbacks.insert, len(self._callbacks), <store coroutine>)"
        if isinstance(v, ast.Call) and (dotted(v.func) or "").split(".")[-1] == "partial" and len(v.args) == 3:
            a0, a1, a2 = v.args
            c0 = C.utext(st.func, a0) == "self._callbacks.insert"
            a1 = C.inline_locals(st.func, a1)  # a temporary evaluated in set_result/set_exception (or its helper) is still "at call time"
            if isinstance(a2, ast.Name) and a2.id in binding:
                a2 = binding[a2.id]
            c1 = isinstance(a1, ast.Call) and dotted(a1.func) == "len" and len(a1.args) == 1 and dotted(a1.args[0]) == "self._callbacks"
            inner = C.nested_of(f, a2.id) if isinstance(a2, ast.Name) else None
            c2 = inner is not None and inner.is_async and any(
                C.bucket_op(ctx, n, ("store_bucket",)) for n in ctx.cfg(inner).calls())
            ok = c0 and c1 and c2
            if not c0:
                why = "the slot does not insert into self._callbacks"
            elif not c1:
                why = ("the insertion index is not len(self._callbacks) evaluated when set_result/set_exception is called: "
                       "the result store would not take the place of that call among the callbacks")
            elif not c2:
                why = "the inserted callback does not store the result bucket"
        ctx.check(ok, rule, f, f"lazy slot value in {name}",
                  "slot = partial(self._callbacks.insert, len(self._callbacks), _inner) with _inner awaiting store_bucket",
                  f"MessageDependency.{name}: {why}", node=st, instance=f"{name}: lazy slot positions the store")
        # must happen on every normal path after the validations
        must = flow.must_pass(g, g.entry.id, [g.exit.id], [st.id], flow.NORMAL_KINDS)
        ctx.check(must, rule, f, f"lazy slot store on all paths of {name}", "every normal return has overwritten the slot",
                  f"MessageDependency.{name} can return normally without registering the result store", node=st,
                  instance=f"{name}: slot stored on all paths")
    ctx.check(len(slot_targets) == 1, rule, C.MSGDEP, "single lazy slot", "set_result and set_exception share one slot (last call wins)",
              f"set_result and set_exception write different slots {sorted(slot_targets)}: both results would be stored",
              instance="single lazy slot")
    # __execute_callbacks
    f = ctx.func(f"{C.MSGDEP}.__execute_callbacks")
    g = ctx.cfg(f)

    def symbol(node: Node):
        if node.kind == "call" and isinstance(node.ast, ast.Call):
            d = dotted(node.ast.func) or ""
            if "lazy" in d:
                return "fire-slot"
            if isinstance(node.ast.func, ast.Name) and not node.in_comp and node.kind == "call":
                pass
        if node.kind == "await":
            return "await-callback" + ("*" if node.in_comp else "")
        if node.kind == "iter":
            return "iter " + unparse(node.ast.iter)
        return None

    trs = flow.traces(g, symbol, loop_bound=2)
    ok = (bool(trs) and all(t and t[0] == "fire-slot" for t in trs)
          and any(any(str(s).startswith("await-callback") for s in t) for t in trs))
    ctx.check(ok, rule, f, "order in __execute_callbacks", f"slot fired before the callbacks are awaited ({sorted(trs)[:2]})",
              f"__execute_callbacks must fire the lazy result slot first and then await the callbacks; event sequences: {sorted(trs)[:3]}",
              instance="__execute_callbacks: slot first")
    # iteration source: self._callbacks itself, in list order
    srcs = []
    for n in ast.walk(f.node):
        if isinstance(n, ast.comprehension):
            srcs.append(n.iter)
        elif isinstance(n, (ast.For, ast.AsyncFor)):
            srcs.append(n.iter)
    srcs = [x.args[0] if isinstance(x, ast.Call) and dotted(x.func) in ("list", "tuple") and len(x.args) == 1 else x for x in srcs]
    ctx.check(len(srcs) == 1 and dotted(srcs[0]) == "self._callbacks", rule, f, "iteration over self._callbacks",
              "callbacks awaited one by one in list (registration) order",
              f"__execute_callbacks iterates {[unparse(s) for s in srcs]} instead of self._callbacks in list order", instance="__execute_callbacks: list order")
    # per-callback isolation: after one callback has failed the loop goes on with the next one (the result store is one of the callbacks)
    aws = [n for n in g.nodes if n.kind == "await" and (n.in_comp or any(isinstance(l, (ast.For, ast.AsyncFor)) and any(x is n.ast for x in ast.walk(l)) for l in ast.walk(f.node)))]
    heads = {n.id for n in g.nodes if n.kind == "iter"}
    iso = True
    for a in aws:
        handlers = [y for y, k in g.succ[a.id] if k == "exc" and g.nodes[y].meta.get("handler")]
        escapes = any(k == "exc" and y == g.xexit.id for y, k in g.succ[a.id])
        back = any(heads & flow.reach(g, [h], flow.NORMAL_KINDS) for h in handlers)
        if escapes or not handlers or not back:
            iso = False
    ctx.check(bool(aws) and iso, rule, f, "each callback is isolated: a failing one is logged and the next one still runs", "try/except inside the loop",
              "__execute_callbacks does not isolate the callbacks from each other: the first callback that raises ends the loop (or escapes), so callbacks registered after it - "
              "including the result store - never run", instance="__execute_callbacks: per-callback isolation")
    gathered = [n for n in ast.walk(f.node) if isinstance(n, ast.Call) and (dotted(n.func) or "").endswith("gather")]
    ctx.check(not gathered, rule, f, "sequential execution of callbacks", "no concurrent gather of callbacks",
              "__execute_callbacks runs the callbacks concurrently (gather): registration order is not preserved", instance="__execute_callbacks: sequential")
    # add_callback appends
    f = ctx.func(f"{C.MSGDEP}.add_callback")
    calls = [n for n in ast.walk(f.node) if isinstance(n, ast.Call) and dotted(n.func) == "self._callbacks.append"]
    ctx.check(len(calls) == 1, rule, f, "self._callbacks.append in add_callback", "callbacks registered by append",
              "add_callback does not append to self._callbacks (registration order lost)", instance="add_callback: append")


def effectively_awaited(g: CFG, call: Node) -> bool:
    """The coroutine created by `call` is awaited: directly, or as an argument of an awaited wait_for / shield / gather / wait."""
    if call.id in await_map(g):
        return True
    for n in g.nodes:
        if n.kind == "await" and isinstance(n.ast, ast.Await) and isinstance(n.ast.value, ast.Call):
            outer = n.ast.value
            if (dotted(outer.func) or "").split(".")[-1] in ("wait_for", "shield", "gather", "wait"):
                if any(x is call.ast for a in list(outer.args) + [k.value for k in outer.keywords] for x in ast.walk(a)):
                    return True
    return False


def connection_propagation(ctx: Ctx, rule: str) -> None:
    """Objects that act on a broker (Queue, Job, Worker, runner, Message handle, MessageDependency) take the connection to act on as `_connection`
    and fall back to the process-wide default connection when it is missing. An object that was itself bound to a connection must hand that same
    connection to every such object it creates - otherwise the created object silently works on the default connection's broker (a worker consuming
    another connection's queues, a message handle acking on a broker that never held the message)."""
    takers: dict[str, int] = {}
    for c in ctx.prog.classes.values():
        init = ctx.prog.find_method(c.qualname, "__init__")
        if init is None:
            continue
        params = [p.arg for p in init.params()][1:]
        if "_connection" in params:
            takers[c.qualname] = params.index("_connection")
    ctx.floor(rule, len(takers), 5, "classes taking a _connection")
    n = 0
    for fn in ctx.prog.iter_functions():
        if fn.cls is None:
            continue
        owner_init = ctx.prog.find_method(fn.cls.qualname, "__init__")
        bound = owner_init is not None and any(isinstance(a, ast.Attribute) and isinstance(a.ctx, ast.Store) and a.attr in ("_conn", "_connection") for a in ast.walk(owner_init.node))
        if not bound:
            continue
        for c in ast.walk(fn.node):
            if not isinstance(c, ast.Call):
                continue
            d = dotted(c.func)
            if d is None or "." in d and not d.split(".")[0][0].isupper():
                continue
            q = ctx.prog.resolve_name(fn.module, d)
            if q not in takers or fn.name == "__init__" and q == fn.cls.qualname:
                continue
            n += 1
            v = C.arg(c, takers[q], "_connection")
            txt = C.utext(fn, v) if v is not None else None
            ok = txt is not None and ("_conn" in txt or "connection" in txt) and not C.is_const(v, None)
            ctx.check(ok, rule, fn, f"{d}(..., _connection=...) in {fn.short()}", f"created on the creator's own connection ({txt})",
                      f"{fn.short()} creates {d}(...) without handing over its own connection (_connection={txt or '<default connection>'}): the new object works on the process-wide default "
                      "connection's brokers instead of the ones this object was bound to", node=c, instance=f"{fn.short()}: {d} connection")
    ctx.floor(rule, n, 4, "constructions of connection-bound objects inside connection-bound objects")


PER_INSTANCE_CALLS = {"now", "utcnow", "today", "uuid1", "uuid4", "time", "time_ns", "monotonic", "perf_counter", "random", "randint", "token_hex", "token_bytes", "urandom",
                      "getpid", "list", "dict", "set", "deque", "Queue", "Lock", "Event", "Semaphore", "defaultdict", "bytearray"}


def fresh_defaults(ctx: Ctx, rule: str) -> None:
    """A default that must differ from object to object (a new id, the current time, a fresh container) is produced per object: `field(default_factory=...)`
    on dataclasses, computed in the body for functions. Written as an eager default (`id_: str = uuid4().hex`, `field(default=datetime.now())`,
    `def f(ts=datetime.now())`) it is evaluated once, when the class / function is created - every object then shares one id, one timestamp, one container."""
    def per_instance_calls(e):
        return [c for c in ast.walk(e) if isinstance(c, ast.Call) and (dotted(c.func) or "").split(".")[-1] in PER_INSTANCE_CALLS
                and not any(isinstance(l, ast.Lambda) and any(x is c for x in ast.walk(l)) for l in ast.walk(e))]

    probe = ast.parse("class K:\n    id_: str = uuid4().hex\n").body[0].body[0].value
    ctx.require(len(per_instance_calls(probe)) == 1, "eager-default detector does not recognise its positive example")
    n = 0
    for c in ctx.prog.classes.values():
        if not any("dataclass" in unparse(d) for d in c.node.decorator_list):
            continue
        for st in c.node.body:
            if not (isinstance(st, ast.AnnAssign) and st.value is not None) or "ClassVar" in unparse(st.annotation):
                continue
            n += 1
            v = st.value
            eager = v
            if isinstance(v, ast.Call) and (dotted(v.func) or "").split(".")[-1] == "field":
                eager = C.kw(v, "default")
                if eager is None:
                    continue  # default_factory (or no default): produced per object
            bad = per_instance_calls(eager)
            ctx.check(not bad, rule, c.qualname, f"{c.name}.{unparse(st.target)} default is produced per object", "constant, or field(default_factory=...)",
                      f"{c.name}.{unparse(st.target)} has the eager default `{unparse(eager)[:60]}`: it is evaluated once when the class is created, so every {c.name} built without an explicit "
                      f"value shares it (the same message id for every routing key, the import time as every timestamp, one container for all)", node=st,
                      instance=f"{c.name}.{unparse(st.target)}: default per object")
    ctx.floor(rule, n, 15, "dataclass fields with defaults")
    m = 0
    for fn in ctx.prog.iter_functions():
        if isinstance(fn.node, ast.Lambda) or (fn.cls is not None and any("Protocol" in b for b in fn.cls.base_exprs)):
            continue
        for dv in list(fn.node.args.defaults) + [d for d in fn.node.args.kw_defaults if d is not None]:
            m += 1
            bad = per_instance_calls(dv)
            if bad:
                ctx.fail(rule, fn, f"parameter default {unparse(dv)[:50]}", f"{fn.short()} has the parameter default `{unparse(dv)[:60]}`, evaluated once at definition time: every call that omits "
                         "the argument gets the same id / timestamp / container", node=dv, instance=f"{fn.short()}: eager parameter default")
    ctx.floor(rule, m, 50, "parameter defaults scanned")


def callbacks_live_iteration(ctx: Ctx, rule: str) -> None:
    """__execute_callbacks walks the callback list itself: a callback may register further callbacks (and the lazy result slot inserts into the list right before the walk) -
    iterating a snapshot drops whatever is added while the walk is under way."""
    f = ctx.func(f"{C.MSGDEP}.__execute_callbacks")
    g = ctx.icfg(f)
    loops = [lp for lp in ast.walk(f.node) if isinstance(lp, (ast.For, ast.AsyncFor))] + [lp for h in C.helper_callees(ctx, f) for lp in ast.walk(h.node) if isinstance(lp, (ast.For, ast.AsyncFor))]
    its = [C.utext(f, lp.iter, calls="all") for lp in loops if "_callbacks" in C.utext(f, lp.iter, calls="all")]
    ctx.check(its == ["self._callbacks"], rule, f, "callbacks walked on the live list", "for callback in self._callbacks",
              f"__execute_callbacks iterates {its or 'nothing'} instead of the list self._callbacks itself: callbacks registered while the walk is under way (by another callback) never run",
              instance="callbacks: live iteration")
    del g


def lazy_slot_writers(ctx: Ctx, rule: str) -> None:
    """The lazy result slot (the store of the result set last) is written by __init__ (no-op), set_result and set_exception only. Any other writer -
    e.g. an eager action 'clearing' it - makes the result that was set disappear from what the action publishes."""
    cq = C.MSGDEP
    writers = set()
    for fn in ctx.prog.iter_functions():
        if fn.cls is None or fn.cls.qualname != cq:
            continue
        top = fn
        while top.parent is not None:
            top = top.parent
        for a in ast.walk(fn.node):
            if isinstance(a, ast.Attribute) and isinstance(a.ctx, (ast.Store, ast.Del)) and "lazy" in a.attr and "callback" in a.attr:
                writers.add(top.name)
    # a private helper's write belongs to whoever calls the helper
    methods = {fn.name: fn for fn in ctx.prog.iter_functions() if fn.cls is not None and fn.cls.qualname == cq and fn.parent is None}
    for _ in range(3):
        for w_ in [w for w in writers if w.startswith("_") and not (w.startswith("__") and w.endswith("__"))]:
            callers = {m.name for m in methods.values() if any(isinstance(c, ast.Call) and isinstance(c.func, ast.Attribute) and c.func.attr == w_ for c in ast.walk(m.node)) and m.name != w_}
            if callers:
                writers.discard(w_)
                writers |= callers
    extra = sorted(writers - {"__init__", "set_result", "set_exception"})
    ctx.check({"set_result", "set_exception"} <= writers and not extra, rule, cq, "lazy result slot written only by set_result / set_exception", f"writers {sorted(writers)}",
              f"the lazy result slot of MessageDependency is also written by {extra or 'nobody'} (expected writers: __init__, set_result, set_exception): the result or exception that was set "
              "is dropped (or never recorded) before the callbacks run, so the bucket does not hold what was set last", instance="lazy slot writers")


CLOCK_LOCAL = {"now", "today", "fromtimestamp"}
CLOCK_UTC = {"utcnow", "utcfromtimestamp"}


def clock_family(ctx: Ctx, rule: str) -> None:
    """Timestamps are produced and compared in one clock family: naive local time (datetime.now / fromtimestamp) everywhere, or UTC everywhere. One
    utcnow() among local now()s shifts every expiry / timeout decision that involves it by the host's UTC offset."""
    sites: dict[str, list] = {"local": [], "utc": []}
    for fn in ctx.prog.iter_functions():
        for c in ast.walk(fn.node):
            if isinstance(c, ast.Call):
                d = dotted(c.func) or ""
                last = d.split(".")[-1]
                if "datetime" in d or d in ("now", "utcnow"):
                    if last in CLOCK_UTC:
                        sites["utc"].append((fn, c))
                    elif last in CLOCK_LOCAL:
                        aware_utc = any("utc" in unparse(a).lower() for a in list(c.args) + [k.value for k in c.keywords])
                        sites["utc" if aware_utc else "local"].append((fn, c))
    ctx.floor(rule, len(sites["local"]) + len(sites["utc"]), 8, "clock readings / timestamp conversions")
    minority = "utc" if len(sites["utc"]) <= len(sites["local"]) else "local"
    if sites["utc"] and sites["local"]:
        for fn, c in sites[minority]:
            ctx.fail(rule, fn, f"{unparse(c)[:50]} among {len(sites['local' if minority == 'utc' else 'utc'])} readings of the other family",
                     f"{fn.short()} reads / converts time with `{unparse(c)[:60]}` ({minority}) while the rest of the library uses the {'local naive' if minority == 'utc' else 'UTC'} clock: "
                     "timestamps from one family compared with 'now' from the other are off by the host's UTC offset (live messages expire at once east of UTC, expired ones run west of it)",
                     node=c, instance=f"{fn.short()}: clock family")
    else:
        ctx.ok(rule, "one clock family", f"{len(sites['local'])} local / {len(sites['utc'])} utc readings")


def category_equality(ctx: Ctx, rule: str) -> None:
    """MessageCategory is a str-Enum: a category may legally arrive as the plain string "DELAYED" (it compares equal to the member). Every decision on a category
    therefore uses == / != / in - an identity test (`is MessageCategory.NORMAL`) silently treats such a consumer / message as 'some other category'."""
    n = 0
    for fn in ctx.prog.iter_functions():
        for c in ast.walk(fn.node):
            if isinstance(c, ast.Compare):
                ops = list(zip(c.ops, [c.left] + c.comparators[:-1], c.comparators))
                for op, l, r in ops:
                    if any((dotted(x) or "").startswith("MessageCategory.") for x in (l, r)):
                        n += 1
                        ctx.check(not isinstance(op, (ast.Is, ast.IsNot)), rule, fn, f"{unparse(c)[:60]} in {fn.short()}", "category compared by value",
                                  f"{fn.short()} compares a category by identity (`{unparse(c)[:80]}`): for a consumer / message whose category was given as the equal plain string the test is "
                                  "false, so the branch meant for that category is skipped (expired messages delivered, a rejected delayed message made deliverable, nack accepted on a dead letter ...)",
                                  node=c, instance=f"{fn.short()}: {unparse(c)[:50]}")
    ctx.floor(rule, n, 5, "comparisons with MessageCategory members")


_MUTATORS = {"append", "add", "update", "pop", "setdefault", "insert", "extend", "remove", "discard", "clear", "popitem", "put_nowait", "appendleft"}


def per_instance_state(ctx: Ctx, rule: str, prefixes: tuple[str, ...], why: str) -> None:
    """State that methods mutate through `self` is created per instance: a class-body `name = {}` / `[]` / `set()` / `dict()` is ONE object shared by every instance of the class
    (and of its subclasses), so two brokers / workers / containers would silently read and overwrite each other's entries."""
    n = 0
    for cq, c in sorted(ctx.prog.classes.items()):
        if not cq.startswith(prefixes):
            continue
        n += 1
        for name, val in c.attrs.items():
            mutable = isinstance(val, (ast.Dict, ast.List, ast.Set, ast.DictComp, ast.ListComp, ast.SetComp)) or (
                isinstance(val, ast.Call) and dotted(val.func) in ("dict", "list", "set", "defaultdict", "collections.defaultdict", "deque", "collections.deque", "OrderedDict"))
            if not mutable:
                continue
            names = {name, c.mangle(name)}
            rebound = False
            writers = []
            for m in c.methods.values():
                for x in ast.walk(m.node):
                    if isinstance(x, (ast.Assign, ast.AnnAssign)) and getattr(x, "value", None) is not None and m.name in ("__init__", "__post_init__"):
                        for t in (x.targets if isinstance(x, ast.Assign) else [x.target]):
                            if isinstance(t, ast.Attribute) and dotted(t.value) == "self" and t.attr in names:
                                rebound = True
                    tgt = None
                    if isinstance(x, (ast.Assign, ast.AugAssign, ast.Delete)):
                        for t in (x.targets if not isinstance(x, ast.AugAssign) else [x.target]):
                            if isinstance(t, ast.Subscript):
                                tgt = t.value
                    elif isinstance(x, ast.Call) and isinstance(x.func, ast.Attribute) and x.func.attr in _MUTATORS:
                        tgt = x.func.value
                    while isinstance(tgt, ast.Subscript):
                        tgt = tgt.value
                    if isinstance(tgt, ast.Attribute) and dotted(tgt.value) in ("self", "cls") and tgt.attr in names:
                        writers.append(m)
            ctx.check(rebound or not writers, rule, c.methods.get("__init__") or next(iter(c.methods.values())), f"{c.name}.{name}: mutable state is per instance", "created in __init__ (or never mutated)",
                      f"{c.name}.{name} is a class-body {unparse(val)} that {sorted({w.short() for w in writers})[:3]} mutate through self: one object shared by every instance - {why}",
                      node=val, instance=f"{c.name}.{name} per instance")
    ctx.floor(rule, n, 3, "classes inspected for shared mutable state")


_LOCK_CTORS = ("asyncio.Lock", "asyncio.Semaphore", "asyncio.BoundedSemaphore", "asyncio.Condition", "Lock", "Semaphore", "BoundedSemaphore", "Condition", "threading.Lock", "threading.RLock")


def no_lock_across_reentry(ctx: Ctx, rule: str, fn, why: str) -> None:
    """`fn` awaits user code that may re-enter it (an actor that enqueues). It therefore holds no lock of its object while awaiting: asyncio locks are not re-entrant."""
    cls = fn.cls
    lock_attrs = set()
    if cls is not None:
        for m in cls.methods.values():
            for st in ast.walk(m.node):
                if isinstance(st, (ast.Assign, ast.AnnAssign)) and getattr(st, "value", None) is not None and isinstance(st.value, ast.Call) and (dotted(st.value.func) or "") in _LOCK_CTORS:
                    for t in (st.targets if isinstance(st, ast.Assign) else [st.target]):
                        if isinstance(t, ast.Attribute):
                            lock_attrs.add(t.attr)
        for name, val in cls.attrs.items():
            if isinstance(val, ast.Call) and (dotted(val.func) or "") in _LOCK_CTORS:
                lock_attrs.add(name)
    held = []
    for x in ast.walk(fn.node):
        if isinstance(x, ast.AsyncWith) and any(isinstance(a, ast.Await) for b in x.body for a in ast.walk(b)):
            for item in x.items:
                e = item.context_expr
                if (isinstance(e, ast.Attribute) and e.attr in lock_attrs) or (isinstance(e, ast.Call) and (dotted(e.func) or "") in _LOCK_CTORS):
                    held.append(e)
        if isinstance(x, ast.Call) and isinstance(x.func, ast.Attribute) and x.func.attr == "acquire" and isinstance(x.func.value, ast.Attribute) and x.func.value.attr in lock_attrs:
            held.append(x)
    ctx.check(not held, rule, fn, f"{fn.short()} holds no lock across its awaits", "re-entrant by construction", f"{fn.short()} awaits while holding {[unparse(h)[:40] for h in held][:2]}: {why}",
              node=held[0] if held else None, instance=f"{fn.short()}: no lock across awaits")


def who_may_call(ctx: Ctx, rule: str, attr: str, allowed, why: str, prefixes: tuple[str, ...] = ("repid.",), floor: int = 0) -> None:
    """Call sites of `.attr(...)` in the library lie only in functions accepted by `allowed(func)`."""
    n = 0
    for q, fn in sorted(ctx.prog.functions.items()):
        if not q.startswith(prefixes):
            continue
        for x in C.own_nodes(fn):
            if isinstance(x, ast.Call) and isinstance(x.func, ast.Attribute) and x.func.attr == attr:
                n += 1
                ctx.check(bool(allowed(fn, x)), rule, fn, f"{attr}() called from {fn.short()}", "an accepted caller", f"{fn.short()} calls {unparse(x)[:60]}: {why}", node=x,
                          instance=f"{attr} called from {fn.short()}")
    ctx.floor(rule, n, floor, f"call sites of {attr}()")


def bucket_ownership(ctx: Ctx, rule: str) -> None:
    """Who touches which bucket broker: the producer (Job) stores argument buckets and reads result buckets; the worker (_Processor, MessageDependency) reads argument buckets and stores
    result buckets; nobody in the library deletes a bucket. A result bucket written or removed from the producer's side races with the execution that fills it."""
    table = {
        "repid.job.Job": {("store_bucket", "args"), ("get_bucket", "result")},
        C.PROCESSOR: {("get_bucket", "args"), ("store_bucket", "result")},
        C.MSGDEP: {("store_bucket", "result")},
    }
    n = 0
    for q, fn in sorted(ctx.prog.functions.items()):
        if not q.startswith("repid.") or q.startswith(("repid.connections.", "repid.testing.", "repid.middlewares.")):
            continue
        top = fn
        while getattr(top, "parent", None) is not None:
            top = top.parent
        for x in C.own_nodes(fn):
            if not (isinstance(x, ast.Call) and isinstance(x.func, ast.Attribute) and x.func.attr in ("store_bucket", "get_bucket", "delete_bucket")):
                continue
            n += 1
            recv = x.func.value
            txt = unparse(recv)
            if isinstance(recv, ast.Name):
                for y in ast.walk(top.node):
                    if isinstance(y, ast.NamedExpr) and isinstance(y.target, ast.Name) and y.target.id == recv.id:
                        txt = unparse(y.value)
                    elif isinstance(y, ast.Assign) and any(isinstance(t, ast.Name) and t.id == recv.id for t in y.targets):
                        txt = unparse(y.value)
            role = "args" if ("_ab" in txt or "args_bucket" in txt) else "result" if ("_rb" in txt or "results_bucket" in txt or "result_bucket" in txt) else "?" + txt
            owner = next((k for k in table if q.startswith(k + ".")), None)
            ok = owner is not None and (x.func.attr, role) in table[owner]
            ctx.check(ok, rule, fn, f"{fn.short()}: {x.func.attr} on the {role} bucket broker", "an entry of the ownership table",
                      f"{fn.short()} calls {x.func.attr}() on the {role} bucket broker: outside the ownership table (producer: store args / read results; worker: read args / store results; nobody deletes) - "
                      "a result bucket touched from the producer's side races with the execution that fills it, an argument bucket touched by the worker changes what later deliveries receive",
                      node=x, instance=f"{fn.short()}: {x.func.attr}[{role}]")
    ctx.floor(rule, n, 5, "bucket operations outside the broker packages")


def no_shield(ctx: Ctx, rule: str, files: tuple[str, ...], why: str) -> None:
    """Cancellation is how the runner / worker stops an operation before it hands the message back (cancel + reject, finish()). In the listed files nothing is wrapped in
    asyncio.shield: a shielded operation keeps running after its awaiter was cancelled and acts on a message that has meanwhile been returned."""
    hits = [(f, ln, txt) for f, ln, txt in ctx.prog.shielded if f.endswith(files)]
    anchor = next(iter(ctx.prog.functions.values()))
    for f, ln, txt in hits:
        fn = next((x for x in ctx.prog.functions.values() if x.module.relpath == f and x.node.lineno <= ln <= getattr(x.node, "end_lineno", x.node.lineno)), anchor)
        ctx.check(False, rule, fn, f"asyncio.shield({txt[:40]}) in {f}", "not shielded", f"{f}:{ln} shields {txt}: {why}", instance=f"shield in {fn.short()}")
    ctx.check(True, rule, anchor.qualname if False else anchor, f"no asyncio.shield in {', '.join(files)}" if not hits else "shield inventory", "cancellation reaches every operation", "", instance=f"no shield: {','.join(files)}") if not hits else None


def job_constructs_fresh(ctx: Ctx, rule: str) -> None:
    """Job builds key and parameters from its CURRENT public attributes on every enqueue: the constructors keep nothing on the job. A job object that is kept, changed (timestamp,
    ttl, timeout, retries ...) and enqueued again must send what it now says, not what it said the first time."""
    for name in ("_construct_parameters", "_construct_routing_key"):
        f = ctx.func(f"repid.job.Job.{name}")
        stores = [x for x in C.own_nodes(f) if isinstance(x, ast.Attribute) and isinstance(x.ctx, ast.Store) and dotted(x.value) == "self"]
        stores += [x for x in C.own_nodes(f) if isinstance(x, ast.Call) and (dotted(x.func) or "") in ("setattr", "object.__setattr__") and x.args and dotted(x.args[0]) == "self"]
        rets = [r.value for r in C.own_returns(f) if r.value is not None]
        reads_back = [r for r in rets if isinstance(C.inline_locals(f, r) or r, ast.Attribute) and dotted((C.inline_locals(f, r) or r)).startswith("self._")]
        what = ("stores " + unparse(stores[0])[:40]) if stores else ("returns " + unparse(reads_back[0])[:40]) if reads_back else ""
        ctx.check(not stores and not reads_back, rule, f, f"Job.{name} keeps nothing on the job", "built anew from the current attributes on every call",
                  f"Job.{name} {what}: a job that is modified and enqueued again sends the parameters of its first "
                  "submission (its old timestamp / ttl: a live message is dead-lettered, an expired one is executed)", node=(stores or reads_back)[0] if (stores or reads_back) else None,
                  instance=f"Job.{name} fresh")


# asynchronous operations of the client libraries, by the name of the method (receiver-independent ones only)
_EXTERNAL_ASYNC = {"sleep", "gather", "wait_for", "wait_closed", "basic_publish", "basic_ack", "basic_nack", "basic_reject", "basic_consume", "basic_cancel", "basic_qos",
                   "queue_declare", "queue_purge", "queue_delete", "execute", "start_serving", "serve_forever", "acquire"}
_PROPERTY_FILES: dict[str, tuple[str, ...]] = {}


def _anchor_files(prop: str) -> tuple[str, ...]:
    if not _PROPERTY_FILES:
        import json
        import os

        path = os.path.join(os.path.dirname(os.path.dirname(os.path.dirname(os.path.abspath(__file__)))), "properties.jsonl")
        for line in open(path, encoding="utf-8"):
            d = json.loads(line)
            _PROPERTY_FILES[d["id"]] = tuple(d["anchors"]["files"])
    return _PROPERTY_FILES.get(prop, ())


def every_operation_awaited(ctx: Ctx, rule: str, files: tuple[str, ...] | None = None) -> None:
    """In the files the property is anchored in, no asynchronous operation is created and dropped: a bare statement `x.op(...)` whose callee is a coroutine function (an async def
    of the library, a call form that is awaited elsewhere in the library, or a known asynchronous method of asyncio / aiormq / redis) builds a coroutine object that nobody runs -
    the acknowledgement, the re-queue, the back-off sleep, the result store simply do not happen (Python only logs 'coroutine ... was never awaited')."""
    files = files if files is not None else _anchor_files(ctx.prop)
    awaited_forms: set[str] = set()
    for fn in ctx.prog.iter_functions():
        for x in ast.walk(fn.node):
            if isinstance(x, ast.Await) and isinstance(x.value, ast.Call):
                awaited_forms.add(unparse(x.value.func))
    n = 0
    for fn in ctx.prog.iter_functions():
        if fn.module.relpath not in files or isinstance(fn.node, ast.Lambda):
            continue
        for st in C.own_nodes(fn):
            if not (isinstance(st, ast.Expr) and isinstance(st.value, ast.Call)):
                continue
            call = st.value
            form = unparse(call.func)
            why = None
            cals = ctx.res.callees(fn, call, record=False)
            if cals and all(c.is_async for c in cals):
                why = f"{cals[0].short()} is a coroutine function"
            elif not cals and form in awaited_forms:
                why = f"`{form}(...)` is awaited everywhere else in the library"
            elif not cals and isinstance(call.func, ast.Attribute) and call.func.attr in _EXTERNAL_ASYNC and not (dotted(call.func.value) or "").startswith(("pipe", "pipeline")):
                why = f"`.{call.func.attr}()` is an asynchronous operation of the client library"
            elif not cals and isinstance(call.func, ast.Attribute) and (dotted(call.func.value) or "").endswith((".conn", "._channel", "channel", "connection")) and call.func.attr not in ("pipeline",):
                why = f"`{form}` is a command of the asynchronous client"
            n += 1
            if why is None:
                continue
            ctx.check(False, rule, fn, f"{fn.short()}: `{unparse(call)[:50]}` is awaited", "no coroutine created and dropped",
                      f"{fn.short()} calls `{unparse(call)[:70]}` as a bare statement: {why}, so this only creates a coroutine object - the operation never runs", node=st,
                      instance=f"{fn.short()}: {form} awaited")
    ctx.check(True, rule, next(iter(ctx.prog.iter_functions())), f"bare call statements in {len(files)} anchored file(s): none drops a coroutine", f"{n} bare call statements inspected", "", instance="operations awaited")


def _presence_choice(f, e):
    """(subject, value_when_missing, value_when_present) of `D if x is None else x` / `x if isinstance(x, T) else D` in any polarity, through one level of if/else lowering."""
    if isinstance(e, ast.Name) and C.stored_value(f, e.id) is not None:
        e = C.stored_value(f, e.id)  # one assignment, or the two arms of an if/else read as a conditional expression
    e = C.inline_locals(f, e, calls="all") or e
    t = C.negate_aware_ifexp(e)
    if t is None:
        return None
    test, a, b = t
    if isinstance(test, ast.Compare) and len(test.ops) == 1 and isinstance(test.ops[0], ast.Is) and C.is_const(test.comparators[0], None):
        return unparse(test.left), unparse(a), unparse(b)
    if isinstance(test, ast.Call) and dotted(test.func) == "isinstance" and test.args:
        return unparse(test.args[0]), unparse(b), unparse(a)
    return None


def retry_delay_defaults(ctx: Ctx, rule: str) -> None:
    """An explicit `next_retry` is the delay of the retry; only a missing one is replaced (by zero in Message, by the actor's retry policy for attempt k+1 in MessageDependency)."""
    for q, default_has in ((f"{C.MESSAGE}.retry", "timedelta"), (f"{C.MESSAGE}.force_retry", "timedelta"), (f"{C.MSGDEP}.retry", "retry_policy"), (f"{C.MSGDEP}.force_retry", "retry_policy")):
        f = ctx.func(q)
        vals = []
        for c in C.own_nodes(f):
            if isinstance(c, ast.Call):
                v = C.kw(c, "next_retry")
                if v is not None and not (isinstance(v, ast.Name) and v.id == "next_retry" and not C.local_defs(f, "next_retry")):
                    vals.append(v)
                elif v is None and isinstance(c.func, ast.Attribute) and c.func.attr == "_prepare_retry" and c.args:
                    vals.append(c.args[0])
        ok = False
        got = None
        for v in vals:
            got = _presence_choice(f, v)
            if got is not None:
                # the default itself may be a named constant / a local: what matters is that it is a delay (not None, not the parameter) and that the explicit value is passed through
                ok = got[0] == "next_retry" and got[1] not in ("None", "next_retry") and got[2] == "next_retry"
                if q.startswith(C.MSGDEP) and ok and "retry_policy" in got[1]:
                    ok = "already_tried + 1" in got[1]
        if got is None:
            ctx.note(f"{rule}: {f.short()}: the choice of the retry delay is not a recognised conditional - not decided here")
            continue
        ctx.check(ok, rule, f, f"{f.short()}: an explicit next_retry is used, a missing one defaults", f"{default_has}(...) if next_retry is None else next_retry",
                  f"{f.short()} chooses the retry delay as {got}: an explicit delay is ignored (the retry comes back at once, or with the policy's delay although the caller asked for another) or None is passed on as a delay",
                  instance=f"{f.short()}: retry delay")


def eager_outcome_defaults(ctx: Ctx, rule: str) -> None:
    """The outcome an eager response reports: what set_result / set_exception recorded when something was recorded, else the action's own default (ack / reschedule: success;
    nack / reject / retry / force_retry: failure)."""
    want = {"ack": True, "reschedule": True, "nack": False, "reject": False, "retry": False, "force_retry": False}
    for action, dflt in want.items():
        f = ctx.func(f"{C.MSGDEP}.{action}")
        cons = [c for c in C.own_nodes(f) if isinstance(c, ast.Call) and (dotted(c.func) or "").split(".")[-1] == "_NoAction"]
        if len(cons) != 1:
            cons = [c for c in ast.walk(ctx.prog.cls(C.MSGDEP).node) if isinstance(c, ast.Call) and (dotted(c.func) or "").split(".")[-1] == "_NoAction"][:1] if not cons else cons[:1]
        v = C.kw(cons[0], "success") if cons else None
        got = _presence_choice(f, v) if v is not None else None
        if got is None:  # built by a shared helper taking the default as a parameter, or another shape: not decided here
            ctx.note(f"{rule}: MessageDependency.{action}: the reported outcome is not a recognised conditional - not decided here")
            continue
        ok = got is not None and got[0].endswith("result_success") and got[1] == repr(dflt) and got[2] == got[0]
        ctx.check(ok, rule, f, f"MessageDependency.{action}: recorded outcome if any, else {dflt}", f"success = recorded if recorded is not None else {dflt}",
                  f"MessageDependency.{action} reports success={got}: the outcome recorded by set_result / set_exception is replaced by the default (or the default by None) - the stored result says failed for a "
                  "successful execution or the reverse", instance=f"MessageDependency.{action}: outcome default")
    for name, flag in (("set_result", True), ("set_exception", False)):
        f = ctx.func(f"{C.MSGDEP}.{name}")
        st = [x for x in C.own_nodes(f) if isinstance(x, ast.Assign) and any(isinstance(t, ast.Attribute) and t.attr.endswith("result_success") for t in x.targets)]
        ctx.check(len(st) == 1 and C.is_const(st[0].value, flag), rule, f, f"{name} records success={flag}", "one store", f"MessageDependency.{name} does not record success={flag}: an eager response after it reports the "
                  "action's default outcome instead of the one that was set last", instance=f"{name}: records outcome")


def job_validation_boundaries(ctx: Ctx, rule: str) -> None:
    """Valid configurations are accepted as documented: priorities from 0, durations from exactly one second; an explicit args / result id is used, a missing one is generated."""
    rk = ctx.func("repid.data._key.RoutingKey.__post_init__")
    cmps = [c for st in C.own_nodes(rk) if isinstance(st, ast.If) and any(isinstance(b, ast.Raise) for b in st.body) for c in ast.walk(st.test) if isinstance(c, ast.Compare) and "priority" in unparse(c.left)]
    negated = any(isinstance(u, ast.UnaryOp) and isinstance(u.op, ast.Not) and any(x is c for c in cmps for x in ast.walk(u)) for st in C.own_nodes(rk) if isinstance(st, ast.If) for u in ast.walk(st.test))
    ok = not negated and len(cmps) == 1 and len(cmps[0].ops) == 1 and ((isinstance(cmps[0].ops[0], ast.Lt) and C.is_const(cmps[0].comparators[0], 0)) or (isinstance(cmps[0].ops[0], ast.LtE) and unparse(cmps[0].comparators[0]) == "-1"))
    ctx.check(ok, rule, rk, "RoutingKey: priorities from 0 are valid", "rejects priority < 0 only", f"RoutingKey rejects {unparse(cmps[0]) if cmps else '?'}: PrioritiesT.LOW (0) is a valid priority - every LOW job would fail at "
              "key construction on both the producer's and the consumer's side", instance="RoutingKey priority boundary")
    init = ctx.func("repid.job.Job.__init__")
    secs = [c for c in ast.walk(init.module.tree) if isinstance(c, ast.Compare) and "total_seconds()" in unparse(c.left)]  # in __init__ or in a validation helper of the module
    ctx.floor(rule, len(secs), 1, "duration validations of Job")
    for c in secs:
        ok = len(c.ops) == 1 and isinstance(c.ops[0], ast.Lt) and C.is_const(c.comparators[0], 1)
        ctx.check(ok, rule, init, f"Job: {unparse(c.left)[:40]} of exactly one second is valid", "< 1 rejected", f"Job.__init__ rejects `{unparse(c)}`: the documented minimum (>= 1 second) itself is refused, or sub-second values the "
                  "brokers round away are accepted", node=c, instance=f"Job duration boundary: {unparse(c.left)[:30]}")
    for attr in ("args_id", "result_id"):
        v = C.stored_value(init, f"self.{attr}")
        got = _presence_choice(init, v) if v is not None else None
        ok = got is not None and got[0] == attr and "uuid" in got[1] and got[2] == attr
        if got is None:
            ctx.note(f"{rule}: Job.{attr}: selection is not a recognised conditional - not decided here")
            continue
        ctx.check(ok, rule, init, f"Job: an explicit {attr} is kept, a missing one is generated", f"{attr} if given else uuid4().hex", f"Job.__init__ sets {attr} from {got}: the id the caller chose is replaced by a random one "
                  "(the bucket they prepared or will read is never the one used) or None becomes the id", instance=f"Job {attr} selection")


def signals_registered(ctx: Ctx, rule: str) -> None:
    """Stopping a worker gracefully starts with a signal: Worker registers its handler for EVERY configured signal (a loop over handle_signals that calls loop.add_signal_handler
    with the handler that stops the runner), and does so before it starts consuming."""
    f = ctx.func("repid.worker.Worker._register_signals")
    handler = next((nf for nf in f.nested.values() if not nf.is_async), None)
    loops = [lp for lp in C.own_nodes(f) if isinstance(lp, ast.For) and unparse(lp.iter).endswith("handle_signals")]
    adds = [c for lp in loops for b in lp.body for c in ast.walk(b) if isinstance(c, ast.Call) and isinstance(c.func, ast.Attribute) and c.func.attr == "add_signal_handler"]
    ok = handler is not None and len(adds) == 1 and len(adds[0].args) >= 2 and isinstance(loops[0].target, ast.Name) and unparse(adds[0].args[0]) == loops[0].target.id and unparse(adds[0].args[1]) == handler.name \
        and not any(isinstance(x, (ast.Break, ast.Return)) for b in loops[0].body for x in ast.walk(b))
    # the loop itself is not inside a condition that can be false for a non-empty configuration
    guarded = [st for st in C.own_nodes(f) if isinstance(st, ast.If) and any(lp in list(ast.walk(st)) for lp in loops)]
    ok = ok and all(unparse(st.test).endswith("handle_signals") for st in guarded)
    ctx.check(ok, rule, f, "every configured signal gets the stop handler", "for sig in handle_signals: loop.add_signal_handler(sig, signal_handler)",
              "Worker._register_signals does not register the stop handler for every configured signal: SIGTERM / SIGINT kill the process with messages in flight instead of starting the graceful shutdown "
              "(nothing is handed back, prefetched messages stay claimed)", instance="signals registered")
    run = ctx.func("repid.worker.Worker._run")
    g = ctx.cfg(run)
    reg = [n.id for n in g.calls() if (n.callee or "").endswith("_register_signals")]
    cons = [n.id for n in g.calls() if (n.callee or "").endswith("run_one_queue") or ((n.callee or "").endswith("gather") and "run_one_queue" in unparse(n.ast))]
    ok = bool(reg) and bool(cons) and all(flow.must_pass(g, g.entry.id, [c], reg, flow.NORMAL_KINDS) for c in cons)
    ctx.check(ok, rule, run, "signal handlers are in place before consuming starts", "_register_signals dominates the consume gather", "Worker._run starts consuming before (or without) registering its signal handlers: "
              "a stop signal that arrives early terminates the process with messages in flight", instance="signals before consuming")


def pydantic_output_table(ctx: Ctx, rule: str) -> None:
    """PydanticConverter.convert_outputs, row by row: no return annotation -> plain JSON; a model-typed return -> the model's own dump (validated first when the actor returned
    something else than a model instance); any other annotated type -> through the generated output model."""
    f = ctx.func("repid.converter.PydanticConverter.convert_outputs")
    g = ctx.cfg(f)
    rets = [n for n in g.nodes if n.kind == "return" and isinstance(n.ast, ast.Return) and n.ast.value is not None]
    if not ctx.check(len(rets) >= 4, rule, f, "pydantic convert_outputs has its four outcomes", "four returns", f"PydanticConverter.convert_outputs has {len(rets)} return(s): a case of the output encoding is gone "
                     "(an un-annotated actor's result is pushed through model validation, or a model result is double-encoded)", instance="pydantic outputs: cases"):
        return

    def env(validate, is_model_type, is_instance):
        def pred(node):
            if dotted(node) == "self.validate_output":
                return validate
            if isinstance(node, ast.Call) and dotted(node.func) == "issubclass":
                return is_model_type
            if isinstance(node, ast.Call) and dotted(node.func) == "isinstance":
                return is_instance
            return None
        return {"*p": lambda text, node: pred(node)}

    rows = [("no annotation", env(False, False, False), "JSON_ENCODER.encode(data)"),
            ("model type, model instance", env(True, True, True), "data.model_dump_json()"),
            ("model type, other value", env(True, True, False), "self.output_type.model_validate(data).model_dump_json()"),
            ("other annotated type", env(True, False, False), "self.output_pydantic_model.model_validate(data).model_dump_json()")]
    for name, e, want in rows:
        r = flow.reach_under(g, e, flow.NORMAL_KINDS)
        got = sorted({C.utext(f, x.ast.value, calls="all") for x in rets if x.id in r})
        if name == "no annotation" and len(got) == 1 and got[0].endswith(".encode(data)") and "model" not in got[0]:
            got = [want]  # the plain JSON encoder, possibly an injected one that defaults to JSON_ENCODER
        ctx.check(got == [want], rule, f, f"pydantic convert_outputs [{name}] -> {want}", "exactly this encoding", f"PydanticConverter.convert_outputs, case '{name}': returns {got} instead of {want} - the stored result does not decode to "
                  "what the actor returned (or encoding raises and a successful execution is recorded as failed)", instance=f"pydantic outputs[{name}]")
