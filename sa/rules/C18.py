"""C18 - Dependencies resolve to exactly what their providers return."""
from __future__ import annotations

import ast

from .. import flow
from ..engine import Ctx
from ..model import FuncInfo, dotted, unparse
from . import common as C
from .shared import _mentions

SUMMARY = "Agreement of the dependency-kind tables, declaration-time rejection in the three scanners, override discipline, def-use chain of resolution."
DECIDED = [
    "R-C18-KINDS: DependencyKind members = kinds dispatched in actor_run = kinds dispatched in Depends.resolve = literals recognised by "
    "get_dependency; MessageDependency is DIRECT, Depends is ANNOTATED",
    "R-C18-INSIDE-TRY: provider resolution (resolve calls and the gather) lies inside actor_run's outcome try, so a provider failure is a "
    "failed execution that follows the retry ladder (shared with C02-CATCH)",
    "R-C18-DECLARE: BasicConverter, PydanticConverter and Depends._update_subdependencies all reject a dependency in a positional-only "
    "parameter with a raise at declaration; Depends also rejects non-dependency parameters without default",
    "R-C18-OVERRIDE: every store to Depends._fn is followed on all paths by _update_subdependencies(), which starts from an empty table; "
    "resolve reads _fn/_subdependencies of the one Depends object",
    "R-C18-FLOW: in Depends.resolve and actor_run names and awaited values come from the same mapping in the same order (keys()/values(), "
    "gather without return_exceptions, dict(zip(...))), are passed as **kwargs to the provider / actor, and the provider's awaited value is returned",
    "R-C18-FLOW (predicate): asyncify decides 'already a coroutine function' with asyncio.iscoroutinefunction",
    "R-C18-OVERRIDE (round 5): Depends defines neither __eq__ nor __hash__ (override tables are keyed by object identity)",
    "R-C18-AWAITED: in the files this property is anchored in, no bare statement calls a coroutine function (the operation would never run)",
]
NOT_DECIDED = ["value equality over whole dependency graphs", "shared sub-dependency call counts"]
ASSUMPTIONS = ["asyncio.gather preserves argument order in its result; dict preserves insertion order"]

DEPENDS = "repid.dependencies.depends.Depends"


def run(ctx: Ctx) -> None:
    from .shared import every_operation_awaited

    every_operation_awaited(ctx, "R-C18-AWAITED")  # in the files this property is anchored in, no asynchronous operation is created and dropped
    asyncify_rule(ctx)
    kinds(ctx)
    inside_try(ctx)
    declare(ctx)
    override(ctx)
    for q, provider in ((f"{DEPENDS}.resolve", "self._fn"), (f"{C.PROCESSOR}._actor_run", "actor.fn")):
        chain(ctx, ctx.func(q), provider)


def _dispatch_kinds(f: FuncInfo, ctx=None) -> set[str]:
    out = set()
    nodes = [n for _, n in C.flat_walk(ctx, f)] if ctx is not None else list(ast.walk(f.node))
    for c in nodes:
        if isinstance(c, ast.Compare) and isinstance(c.ops[0], ast.Eq):
            for side in (c.left, c.comparators[0]):
                d = dotted(side) or ""
                if d.startswith("DependencyKind."):
                    out.add(d.split(".")[-1])
    return out


def kinds(ctx: Ctx, rule="R-C18-KINDS") -> None:
    dk = ctx.prog.cls("repid.dependencies.protocols.DependencyKind")
    members = {k: v.value for k, v in dk.attrs.items() if isinstance(v, ast.Constant)}
    ctx.floor(rule, len(members), 2, "DependencyKind members")
    for q in (f"{C.PROCESSOR}._actor_run", f"{DEPENDS}.resolve"):
        f = ctx.func(q)
        got = _dispatch_kinds(f, ctx)
        ctx.check(got == set(members), rule, f, f"kinds dispatched in {f.short()}", f"{sorted(got)} = all DependencyKind members",
                  f"{f.short()} dispatches on {sorted(got)} but DependencyKind has {sorted(members)}: a declared dependency of the missing kind fails at run time "
                  "('Unsupported dependency argument')", instance=f"kinds in {f.short()}")
    gd = ctx.func("repid._utils.get_dependency.get_dependency")
    lits = {c.comparators[0].value for c in ast.walk(gd.node) if isinstance(c, ast.Compare) and isinstance(c.comparators[0], ast.Constant) and isinstance(c.comparators[0].value, str)}
    ctx.check(lits == set(members.values()), rule, gd, "literals recognised by get_dependency", f"{sorted(lits)} = DependencyKind values",
              f"get_dependency recognises {sorted(lits)} but DependencyKind values are {sorted(members.values())}", instance="get_dependency literals")
    for clsq, want in ((C.MSGDEP, "DIRECT"), (DEPENDS, "ANNOTATED")):
        c = ctx.prog.cls(clsq)
        v = c.attrs.get("__repid_dependency__")
        ctx.check(dotted(v) == f"DependencyKind.{want}", rule, clsq, f"{c.name}.__repid_dependency__ = DependencyKind.{want}", "declared kind",
                  f"{c.name}.__repid_dependency__ is {unparse(v) if v is not None else 'missing'}", instance=f"{c.name} kind")
    # get_dependency: direct -> the type itself, annotated -> first metadata entry
    g = ctx.cfg(gd)
    rets = [n for n in g.nodes if n.kind == "return"]
    tparam = [p_.arg for p_ in gd.params()][0]

    def env(direct, annotated_origin, annotated_marker):
        def fn(text, node):
            if isinstance(node, ast.Compare) and isinstance(node.ops[0], ast.Eq):
                cs = [x.value for x in (node.left, node.comparators[0]) if isinstance(x, ast.Constant)]
                if cs == ["direct"]:
                    return direct
                if cs == ["annotated"]:
                    return annotated_marker
            if isinstance(node, ast.Compare) and isinstance(node.ops[0], ast.Is) and "Annotated" in (dotted(node.left), dotted(node.comparators[0])):
                return annotated_origin
            return None
        return {"*k": fn}

    def outcome(e_):
        r_ = flow.reach_under(g, e_, flow.NORMAL_KINDS)
        out = set()
        for n in rets:
            if n.id not in r_:
                continue
            v = n.ast.value
            if v is None or C.is_const(v, None):
                out.add("None")
                continue
            txt = C.utext(gd, v, calls="all")
            for w_ in ast.walk(gd.node):  # `dep := t.__metadata__[0]` inside the test
                if isinstance(w_, ast.NamedExpr) and isinstance(w_.target, ast.Name) and w_.target.id in C.names_in(v):
                    txt += " " + unparse(w_.value)
            if "__metadata__[0]" in txt:
                out.add("first annotation")
            elif tparam in C.names_in(v):
                out.add("the type itself")
            else:
                out.add("other:" + txt[:40])
        return sorted(out)

    for (d_, o_, m_), want in (((True, False, False), ["the type itself"]), ((True, True, True), ["the type itself"]), ((False, True, True), ["first annotation"]),
                               ((False, True, False), ["None"]), ((False, False, False), ["None"]), ((False, False, True), ["None"])):
        got = outcome(env(d_, o_, m_))
        ctx.check(got == want, rule, gd, f"get_dependency[direct={d_}, Annotated={o_}, annotated marker={m_}]", f"-> {want[0]}",
                  f"get_dependency for a type with direct marker={d_}, Annotated origin={o_}, annotated marker on the first annotation={m_} returns {got} instead of {want}",
                  instance=f"get_dependency[{d_},{o_},{m_}]")


def inside_try(ctx: Ctx, rule="R-C18-INSIDE-TRY") -> None:
    f = ctx.func(f"{C.PROCESSOR}._actor_run")
    tries = [n for n in ast.walk(f.node) if isinstance(n, ast.Try)]
    ctx.require(bool(tries), f"{f.qualname}: no try statement")
    calls = [n for n in ast.walk(f.node) if isinstance(n, ast.Call) and isinstance(n.func, ast.Attribute) and n.func.attr in ("resolve", "construct_as_dependency", "gather")]
    for h in C.helper_callees(ctx, f):
        if any(isinstance(n, ast.Call) and isinstance(n.func, ast.Attribute) and n.func.attr in ("resolve", "construct_as_dependency", "gather") for n in ast.walk(h.node)):
            # the resolution work happens where the helper is called
            calls += [c for c in ast.walk(f.node) if isinstance(c, ast.Call) and any(cal is h for cal in ctx.res.callees(f, c, record=False))] * 2
    ctx.floor(rule, len(calls), 3, "resolution calls in actor_run")
    for c in calls:
        inside = any(any(x is c for st in t.body for x in ast.walk(st)) and any((dotted(h.type) or "") == "Exception" for h in t.handlers) for t in tries)
        ctx.check(inside, rule, f, f"{unparse(c.func)[-40:]}(...) inside the outcome try", "provider failure = failed execution",
                  f"actor_run performs {unparse(c)[:60]} outside the try that turns exceptions into a failed execution: a failing provider crashes the processing task "
                  "and the message is neither retried nor dead-lettered", node=c, instance=f"in try: {c.func.attr if isinstance(c.func, ast.Attribute) else unparse(c.func)}")


def _loop_env(kind: str | None, is_dep: bool | None, no_default: bool | None = None, scope=None):
    def fn(text, node):
        # `dep = get_dependency(...)` followed by `if dep is not None`
        if isinstance(node, ast.Compare) and isinstance(node.ops[0], ast.Is) and isinstance(node.comparators[0], ast.Constant) and node.comparators[0].value is None \
                and isinstance(node.left, ast.Name) and scope is not None and is_dep is not None:
            defs = C.local_defs(scope, node.left.id)
            if defs and all(isinstance(d, ast.Call) and (dotted(d.func) or "").endswith("get_dependency") for d in defs):
                return not is_dep
        if isinstance(node, ast.Compare):
            l, r = node.left, node.comparators[0]
            if isinstance(l, ast.NamedExpr):
                l = l.value
            if isinstance(node.ops[0], ast.Eq) and _mentions(l, "kind") and kind is not None:
                d = (dotted(r) or "").split(".")[-1]
                if d:
                    return d == kind
            if isinstance(node.ops[0], ast.In) and _mentions(l, "kind") and kind is not None:
                if isinstance(r, ast.Name) and scope is not None:
                    defs = C.local_defs(scope, r.id)
                    r = defs[0] if len(defs) == 1 else r
                if isinstance(r, (ast.Tuple, ast.List, ast.Set)):
                    return kind in [(dotted(x) or "").split(".")[-1] for x in r.elts]
            if isinstance(node.ops[0], ast.Is) and isinstance(r, ast.Constant) and r.value is None and isinstance(l, ast.Call) and (dotted(l.func) or "").endswith("get_dependency"):
                return None if is_dep is None else (not is_dep)
            if isinstance(node.ops[0], ast.Is) and _mentions(l, "default") and (dotted(r) or "").endswith("Parameter.empty"):
                return no_default
        return None
    return {"*loop": fn}


def declare(ctx: Ctx, rule="R-C18-DECLARE") -> None:
    for q in ("repid.converter.BasicConverter.__init__", "repid.converter.PydanticConverter.__init__", f"{DEPENDS}._update_subdependencies"):
        f = ctx.func(q)
        g = ctx.cfg(f)
        loops = [n for n in g.nodes if n.kind == "iter" and "parameters" in n.label]
        ctx.require(len(loops) >= 1, f"{f.qualname}: loop over the signature parameters not found")
        it = loops[0]
        starts = [y for y, k in g.succ[it.id] if k == "T"]
        r = flow.reach_under(g, _loop_env("POSITIONAL_ONLY", True, scope=f), flow.NORMAL_KINDS + ("raise",), start=starts[0])
        raised = any(g.nodes[i].kind == "raise" for i in r)
        completes = it.id in r or g.exit.id in r
        ctx.check(raised and not completes, rule, f, f"dependency in a positional-only parameter rejected in {f.short()}", "raise at declaration",
                  f"{f.short()} accepts a dependency declared in a positional-only parameter (no raise on that path): it would be silently treated as a payload argument "
                  "or fail only at run time", instance=f"positional-only dependency: {f.short()}")
        # a plain positional-only parameter is still accepted
        r = flow.reach_under(g, _loop_env("POSITIONAL_ONLY", False, False, scope=f), flow.NORMAL_KINDS + ("raise",), start=starts[0])
        completes = it.id in r
        ctx.check(completes, rule, f, f"plain positional-only parameter accepted in {f.short()}", "no over-rejection",
                  f"{f.short()} rejects every positional-only parameter", instance=f"positional-only plain: {f.short()}")
        # keyword-capable dependency -> recorded as dependency, not payload
        r = flow.reach_under(g, _loop_env("POSITIONAL_OR_KEYWORD", True, scope=f), flow.NORMAL_KINDS + ("raise",), start=starts[0])
        stores = [g.nodes[i] for i in r if g.nodes[i].kind == "store"]
        dep_st = [s for s in stores if any(k in (s.target or s.label) for k in ("dependency_kwargs", "_subdependencies"))]
        pay_st = [s for s in stores if (s.target or "").startswith(("self.kwargs", "self.args")) or (s.kind == "call" and ".append" in s.label)]
        pay_calls = [g.nodes[i] for i in r if g.nodes[i].kind == "call" and (g.nodes[i].callee or "") in ("self.kwargs.append", "self.args.append")]
        ctx.check(bool(dep_st) and not pay_st and not pay_calls, rule, f, f"keyword-capable dependency recorded as dependency in {f.short()}", "kept out of the payload tables",
                  f"{f.short()}: a dependency parameter is {'not recorded as dependency' if not dep_st else 'also entered into the payload tables'}", instance=f"dependency recorded: {f.short()}")
    f = ctx.func(f"{DEPENDS}._update_subdependencies")
    g = ctx.cfg(f)
    it = [n for n in g.nodes if n.kind == "iter" and "parameters" in n.label][0]
    starts = [y for y, k in g.succ[it.id] if k == "T"]
    r = flow.reach_under(g, _loop_env("POSITIONAL_OR_KEYWORD", False, True, scope=f), flow.NORMAL_KINDS + ("raise",), start=starts[0])
    raised = any(g.nodes[i].kind == "raise" for i in r)
    completes = it.id in r
    ctx.check(raised and not completes, rule, f, "provider parameter without default and without dependency rejected", "raise at declaration",
              "Depends accepts a provider with a non-dependency parameter that has no default: resolution fails only at run time", instance="provider parameter without default")
    # pydantic input model excludes dependency parameters
    p = ctx.func("repid.converter.PydanticConverter.__init__")
    cm = [c for c in ast.walk(p.node) if isinstance(c, ast.Call) and dotted(c.func) == "create_model"]
    ctx.require(len(cm) == 1, f"{p.qualname}: create_model call not found")
    from .C08 import _model_fields

    mf = _model_fields(p, cm[0])

    def excludes_deps(gd):
        while isinstance(gd, ast.UnaryOp) and isinstance(gd.op, ast.Not) and isinstance(gd.operand, ast.UnaryOp) and isinstance(gd.operand.op, ast.Not):
            gd = gd.operand.operand
        if isinstance(gd, ast.Compare) and isinstance(gd.ops[0], ast.NotIn) and dotted(gd.comparators[0]) == "self.dependency_kwargs":
            return True
        return isinstance(gd, ast.UnaryOp) and isinstance(gd.op, ast.Not) and isinstance(gd.operand, ast.Compare) and isinstance(gd.operand.ops[0], ast.In) \
            and dotted(gd.operand.comparators[0]) == "self.dependency_kwargs"

    ok = mf is not None and any(excludes_deps(gd) for gd in mf[3])
    ctx.check(ok, rule, p, "pydantic input model excludes dependency parameters", "if p.name not in self.dependency_kwargs", "the pydantic input model includes dependency parameters as payload fields",
              instance="pydantic model excludes dependencies")


def override(ctx: Ctx, rule="R-C18-OVERRIDE") -> None:
    c = ctx.prog.cls(DEPENDS)
    n = 0
    for m in c.methods.values():
        if m.name == "_update_subdependencies":
            continue
        g = ctx.icfg(m, exclude=("_update_subdependencies",))  # a shared `_set_fn` helper is part of __init__ / override
        stores = [s for s in g.nodes if s.kind == "store" and s.target == "self._fn"]
        for s in stores:
            n += 1
            upd = [x.id for x in g.calls() if (x.callee or "") == "self._update_subdependencies"]
            ctx.check(bool(upd) and flow.must_pass(g, s.id, [g.exit.id], upd, flow.NORMAL_KINDS), rule, m, f"self._fn = ... in {m.short()} followed by _update_subdependencies()",
                      "the sub-dependency table always matches the current provider",
                      f"{m.short()} replaces the provider without recomputing its sub-dependencies: the override is called with the old provider's arguments", node=s,
                      instance=f"_fn store in {m.name}")
            v = s.meta.get("value")
            ok = isinstance(v, ast.Call) and dotted(v.func) == "asyncify" and v.args and dotted(v.args[0]) == "fn"
            ctx.check(ok, rule, m, f"self._fn = asyncify(fn, ...) in {m.short()}", "the given provider", f"{m.short()} stores {unparse(v)[:60]} as provider", node=s,
                      instance=f"_fn value in {m.name}")
    ctx.floor(rule, n, 2, "stores to Depends._fn")
    bad_dunder = sorted(m_ for m_ in ("__eq__", "__hash__") if m_ in c.methods)
    ctx.check(not bad_dunder, rule, c.qualname, "every Depends declaration is its own object", "identity equality / hash",
              f"Depends defines {bad_dunder}: typing caches Annotated[...] aliases by the equality of their arguments, so two declarations with equal providers collapse into ONE Depends object - "
              "overriding one of them is then (not) seen through the other", instance="Depends identity")
    u = ctx.func(f"{DEPENDS}._update_subdependencies")
    g = ctx.cfg(u)
    resets = [s for s in g.nodes if s.kind == "store" and s.target == "self._subdependencies" and isinstance(s.meta.get("value"), ast.Dict) and not s.meta["value"].keys]
    fills = [s for s in g.nodes if s.kind == "store" and (s.target or "").startswith("self._subdependencies[")] + \
            [s for s in g.nodes if s.kind == "store" and isinstance(s.ast, ast.Subscript) and dotted(s.ast.value) == "self._subdependencies"]
    ctx.require(bool(fills), f"{u.qualname}: stores into the sub-dependency table not found")
    ctx.check(bool(resets) and all(flow.must_pass(g, g.entry.id, [s.id], [r.id for r in resets], flow.NORMAL_KINDS) for s in fills), rule, u,
              "_update_subdependencies starts from an empty table", "no entry of the replaced provider survives",
              "_update_subdependencies does not reset the table before filling it: after an override the new provider is also given the old provider's sub-dependencies",
              instance="table reset before fill")
    sig = [x for x in ast.walk(u.node) if isinstance(x, ast.Call) and (dotted(x.func) or "").endswith("signature")]
    ctx.check(len(sig) == 1 and dotted(sig[0].args[0]) == "self._fn", rule, u, "sub-dependencies scanned from the current provider", "inspect.signature(self._fn)",
              "_update_subdependencies scans something else than the current provider", instance="scan current provider")
    for s in fills:
        key = s.ast.slice if isinstance(s.ast, ast.Subscript) else None
        ctx.check(dotted(key) == "p.name" or (isinstance(key, ast.Attribute) and key.attr == "name"), rule, u, "sub-dependency stored under the parameter's name", "keyword = parameter name",
                  f"sub-dependency stored under {unparse(key) if key is not None else '?'}", node=s, instance="sub-dependency key")


def chain(ctx: Ctx, f: FuncInfo, provider: str, rule="R-C18-FLOW") -> None:
    tag = f.short()
    gathers = [c for c in ast.walk(f.node) if isinstance(c, ast.Call) and (dotted(c.func) or "").endswith("gather")]
    if not ctx.check(len(gathers) == 1, rule, f, f"one gather of the unresolved dependencies in {tag}", "found", f"{tag}: expected one asyncio.gather, found {len(gathers)}", instance=f"{tag}: gather"):
        return
    ga = gathers[0]
    ctx.check(not C.kw(ga, "return_exceptions"), rule, f, f"gather without return_exceptions in {tag}", "a failing provider fails the resolution",
              f"{tag} gathers the providers with return_exceptions: a provider's exception object is handed on as if it were the resolved value and the failure is never reported",
              node=ga, instance=f"{tag}: gather propagates failures")
    ok = len(ga.args) == 1 and isinstance(ga.args[0], ast.Starred)
    vals_src = None
    if ok:
        for d in C.expand_locals(f, ga.args[0].value, depth=2):
            if isinstance(d, ast.Call) and isinstance(d.func, ast.Attribute) and d.func.attr == "values":
                vals_src = dotted(d.func.value)
    ctx.check(vals_src is not None, rule, f, f"gather(*mapping.values()) in {tag}", f"values of {vals_src}", f"{tag}: the gathered awaitables are not the values() of the dependency mapping",
              node=ga, instance=f"{tag}: gather source")
    res_names = {t.id for n in ast.walk(f.node) if isinstance(n, ast.Assign) and isinstance(n.value, ast.Await) and n.value.value is ga for t in n.targets if isinstance(t, ast.Name)}
    ctx.check(bool(res_names), rule, f, f"gather awaited in {tag}", "awaited", f"{tag}: the gather is not awaited into a local", instance=f"{tag}: gather awaited")
    zips = [c for c in ast.walk(f.node) if isinstance(c, ast.Call) and dotted(c.func) == "dict" and c.args and isinstance(c.args[0], ast.Call) and dotted(c.args[0].func) == "zip"]
    # equivalent: {k: v for k, v in zip(names, resolved)}
    zips += [c for c in ast.walk(f.node) if isinstance(c, ast.DictComp) and len(c.generators) == 1 and isinstance(c.generators[0].iter, ast.Call) and dotted(c.generators[0].iter.func) == "zip"
             and isinstance(c.generators[0].target, ast.Tuple) and [dotted(e) for e in c.generators[0].target.elts] == [dotted(c.key), dotted(c.value)] and not c.generators[0].ifs]
    if not ctx.check(len(zips) == 1, rule, f, f"dict(zip(names, resolved)) in {tag}", "found", f"{tag}: dict(zip(...)) of names and resolved values not found", instance=f"{tag}: zip"):
        return
    z = zips[0].args[0] if isinstance(zips[0], ast.Call) else zips[0].generators[0].iter
    keys_src = None
    if len(z.args) == 2:
        for d in C.expand_locals(f, z.args[0], depth=2):
            if isinstance(d, ast.Call) and isinstance(d.func, ast.Attribute) and d.func.attr == "keys":
                keys_src = dotted(d.func.value)
            elif dotted(d) == vals_src:
                keys_src = dotted(d)
    ok = keys_src is not None and keys_src == vals_src and isinstance(z.args[1], ast.Name) and z.args[1].id in res_names
    ctx.check(ok, rule, f, f"names and values from the same mapping in the same order in {tag}", f"keys()/values() of {vals_src}, zipped with the gather result",
              f"{tag}: dependency names ({unparse(z.args[0])}) and resolved values ({unparse(z.args[1]) if len(z.args) > 1 else '?'}) do not come from the same mapping in the same order: "
              "a parameter would receive another provider's value", node=zips[0], instance=f"{tag}: names/values agree")
    kw_names = {t.id for n in ast.walk(f.node) if isinstance(n, ast.Assign) and n.value is zips[0] for t in n.targets if isinstance(t, ast.Name)}
    calls = [c for c in ast.walk(f.node) if isinstance(c, ast.Call) and dotted(c.func) == provider]
    ctx.require(len(calls) == 1, f"{f.qualname}: call of {provider} not found")
    pc = calls[0]
    ok = any(k.arg is None and isinstance(k.value, ast.Name) and k.value.id in kw_names for k in pc.keywords)
    ctx.check(ok, rule, f, f"{provider}(**resolved dependencies) in {tag}", "resolved values passed by parameter name", f"{tag}: {unparse(pc)[:80]} does not receive the resolved dependencies as keyword arguments",
              node=pc, instance=f"{tag}: kwargs passed")
    # the mapping is filled under the loop's name variable, from the dependency table (possibly inside a helper that builds and returns the mapping)
    lf = f
    loops = [n for n in ast.walk(f.node) if isinstance(n, (ast.For,)) and isinstance(n.target, ast.Tuple) and len(n.target.elts) == 2 and isinstance(n.iter, ast.Call)
             and isinstance(n.iter.func, ast.Attribute) and n.iter.func.attr == "items"]
    if not loops and vals_src is not None:
        for d in C.local_defs(f, vals_src):
            if isinstance(d, ast.Call):
                for cal in ctx.res.callees(f, d, record=False):
                    hl = [n for n in ast.walk(cal.node) if isinstance(n, ast.For) and isinstance(n.target, ast.Tuple) and len(n.target.elts) == 2 and isinstance(n.iter, ast.Call)
                          and isinstance(n.iter.func, ast.Attribute) and n.iter.func.attr == "items"]
                    rets = C.own_returns(cal)
                    if hl and len(rets) == 1 and isinstance(rets[0].value, ast.Name):
                        lf, loops, vals_src_h = cal, hl, rets[0].value.id
                        helper_binding = C.bind_call(cal, d)
    ctx.require(len(loops) >= 1, f"{f.qualname}: loop over the dependency table not found")
    lp = loops[0]
    nvar, dvar = lp.target.elts[0].id, lp.target.elts[1].id
    src = dotted(lp.iter.func.value)
    map_name = vals_src
    if lf is not f:
        map_name = vals_src_h
        root = src.split(".")[0] if src else ""
        if root in helper_binding and dotted(helper_binding[root]):
            src = dotted(helper_binding[root]) + src[len(root):]
    want_src = "self._subdependencies" if provider == "self._fn" else "actor.converter.dependencies"
    ctx.check(src == want_src, rule, f, f"dependency table iterated in {tag}", f"{want_src}.items()", f"{tag} iterates {src} instead of {want_src}", node=lp, instance=f"{tag}: table")
    fills = [n for n in ast.walk(lp) if isinstance(n, ast.Assign) and any(isinstance(t, ast.Subscript) and dotted(t.value) == map_name for t in n.targets)]
    ctx.floor(rule, len(fills), 2, f"stores into the dependency mapping in {tag}")
    for a in fills:
        t = [t for t in a.targets if isinstance(t, ast.Subscript)][0]
        val_x = C.inline_locals(lf, a.value, calls="all")
        ok = dotted(t.slice) == nvar and dvar in C.names_in(val_x) and any(isinstance(c, ast.Call) and isinstance(c.func, ast.Attribute) and c.func.attr == "resolve" for c in ast.walk(val_x))
        ctx.check(ok, rule, f, f"mapping[{nvar}] = <{dvar}>.resolve(...) in {tag}", "each name mapped to its own provider's coroutine",
                  f"{tag}: {unparse(a)[:100]} does not map the dependency's name to its own provider's resolution", node=a, instance=f"{tag}: fill {unparse(t.slice)}")
        ctxs = [k.value for c in ast.walk(a.value) if isinstance(c, ast.Call) for k in c.keywords if k.arg == "context"] or \
               [k.value for c in ast.walk(val_x) if isinstance(c, ast.Call) for k in c.keywords if k.arg == "context"]  # `constructed = dep.construct_as_dependency(context=...)` in a local
        ok = bool(ctxs) and all(isinstance(x, (ast.Name, ast.Call)) for x in ctxs)
        ctx.check(ok, rule, f, f"resolver context handed on in {tag}", "same message context for the whole graph", f"{tag}: a provider is resolved without the resolver context",
                  node=a, instance=f"{tag}: context")
    if provider == "self._fn":
        rets = [n for n in ast.walk(f.node) if isinstance(n, ast.Return)]
        ok = len(rets) == 1 and isinstance(rets[0].value, ast.Await) and rets[0].value.value is pc
        ctx.check(ok, rule, f, "Depends.resolve returns the provider's awaited value", "exactly what the provider returns", "Depends.resolve does not return the awaited provider call",
                  instance="resolve returns provider value")
    else:
        ok = len(pc.args) == 1 and isinstance(pc.args[0], ast.Starred) and dotted(pc.args[0].value) == "args" and sum(1 for k in pc.keywords if k.arg is None) == 2 \
            and any(k.arg is None and dotted(k.value) == "kwargs" for k in pc.keywords)
        ctx.check(ok, rule, f, "actor.fn(*args, **kwargs, **dependency_kwargs)", "payload arguments next to the dependencies", f"the actor is called as {unparse(pc)[:80]}", node=pc,
                  instance="actor call shape")
        ci = [c for c in ast.walk(f.node) if isinstance(c, ast.Call) and isinstance(c.func, ast.Attribute) and c.func.attr == "convert_inputs"]
        ok = len(ci) == 1 and dotted(ci[0].func.value) == "actor.converter" and dotted(ci[0].args[0]) == "payload"
        asg = [n for n in ast.walk(f.node) if isinstance(n, ast.Assign) and ci and n.value is ci[0]]
        ok = ok and len(asg) == 1 and isinstance(asg[0].targets[0], ast.Tuple) and [dotted(e) for e in asg[0].targets[0].elts] == ["args", "kwargs"]
        ctx.check(ok, rule, f, "args, kwargs = actor.converter.convert_inputs(payload)", "the converter's result, unmodified", "actor_run does not bind (args, kwargs) to the converter's result for the payload",
                  instance="convert_inputs binding")


def asyncify_rule(ctx: Ctx, rule="R-C18-FLOW") -> None:
    """Sync providers / actors run in an executor with exactly the arguments they were called with, and their value comes back."""
    f = ctx.func("repid._asyncify.asyncify")
    inner = f.nested.get("inner")
    ctx.require(inner is not None, f"{f.qualname}: inner wrapper not found")
    run = [c for c in ast.walk(inner.node) if isinstance(c, ast.Call) and isinstance(c.func, ast.Attribute) and c.func.attr == "run_in_executor"]
    ok = len(run) == 1 and len(run[0].args) == 2 and isinstance(run[0].args[1], ast.Call) and dotted(run[0].args[1].func) == "partial" \
        and unparse(run[0].args[1]) == "partial(fn, *args, **kwargs)"
    ctx.check(ok, rule, inner, "sync callable run as partial(fn, *args, **kwargs) in the executor", "arguments handed over unchanged", f"asyncify runs {unparse(run[0])[:80] if run else 'nothing'} in the executor", instance="asyncify arguments")
    rets = [r for r in ast.walk(inner.node) if isinstance(r, ast.Return)]
    ok = len(rets) == 1 and isinstance(rets[0].value, ast.Await) and run and rets[0].value.value is run[0]
    ctx.check(ok, rule, inner, "asyncify returns the callable's value", "return await run_in_executor(...)", "asyncify does not return the awaited executor result", instance="asyncify result")
    g = ctx.cfg(f)
    rr = [n for n in g.nodes if n.kind == "return"]
    tests = [t for t in g.nodes if t.kind == "test"]
    ok = len(tests) >= 1 and any("iscoroutinefunction(fn)" in t.label for t in tests) and any(dotted(n.ast.value) == "fn" for n in rr) and any(dotted(n.ast.value) == "inner" for n in rr)
    ctx.check(ok, rule, f, "coroutine functions are used as they are, others wrapped", "iscoroutinefunction(fn) -> fn, else inner", "asyncify no longer returns coroutine functions unchanged / wraps the others", instance="asyncify dispatch")
    # which predicate: asyncio's (it also accepts objects marked with asyncio's _is_coroutine protocol, e.g. callable provider objects and mocks; inspect's does not)
    preds = sorted({ctx.prog.resolve_name(f.module, dotted(c.func) or "") or (dotted(c.func) or "") for t in tests for c in ast.walk(t.ast)
                    if isinstance(c, ast.Call) and (dotted(c.func) or "").endswith("iscoroutinefunction")})
    ctx.check(preds == ["asyncio.iscoroutinefunction"], rule, f, "coroutine-function test is asyncio.iscoroutinefunction", "the predicate that also honours asyncio's marker protocol",
              f"asyncify decides 'already a coroutine function' with {preds}: callables that only asyncio.iscoroutinefunction recognises (objects carrying asyncio's coroutine marker) are "
              "wrapped as if synchronous - calling them in the executor returns an un-awaited coroutine object, which is what the actor / the dependent provider then receives", instance="asyncify predicate")
