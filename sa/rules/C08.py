"""C08 - Arguments bind to the actor signature identically under every converter."""
from __future__ import annotations

import ast

from .. import flow
from ..engine import Ctx
from ..model import FuncInfo, dotted, unparse
from . import common as C
from .C18 import _loop_env
from .shared import _mentions

SUMMARY = "Exhaustive parameter-kind handling, sentinel escape, empty-payload guard (sibling contradiction), positional alignment, single actor call site."
DECIDED = [
    "R-C08-KINDS: each converter's declaration-time scan handles all five inspect.Parameter kinds (bound or rejected with a raise); "
    "dependency parameters never enter the payload tables / the pydantic model",
    "R-C08-SENTINEL: inspect.Parameter.empty read from p.default cannot reach the arguments returned by BasicConverter.convert_inputs: an "
    "identity test against the sentinel that raises covers the positional and (unfiltered) keyword tables; the pydantic model maps a missing default to a required Field()",
    "R-C08-ALIGN: positional-only arguments are produced for every positional-only parameter in declaration order (no filtering that shifts "
    "later values); extras go only to **kwargs / *args",
    "R-C08-EMPTY: every convert_inputs guards the empty payload before handing it to a JSON parser (Job sends '' for argument-less jobs)",
    "R-C08-FRESH: convert_inputs / convert_outputs of every converter are not memoised (no functools cache decorator or cache wrapper around them) and keep no "
    "per-call state on the converter: each execution binds freshly parsed argument objects, never the (possibly mutated) objects of an earlier execution",
    "R-C08-CALL: actor.fn is called only in actor_run as fn(*args, **kwargs, **dependencies) with the converter's unmodified result; the default "
    "converter selects pydantic v2, then v1, then basic",
    "R-C08-EMPTY (transport): the empty payload reaches the converter - no truthiness test on the way (C07's rule reused); R-C08-ALIGN (model config): the pydantic input model keeps default matching (no extra/strict/alias/str_* option, no foreign base)",
    "R-C08-ALIGN (round 5): unmatched payload entries are handed to **kwargs or to *args, never to both and never dropped when one exists (decided per flag combination on the CFG region governed by the catch-all flags); R-C08-CALL: every path from the actor's return to success passes convert_outputs (no truthiness shortcut)",
    "R-C08-CALL (round 6): what is bound to the signature is the bucket's current content, fetched on every delivery (C07 marker rules reused)",
    "R-C08-AWAITED: in the files this property is anchored in, no bare statement calls a coroutine function (the operation would never run)",
    "R-C08-CALL (sweep stage two): the four outcomes of PydanticConverter.convert_outputs by return annotation, decided under fixed guard atoms",
]
NOT_DECIDED = ["equality of the arguments produced by the two converters (value level)", "decode(convert_outputs(v)) == v (value level)"]
ASSUMPTIONS = ["pydantic fills declared defaults unvalidated unless validate_default is configured"]

BASIC = "repid.converter.BasicConverter"
PYD = "repid.converter.PydanticConverter"
PYD1 = "repid.converter.PydanticV1Converter"
KINDS5 = ("POSITIONAL_ONLY", "POSITIONAL_OR_KEYWORD", "KEYWORD_ONLY", "VAR_POSITIONAL", "VAR_KEYWORD")


def run(ctx: Ctx) -> None:
    from .shared import every_operation_awaited

    every_operation_awaited(ctx, "R-C08-AWAITED")  # in the files this property is anchored in, no asynchronous operation is created and dropped
    from .shared import pydantic_output_table

    pydantic_output_table(ctx, "R-C08-CALL")
    from .C07 import marker

    with ctx.as_rule("R-C08-CALL"):
        marker(ctx, "R-C08-CALL")  # what is bound to the signature is the bucket's CURRENT content (fetched on every delivery), else the inline payload
    kinds(ctx)
    sentinel_and_align(ctx)
    empty(ctx)
    call(ctx)
    extras_once(ctx)
    result_unconditional(ctx)
    fresh(ctx)
    from .C07 import falsy_tests

    falsy_tests(ctx, "R-C08-EMPTY")  # an empty payload (job without arguments) reaches the converter: nothing on the way takes it for 'missing'


def kinds(ctx: Ctx, rule="R-C08-KINDS") -> None:
    for q in (f"{BASIC}.__init__", f"{PYD}.__init__"):
        f = ctx.func(q)
        g = ctx.cfg(f)
        it = [n for n in g.nodes if n.kind == "iter" and "parameters" in n.label]
        ctx.require(len(it) >= 1, f"{f.qualname}: loop over signature parameters not found")
        it = it[0]
        start = [y for y, k in g.succ[it.id] if k == "T"][0]
        for kind in KINDS5:
            r = flow.reach_under(g, _loop_env(kind, False, None, scope=f), flow.NORMAL_KINDS + ("raise",), start=start)
            effects = [g.nodes[i] for i in r if (g.nodes[i].kind == "store" and (g.nodes[i].target or "").startswith("self."))
                       or (g.nodes[i].kind == "call" and (g.nodes[i].callee or "").startswith("self.") and (g.nodes[i].callee or "").endswith(".append"))
                       or g.nodes[i].kind == "raise"]
            # effects of *other* iterations are reachable through the loop back edge only with the same kind, so this is per kind
            ctx.check(bool(effects), rule, f, f"{f.short()}: parameter kind {kind} handled", ", ".join(sorted({e.label[:40] for e in effects}))[:120],
                      f"{f.short()} silently ignores parameters of kind {kind}: payload entries for them are dropped (or they are called without a value)",
                      instance=f"{f.short()}[{kind}]")
        # dependency parameters stay out of the payload tables
        r = flow.reach_under(g, _loop_env("KEYWORD_ONLY", True, None, scope=f), flow.NORMAL_KINDS + ("raise",), start=start)
        pay = [g.nodes[i] for i in r if (g.nodes[i].kind == "store" and (g.nodes[i].target or "").startswith(("self.kwargs[", "self.args[")))
               or (g.nodes[i].kind == "call" and (g.nodes[i].callee or "") in ("self.kwargs.append", "self.args.append"))]
        dep = [g.nodes[i] for i in r if g.nodes[i].kind == "store" and "dependency_kwargs" in (g.nodes[i].target or "")]
        ctx.check(bool(dep) and not pay, rule, f, f"{f.short()}: dependency parameter kept out of the payload tables", "recorded only as dependency",
                  f"{f.short()}: a dependency parameter is {'also a payload parameter' if pay else 'not recorded'}", instance=f"{f.short()}[dependency]")


def _comp_of(f: FuncInfo, name: str):
    for d in C.local_defs(f, name):
        if isinstance(d, (ast.ListComp, ast.DictComp)):
            return d
    return None


def sentinel_and_align(ctx: Ctx) -> None:
    f = ctx.func(f"{BASIC}.convert_inputs")
    g = ctx.cfg(f)
    ab = C.collection_build(f, "args")
    kb = C.collection_build(f, "kwargs")
    ctx.require(ab is not None and kb is not None, f"{f.qualname}: construction of args / kwargs (comprehension or loop) not found")
    _, a_t, a_it, a_elt, a_ifs = ab
    ok = dotted(a_it) == "self.args" and not a_ifs and isinstance(a_t, ast.Name)
    ctx.check(ok, "R-C08-ALIGN", f, "args built with one value per name in self.args (unfiltered)", "one value per positional-only parameter, in declaration order",
              f"BasicConverter builds the positional arguments over `{unparse(a_it)}`{' under ' + unparse(a_ifs[0]) if a_ifs else ''}: skipping a positional-only parameter that is absent from "
              "the payload shifts every later value one slot to the left (the actor runs with made-up bindings)", node=a_elt if isinstance(a_elt, ast.AST) else None, instance="basic: positional alignment")
    pops = [c for c in ast.walk(a_elt) if isinstance(c, ast.Call) and dotted(c.func) == "loaded.pop"] if isinstance(a_elt, ast.AST) else []
    ok = len(pops) == 1 and isinstance(pops[0].args[0], ast.Name) and isinstance(a_t, ast.Name) and pops[0].args[0].id == a_t.id and len(pops[0].args) == 2 \
        and isinstance(pops[0].args[1], ast.Subscript) and dotted(pops[0].args[1].value) == "self.args"
    ctx.check(ok, "R-C08-ALIGN", f, "positional value = payload entry of its name, else its default", "loaded.pop(name, self.args[name])",
              f"BasicConverter positional value is {unparse(a_elt)[:60] if isinstance(a_elt, ast.AST) else a_elt}", instance="basic: positional value")
    _, k_t, k_it, k_elt, k_ifs = kb
    k_key, k_val = k_elt if isinstance(k_elt, tuple) else (None, None)
    kpops = [c for c in ast.walk(k_val) if isinstance(c, ast.Call) and dotted(c.func) == "loaded.pop"] if k_val is not None else []
    ok = dotted(k_it) == "self.kwargs" and len(kpops) == 1 and isinstance(k_t, ast.Name) and dotted(k_key) == k_t.id and isinstance(kpops[0].args[0], ast.Name) and kpops[0].args[0].id == k_t.id
    ctx.check(ok, "R-C08-ALIGN", f, "kwargs = {name: payload entry or default for name in self.kwargs}", "each keyword parameter bound by its own name",
              f"BasicConverter keyword arguments are built over {unparse(k_it)} as {unparse(k_val)[:60] if k_val is not None else '?'}", instance="basic: keyword binding")

    class _G:  # keeps the names used below
        ifs = k_ifs
    gk = _G
    kw_filtered = bool(gk.ifs)
    # sentinel check
    tests = [t for t in g.nodes if t.kind == "test" and any(isinstance(c, ast.Compare) and isinstance(c.ops[0], (ast.Is, ast.IsNot, ast.Eq)) and
                                                            (dotted(c.comparators[0]) or "").endswith("Parameter.empty") for c in ast.walk(t.ast))]
    covered = set()
    raises_ok = False
    for t in tests:
        def env(text, node):
            if isinstance(node, ast.Compare) and (dotted(node.comparators[0]) or "").endswith("Parameter.empty"):
                return True
            return None
        r = flow.reach_under(g, {"*e": env}, flow.NORMAL_KINDS + ("raise",), start=t.id)
        if any(g.nodes[i].kind == "raise" for i in r) and g.exit.id not in {y for i in r for y, k in g.succ[i] if g.nodes[i].kind != "test"} | set():
            raises_ok = True
        # what does the loop around the test iterate?
        for lp in ast.walk(f.node):
            if isinstance(lp, (ast.For, ast.comprehension)) and any(x is t.ast for x in ast.walk(lp)):
                names = C.names_in(lp.iter)
                if "args" in names:
                    covered.add("args")
                if "kwargs" in names:
                    covered.add("kwargs")
    need = {"args"} | (set() if kw_filtered else {"kwargs"})
    rets = [n for n in g.nodes if n.kind == "return" and isinstance(n.ast.value, ast.Tuple) and [dotted(e) for e in n.ast.value.elts] == ["args", "kwargs"]]
    dominated = bool(tests) and all(flow.must_pass(g, g.entry.id, [r_.id], [t.id for t in tests] + [i.id for i in g.nodes if i.kind == "iter"], flow.NORMAL_KINDS) for r_ in rets)
    ctx.check(raises_ok and need <= covered and dominated, "R-C08-SENTINEL", f, "missing argument without default raises (sentinel never returned)",
              f"identity test against inspect.Parameter.empty over {sorted(covered)} before the return",
              "BasicConverter.convert_inputs can return inspect.Parameter.empty as an argument value: a payload lacking a parameter that has no default "
              f"runs the actor with a made-up value (sentinel test covers {sorted(covered) or 'nothing'}, needed {sorted(need)})", instance="basic: sentinel sanitised")
    # extras only to catch-alls
    upd = [n for n in g.calls() if (n.callee or "") == "kwargs.update"]
    upd += [n for n in g.nodes if n.kind == "iter" and isinstance(n.ast, ast.For) and unparse(n.ast.iter) in ("loaded.items()", "loaded")
            and any(isinstance(x, ast.Assign) and isinstance(x.targets[0], ast.Subscript) and dotted(x.targets[0].value) == "kwargs" for x in ast.walk(n.ast))]
    ext = [n for n in g.calls() if (n.callee or "") == "args.extend"]
    ext += [n for n in g.nodes if n.kind == "iter" and isinstance(n.ast, ast.For) and unparse(n.ast.iter) in ("loaded.values()",)
            and any(isinstance(x, ast.Call) and dotted(x.func) == "args.append" for x in ast.walk(n.ast))]

    def flags(all_kwargs, all_args):
        def fn(text, node):
            d = dotted(node)
            if d == "self.all_kwargs":
                return all_kwargs
            if d == "self.all_args":
                return all_args
            return None
        return {"*f": fn}

    for ak, aa in ((False, False), (True, False), (False, True), (True, True)):
        r = flow.reach_under(g, flags(ak, aa), flow.NORMAL_KINDS)
        gu, ge = any(u.id in r for u in upd), any(e.id in r for e in ext)
        ok = (gu == ak) and (ge == (aa and not ak) or (ge == aa))
        ok = ok and not (gu and not ak) and not (ge and not aa)
        ctx.check(ok, "R-C08-ALIGN", f, f"extras with **kwargs={ak}, *args={aa}", f"update={gu}, extend={ge}",
                  f"BasicConverter with **kwargs={ak}, *args={aa}: extra payload entries go to kwargs.update={gu}, args.extend={ge}", instance=f"basic: extras[{ak},{aa}]")
    # init stores defaults
    init = ctx.func(f"{BASIC}.__init__")
    for tbl in ("self.args", "self.kwargs"):
        st = [n for n in ast.walk(init.node) if isinstance(n, ast.Assign) and any(isinstance(t, ast.Subscript) and dotted(t.value) == tbl for t in n.targets)]
        ok = len(st) == 1 and dotted(st[0].value) == "p.default" and dotted([t for t in st[0].targets][0].slice) == "p.name"
        ctx.check(ok, "R-C08-ALIGN", init, f"{tbl}[p.name] = p.default", "table of declared defaults by parameter name", f"BasicConverter.__init__ fills {tbl} with {unparse(st[0]) if st else 'nothing'}",
                  instance=f"basic init: {tbl}")
    # pydantic
    p = ctx.func(f"{PYD}.__init__")
    cm = [c for c in ast.walk(p.node) if isinstance(c, ast.Call) and dotted(c.func) == "create_model" and any(k.arg is None for k in c.keywords)]
    ctx.require(len(cm) == 1, f"{p.qualname}: create_model(...) of the input model not found")
    fields = _model_fields(p, cm[0])
    ctx.require(fields is not None, f"{p.qualname}: field table of the input model (dict comprehension or loop-filled dict) not found")
    f_target, f_iter, (f_key, val), f_guards, f_node = fields
    ok = isinstance(val, ast.Tuple) and len(val.elts) == 2 and isinstance(val.elts[1], ast.IfExp)
    if ok:
        ie = val.elts[1]
        t = ie.test
        ok = isinstance(t, ast.Compare) and dotted(t.left) == "p.default" and (dotted(t.comparators[0]) or "").endswith("Parameter.empty")
        if ok and isinstance(t.ops[0], ast.IsNot):
            ok = dotted(ie.body) == "p.default" and isinstance(ie.orelse, ast.Call) and dotted(ie.orelse.func) == "Field" and not ie.orelse.args and not ie.orelse.keywords
        elif ok and isinstance(t.ops[0], ast.Is):
            ok = dotted(ie.orelse) == "p.default" and isinstance(ie.body, ast.Call) and dotted(ie.body.func) == "Field" and not ie.body.args and not ie.body.keywords
        else:
            ok = False
    ctx.check(ok, "R-C08-SENTINEL", p, "pydantic field default: p.default, or required Field() when the parameter has none", "sentinel mapped to 'required'",
              f"the pydantic input model takes {unparse(val)[:100]} as (type, default): a parameter without default is not a required field (or a declared default is lost)",
              node=f_node, instance="pydantic: field default")
    ok = dotted(f_key) == "p.name" and "parameters" in C.utext(p, f_iter, calls="all")
    ctx.check(ok, "R-C08-ALIGN", p, "pydantic model fields named after the parameters", "p.name", f"model fields are keyed by {unparse(f_key)}", instance="pydantic: field names")
    def config_kws(e):
        out = []
        for d in C.expand_locals(p, e):
            for c in ast.walk(d):
                if isinstance(c, ast.Call):
                    out += [kk for kk in c.keywords if kk.arg]
                elif isinstance(c, ast.Dict):
                    out += [ast.keyword(arg=k_.value, value=v_) for k_, v_ in zip(c.keys, c.values) if isinstance(k_, ast.Constant) and isinstance(k_.value, str)]
        return out

    cfg_kws = [kk for k in cm[0].keywords if k.arg == "__config__" for kk in config_kws(k.value)]
    cfg_kws += [k for c in ast.walk(cm[0]) if isinstance(c, ast.Call) and c is not cm[0] for k in c.keywords if k.arg in ("validate_default",)]
    vd = [k for k in cfg_kws if k.arg == "validate_default" and C.is_const(k.value, True)]
    ctx.check(not vd, "R-C08-SENTINEL", p, "declared defaults are passed through unvalidated", "no validate_default on the input model",
              "the pydantic input model validates defaults: a parameter absent from the payload whose declared default does not validate against its annotation "
              "(e.g. `x: int = None`) fails the execution instead of receiving its default, and the converters disagree", instance="pydantic: defaults untouched")
    # the model must keep pydantic's default matching: unknown payload entries are ignored (as BasicConverter does without **kwargs), names are the parameter names, values are not rewritten
    changing = {"extra": lambda v: not C.is_const(v, "ignore") and not C.is_const(v, None), "strict": lambda v: C.is_const(v, True), "alias_generator": lambda v: not C.is_const(v, None),
                "str_strip_whitespace": lambda v: C.is_const(v, True), "str_to_lower": lambda v: C.is_const(v, True), "str_to_upper": lambda v: C.is_const(v, True),
                "coerce_numbers_to_str": lambda v: C.is_const(v, True), "str_max_length": lambda v: not C.is_const(v, None), "populate_by_name": lambda v: False}
    bad_cfg = [f"{k.arg}={unparse(k.value)}" for k in cfg_kws if k.arg in changing and changing[k.arg](k.value)]
    base = [k for k in cm[0].keywords if k.arg == "__base__"]
    ctx.check(not bad_cfg and not base, "R-C08-ALIGN", p, "input model keeps the default matching of payload entries to parameters", "no extra/strict/alias/str_* option, no foreign base model",
              f"the pydantic input model is configured with {bad_cfg or ['__base__=' + unparse(b_.value) for b_ in base]}: payload entries are matched (or rejected / rewritten) differently from BasicConverter - e.g. "
              "`extra='forbid'` fails every payload that carries an entry without a matching parameter instead of ignoring it", node=cm[0], instance="pydantic: model config")
    for q in (f"{PYD}.convert_inputs", f"{PYD1}.convert_inputs"):
        ci = ctx.func(q)
        ext = _positional_extraction(ctx, ci)
        ok = ext is not None and dotted(ext[1]) == "self.args" and not ext[3] and isinstance(ext[0], ast.Name) and unparse(ext[2]) == f"loaded.pop({ext[0].id})"
        ctx.check(ok, "R-C08-ALIGN", ci, f"{ci.short()}: positional-only values popped in declaration order", "[loaded.pop(arg) for arg in self.args]",
                  f"{ci.short()} extracts positional-only arguments with {unparse(ext[2])[:80] if ext else 'nothing'}", instance=f"{ci.short()}: positional extraction")
        rets = C.deep_returns(ctx, ci)
        ok = all(isinstance(v, ast.Tuple) and len(v.elts) == 2 and dotted(v.elts[1]) == "loaded" for _, v in rets) and bool(rets)
        ctx.check(ok, "R-C08-ALIGN", ci, f"{ci.short()}: remaining validated fields are the keyword arguments", "(args, loaded)", f"{ci.short()} returns {[unparse(v) if v is not None else None for _, v in rets]}",
                  instance=f"{ci.short()}: kwargs")
        ld = C.local_defs(ci, "loaded")
        ok = len(ld) == 1 and isinstance(ld[0], ast.Call) and dotted(ld[0].func) == "dict" and isinstance(ld[0].args[0], ast.Call) and "input_pydantic_model" in unparse(ld[0].args[0].func)
        ctx.check(ok, "R-C08-ALIGN", ci, f"{ci.short()}: arguments are the validated model's fields", "dict(model.validate(payload))", f"{ci.short()} builds arguments from {unparse(ld[0])[:80] if ld else '?'}",
                  instance=f"{ci.short()}: model fields")


def _model_fields(p: FuncInfo, cm: ast.Call):
    """(target, iter, (key, value), guards, node) of the `**fields` table given to create_model: a dict comprehension or a dict filled in a loop."""
    for k in cm.keywords:
        if k.arg is not None:
            continue
        v = k.value
        if isinstance(v, ast.DictComp) and len(v.generators) == 1:
            g_ = v.generators[0]
            return g_.target, g_.iter, (v.key, v.value), list(g_.ifs), v
        if isinstance(v, ast.Name):
            cb = C.collection_build(p, v.id)
            if cb is not None and isinstance(cb[3], tuple):
                return cb[1], cb[2], cb[3], cb[4], k.value
    return None


def _positional_extraction(ctx: Ctx, ci: FuncInfo):
    """(target, iter, element, guards) of the list of positional-only values built in convert_inputs or a private helper of it."""
    for fn in [ci] + C.helper_callees(ctx, ci):
        for x in C.own_nodes(fn):
            if isinstance(x, ast.ListComp) and len(x.generators) == 1 and "pop" in unparse(x.elt):
                g_ = x.generators[0]
                return g_.target, g_.iter, x.elt, list(g_.ifs)
        for nm in {n.id for n in ast.walk(fn.node) if isinstance(n, ast.Name)}:
            cb = C.collection_build(fn, nm)
            if cb is not None and cb[0] == "loop" and not isinstance(cb[3], tuple) and "pop" in unparse(cb[3]):
                return cb[1], cb[2], cb[3], cb[4]
    return None


PARSERS = ("loads", "model_validate_json", "parse_raw")


def empty(ctx: Ctx, rule="R-C08-EMPTY") -> None:
    n = 0
    for q in (f"{BASIC}.convert_inputs", f"{PYD}.convert_inputs", f"{PYD1}.convert_inputs"):
        f = ctx.func(q)
        g = ctx.cfg(f)
        data = [p.arg for p in f.params()][1]
        parses = [c for c in g.calls() if isinstance(c.ast.func, ast.Attribute) and c.ast.func.attr in PARSERS]
        ctx.require(bool(parses), f"{f.qualname}: JSON parse call not found")

        def env(text, node, data=data):
            if isinstance(node, ast.Name) and node.id == data:
                return False
            if isinstance(node, ast.Compare) and dotted(node.left) == data and isinstance(node.ops[0], ast.Eq) and C.is_const(node.comparators[0], ""):
                return True
            return None

        refill = {s_.id for s_ in g.nodes if s_.kind == "store" and s_.target == data and isinstance(s_.meta.get("value"), ast.Constant)
                  and isinstance(s_.meta["value"].value, str) and s_.meta["value"].value.strip().startswith(("{", "["))}
        r = flow.reach_under(g, {"*d": env}, flow.NORMAL_KINDS, blocked=refill)
        for pc in parses:
            n += 1
            a = pc.ast.args[0] if pc.ast.args else None
            fallback = isinstance(a, ast.BoolOp) and isinstance(a.op, ast.Or) and dotted(a.values[0]) == data and isinstance(a.values[-1], ast.Constant) \
                and isinstance(a.values[-1].value, str) and a.values[-1].value.strip().startswith(("{", "["))
            unreachable = pc.id not in r
            ctx.check(fallback or unreachable, rule, f, f"{f.short()}: empty payload guarded before {pc.ast.func.attr}", "empty string never reaches the JSON parser",
                      f"{f.short()} hands the payload to {pc.ast.func.attr} without guarding the empty string: Job.enqueue() sends '' for a job without arguments, so "
                      "every such job fails argument conversion and is dead-lettered without running its actor", node=pc, instance=f"{f.short()}: empty payload")
    ctx.floor(rule, n, 3, "JSON parse sites in convert_inputs implementations")
    # the producer side really sends ""
    j = ctx.func("repid.job.Job._construct_args")
    rets = [r for r in ast.walk(j.node) if isinstance(r, ast.Return)]
    ok = any(isinstance(r.value, ast.BoolOp) and isinstance(r.value.op, ast.Or) and C.is_const(r.value.values[-1], "") for r in rets)
    ctx.check(ok, rule, j, "argument-less job payload is the empty string", "self.args or ''", "Job._construct_args no longer sends '' for argument-less jobs (update the empty-payload contract)",
              instance="producer sends empty string")
    # basic: empty payload -> no arguments at all (python applies the declared defaults)
    b = ctx.func(f"{BASIC}.convert_inputs")
    g = ctx.cfg(b)
    r = flow.reach_under(g, {"*d": lambda t, n: False if isinstance(n, ast.Name) and n.id == "data" else None}, flow.NORMAL_KINDS)
    rets = [x for x in g.nodes if x.kind == "return" and x.id in r]
    ok = len(rets) == 1 and unparse(rets[0].ast.value) in ("([], {})", "[], {}")
    ctx.check(ok, rule, b, "basic: empty payload -> ([], {})", "the actor is called without arguments, Python applies its defaults", f"BasicConverter on '' returns {[unparse(x.ast.value) for x in rets]}",
              instance="basic: empty result")


def call(ctx: Ctx, rule="R-C08-CALL") -> None:
    sites = []
    for fn in ctx.prog.iter_functions():
        for n in ast.walk(fn.node):
            if isinstance(n, ast.Call) and isinstance(n.func, ast.Attribute) and n.func.attr == "fn" and dotted(n.func.value) in ("actor", "actor_data", "self._actor_data"):
                sites.append((fn, n))
    ctx.check(len(sites) == 1 and sites[0][0].qualname == f"{C.PROCESSOR}._actor_run", rule, f"{C.PROCESSOR}._actor_run", "single call site of actor.fn",
              "only actor_run invokes actors", f"actor functions are invoked from {[s[0].short() for s in sites]}", instance="single actor call site")
    if sites:
        fn, n = sites[0]
        ok = unparse(n) == "actor.fn(*args, **kwargs, **dependency_kwargs)"
        ctx.check(ok, rule, fn, "actor.fn(*args, **kwargs, **dependency_kwargs)", "converter result passed unmodified", f"the actor is invoked as {unparse(n)[:80]}", node=n, instance="actor call shape")
        ci = [c for c in ast.walk(fn.node) if isinstance(c, ast.Call) and isinstance(c.func, ast.Attribute) and c.func.attr == "convert_inputs"]
        ok = len(ci) == 1 and dotted(ci[0].func.value) == "actor.converter" and len(ci[0].args) == 1 and dotted(ci[0].args[0]) == "payload"
        ctx.check(ok, rule, fn, "convert_inputs(payload) of the actor's own converter", "actor.converter.convert_inputs(payload)", "actor_run does not convert the payload with the actor's converter", instance="convert_inputs call")
        between = [s for s in ast.walk(fn.node) if isinstance(s, (ast.Assign, ast.AugAssign)) and any(dotted(t) in ("args", "kwargs") for t in (s.targets if isinstance(s, ast.Assign) else [s.target]))]
        ctx.check(not between, rule, fn, "args/kwargs not reassigned after conversion", "unmodified", "actor_run modifies args/kwargs after conversion", instance="args unmodified")
    # process() hands the resolved payload (bucket content) to actor_run
    p = ctx.func(f"{C.PROCESSOR}.process")
    ar = [c for c in ast.walk(p.node) if isinstance(c, ast.Call) and (dotted(c.func) or "").endswith("actor_run")]
    if not ctx.check(len(ar) == 1, rule, p, "process() runs the actor through one actor_run call", "single call site", f"process() has {len(ar)} actor_run call sites "
                     f"({[unparse(a.func) for a in ar]}): arguments reach the actor by different routes", instance="single actor_run call"):
        return
    pa = C.arg(ar[0], 3, "payload")
    ok = isinstance(pa, ast.Name) and any(isinstance(d, ast.Await) and isinstance(d.value, ast.Call) and (dotted(d.value.func) or "").endswith("get_payload") for d in C.local_defs(p, pa.id))
    ctx.check(ok, rule, p, "actor_run receives the resolved payload", "bucket reference replaced by the bucket's data", f"process() passes {unparse(pa)} as payload to actor_run", node=ar[0],
              instance="resolved payload to actor_run")
    d = ctx.func("repid.converter.DefaultConverter.__new__")
    g = ctx.cfg(d)
    rets = [n for n in g.nodes if n.kind == "return"]

    def env(v2, v1):
        def fn(text, node):
            if isinstance(node, ast.Call) and dotted(node.func) == "is_installed" and len(node.args) == 2 and isinstance(node.args[1], ast.Constant):
                c = node.args[1].value
                if c.startswith(">=2"):
                    return v2
                if c.startswith(">=1"):
                    return v1
            return None
        return {"*p": fn}

    for v2, v1, want in ((True, False, "PydanticConverter"), (False, True, "PydanticV1Converter"), (False, False, "BasicConverter")):
        r = flow.reach_under(g, env(v2, v1), flow.NORMAL_KINDS)
        got = sorted({dotted(n.ast.value.func) for n in rets if n.id in r and isinstance(n.ast.value, ast.Call)})
        ctx.check(got == [want], rule, d, f"default converter with pydantic v2={v2}, v1={v1}", f"-> {want}", f"DefaultConverter with pydantic v2={v2}, v1={v1} selects {got}", instance=f"default converter[{v2},{v1}]")


CACHES = {"lru_cache", "cache", "cached", "cachedmethod", "memoize", "memoise", "alru_cache", "cached_property"}


def _is_cache(e: ast.AST) -> bool:
    for x in ast.walk(e):
        d = dotted(x) if isinstance(x, (ast.Name, ast.Attribute)) else None
        if d and d.split(".")[-1] in CACHES:
            return True
    return False


def extras_once(ctx: Ctx, rule="R-C08-ALIGN") -> None:
    """Payload entries without a matching parameter are handed over exactly once: to **kwargs when there is one, else to *args - never to both."""
    f = ctx.func(f"{BASIC}.convert_inputs")
    g = ctx.cfg(f)
    # the spill = what mutates kwargs / args under the control of a test on the catch-all flags (a call like kwargs.update(...), or stores like kwargs[k] = v in a loop)
    def succ(t, kind):
        return [d for d, k in g.succ[t.id] if k == kind]

    region: set[int] = set()
    for t in g.nodes:
        if t.kind == "test" and t.ast is not None and any(dotted(x) in ("self.all_kwargs", "self.all_args") for x in ast.walk(t.ast)):
            rt, rf = flow.reach(g, succ(t, "T"), flow.NORMAL_KINDS, include_start=True), flow.reach(g, succ(t, "F"), flow.NORMAL_KINDS, include_start=True)
            region |= (rt - rf) | (rf - rt)

    def mutates(n, name):
        if n.id not in region:
            return False
        if n.kind == "call" and isinstance(n.ast.func, ast.Attribute) and dotted(n.ast.func.value) == name:
            return n.ast.func.attr in ("update", "setdefault", "extend", "append", "insert")
        return n.kind == "store" and ((n.target or "") == name or (n.target or "").startswith(name + "["))

    spill_kw = [n for n in g.nodes if mutates(n, "kwargs")]
    spill_pos = [n for n in g.nodes if mutates(n, "args")]
    ctx.require(bool(spill_kw) and bool(spill_pos), f"{f.qualname}: spill of the remaining payload entries not found")

    def env(akw, aar):
        def fn(text, node):
            d = dotted(node)
            if d == "self.all_kwargs":
                return akw
            if d == "self.all_args":
                return aar
            return None
        return {"*catch": fn}

    for akw, aar, want in ((True, True, ("kw",)), (True, False, ("kw",)), (False, True, ("pos",)), (False, False, ())):
        r = flow.reach_under(g, env(akw, aar), flow.NORMAL_KINDS)
        got = tuple(k for k, ns in (("kw", spill_kw), ("pos", spill_pos)) if any(n.id in r for n in ns))
        ctx.check(got == want, rule, f, f"extras with **kwargs={akw}, *args={aar}", f"-> {want or 'dropped'}",
                  f"BasicConverter.convert_inputs with **kwargs={akw}, *args={aar} hands the unmatched payload entries to {got or 'nobody'} instead of {want or 'nobody'}: "
                  "an actor with both catch-alls receives every extra entry twice", instance=f"extras[{akw},{aar}]")


def result_unconditional(ctx: Ctx, rule="R-C08-CALL") -> None:
    """Whatever the actor returned - also 0, False, '', [] or None - goes through convert_outputs before it becomes the result."""
    f = ctx.func(f"{C.PROCESSOR}._actor_run")
    g = ctx.cfg(f)
    fn_aw = [n for n in g.nodes if n.kind == "await" and isinstance(n.ast, ast.Await) and any(isinstance(c, ast.Call) and dotted(c.func) == "actor.fn" for c in ast.walk(n.ast))]
    conv = [n.id for n in g.calls() if isinstance(n.ast.func, ast.Attribute) and n.ast.func.attr == "convert_outputs"]
    ctx.require(bool(fn_aw) and bool(conv), f"{f.qualname}: actor await / convert_outputs not found")
    succ = [n.id for n in g.nodes if n.kind == "store" and n.target == "success" and C.is_const(n.meta.get("value"), True)]
    ctx.require(bool(succ), f"{f.qualname}: success = True not found")
    ok = all(flow.must_pass(g, a.id, succ, conv, flow.NORMAL_KINDS) for a in fn_aw)
    ctx.check(ok, rule, f, "every returned value is encoded", "convert_outputs on every path from the actor's return to success",
              "actor_run reaches success without passing the returned value through convert_outputs on some path (e.g. for falsy results): the stored result of 0 / False / '' / [] "
              "does not decode to what the actor returned", instance="result encoded unconditionally")


def fresh(ctx: Ctx, rule="R-C08-FRESH") -> None:
    probe = ast.parse("@lru_cache(maxsize=8)\ndef f(x): ...").body[0]
    ctx.require(_is_cache(probe.decorator_list[0]), "cache-decorator detector does not recognise its positive example")
    n = 0
    for q in (BASIC, PYD, PYD1):
        if q not in ctx.prog.classes:
            continue
        cls = ctx.prog.cls(q)
        for meth in ("convert_inputs", "convert_outputs"):
            fq = f"{q}.{meth}"
            if fq not in ctx.prog.functions:
                continue
            f = ctx.func(fq)
            n += 1
            bad = [unparse(d) for d in f.node.decorator_list if _is_cache(d)]
            # cls.convert_inputs = lru_cache(...)(...) / self.convert_inputs = cache(self.convert_inputs)
            for fn in ctx.prog.iter_functions():
                if fn.cls is not None and fn.cls.qualname == q:
                    for a in ast.walk(fn.node):
                        if isinstance(a, ast.Assign) and any((dotted(t) or "").endswith("." + meth) for t in a.targets) and _is_cache(a.value):
                            bad.append(unparse(a)[:80])
            for a in cls.node.body:
                if isinstance(a, ast.Assign) and any(dotted(t) == meth for t in a.targets) and _is_cache(a.value):
                    bad.append(unparse(a)[:80])
            ctx.check(not bad, rule, f, f"{cls.name}.{meth} is not memoised", "every call parses its payload afresh",
                      f"{cls.name}.{meth} is memoised ({bad}): two executions with an identical payload share one set of argument objects, so whatever the first "
                      "execution did to its (mutable) arguments is what the second one receives instead of its payload entries", node=f.node, instance=f"{cls.name}.{meth}: fresh per call")
            if meth == "convert_inputs":
                stores = [unparse(t) for a in ast.walk(f.node) if isinstance(a, (ast.Assign, ast.AugAssign, ast.AnnAssign)) and getattr(a, "value", None) is not None
                          for t in (a.targets if isinstance(a, ast.Assign) else [a.target]) if (dotted(t) or unparse(t)).startswith("self.")]
                glob = [x for x in ast.walk(f.node) if isinstance(x, (ast.Global, ast.Nonlocal))]
                ctx.check(not stores and not glob, rule, f, f"{cls.name}.convert_inputs keeps no state between calls", "no store to the converter or to globals",
                          f"{cls.name}.convert_inputs stores to {stores or 'globals'}: state carried from one execution's arguments into the next", node=f.node,
                          instance=f"{cls.name}.convert_inputs: stateless")
    ctx.floor(rule, n, 4, "converter methods")
