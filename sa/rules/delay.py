"""Delayed-delivery routing shared by C04 / C05 (filled in with C05)."""
from __future__ import annotations

from ..engine import Ctx


def check_route(ctx: Ctx, rule: str, ops=("enqueue", "requeue", "reject")) -> None:
    from .C05 import helper_siblings, route_rules

    route_rules(ctx, rule, ops)
    helper_siblings(ctx, rule)


# ----------------------------------------------------------------------------- whole durations
_COMPONENTS = ("seconds", "microseconds")


def _component_reads(fn_node) -> dict[str, set[str]]:
    """base expression text -> timedelta component attributes read from it (x.seconds, x.microseconds, x.days)."""
    import ast

    out: dict[str, set[str]] = {}
    arith: set[int] = set()  # attribute nodes that take part in arithmetic (a `.days` only compared with 0 adds nothing to the amount)
    for b in ast.walk(fn_node):
        if isinstance(b, (ast.BinOp, ast.AugAssign)):
            for a in ast.walk(b):
                if isinstance(a, ast.Attribute):
                    arith.add(id(a))
    for a in ast.walk(fn_node):
        if isinstance(a, ast.Attribute) and isinstance(a.ctx, ast.Load) and a.attr in _COMPONENTS + ("days",):
            if a.attr == "days" and id(a) not in arith:
                continue
            out.setdefault(ast.unparse(a.value), set()).add(a.attr)
    return out


def whole_duration_rule(ctx: Ctx, rule: str) -> None:
    """A duration read through timedelta.seconds / .microseconds without .days silently drops whole days (delays, periods,
    time-to-live of a day or more shrink to their sub-day remainder). Every such read in repid must be paired with a .days read of the same value."""
    import ast

    # keep the detector honest: it must recognise the lossy idiom in a tiny positive example on every run
    probe = ast.parse("def f(td):\n    return td.seconds * 1000 + td.microseconds // 1000\n").body[0]
    ctx.require(_component_reads(probe) == {"td": {"seconds", "microseconds"}}, "whole-duration detector does not recognise its positive example")
    n = 0
    for fn in ctx.prog.iter_functions():
        n += 1
        for base, comps in sorted(_component_reads(fn.node).items()):
            if comps & set(_COMPONENTS) and "days" not in comps:
                where = next(a for a in ast.walk(fn.node) if isinstance(a, ast.Attribute) and a.attr in _COMPONENTS and ast.unparse(a.value) == base)
                ctx.fail(rule, fn, f"{base}.{'/'.join(sorted(comps))} without {base}.days",
                         f"{fn.short()} reads {', '.join(base + '.' + c for c in sorted(comps))} but never {base}.days: timedelta.seconds is only the sub-day remainder, "
                         "so a delay / period / time-to-live of one day or more loses its whole days (a message deferred by 3 days 1 hour becomes due after 1 hour)",
                         node=where, instance=f"{fn.short()}: whole duration of {base}")
    ctx.floor(rule, n, 100, "functions scanned for timedelta component reads")
    ctx.ok(rule, "durations are never taken from timedelta.seconds alone", f"{n} functions scanned, no sub-day-remainder read without the days")
