"""Delayed-delivery routing shared by C04 / C05 (filled in with C05)."""
from __future__ import annotations

from ..engine import Ctx


def check_route(ctx: Ctx, rule: str, ops=("enqueue", "requeue", "reject")) -> None:
    from .C05 import helper_siblings, route_rules

    route_rules(ctx, rule, ops)
    helper_siblings(ctx, rule)
