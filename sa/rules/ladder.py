"""The disposition ladder of _Processor.report_to_broker / process and the Parameters transfer functions.

Shared by C02 (one correct disposition), C04 (retries), C06 (recurring), C13 (result store order).
"""
from __future__ import annotations

import ast
import itertools

from .. import flow
from ..cfg import CFG, Node, handler_match
from ..engine import Ctx
from ..model import FuncInfo, dotted, unparse
from . import common as C
from .shared import _mentions, await_map, ord_env


# ----------------------------------------------------------------------------- small expression helpers
def affine(e: ast.AST) -> tuple[dict[str, int], int] | None:
    """Affine normal form over integer constants: x + 1, 1 + x, x - -1 ... -> ({'x': 1}, 1)."""
    if isinstance(e, ast.Constant) and isinstance(e.value, int) and not isinstance(e.value, bool):
        return {}, e.value
    if isinstance(e, ast.UnaryOp) and isinstance(e.op, ast.USub):
        r = affine(e.operand)
        if r is None:
            return None
        return {k: -v for k, v in r[0].items()}, -r[1]
    if isinstance(e, ast.BinOp) and isinstance(e.op, (ast.Add, ast.Sub)):
        a, b = affine(e.left), affine(e.right)
        if a is None or b is None:
            return None
        sign = 1 if isinstance(e.op, ast.Add) else -1
        terms = dict(a[0])
        for k, v in b[0].items():
            terms[k] = terms.get(k, 0) + sign * v
        return {k: v for k, v in terms.items() if v != 0}, a[1] + sign * b[1]
    if isinstance(e, (ast.Name, ast.Attribute)):
        return {ast.unparse(e): 1}, 0
    return None


def is_plus_one_of(e: ast.AST, field: str) -> bool:
    r = affine(e)
    if r is None:
        return False
    terms, const = r
    return const == 1 and len(terms) == 1 and list(terms.values()) == [1] and list(terms)[0].split(".")[-1] == field


def same_layer_policy(root: FuncInfo, ctx: Ctx):
    mro = {c.qualname for c in ctx.prog.mro(root.cls.qualname)} if root.cls else set()
    subs = {c.qualname for c in ctx.prog.subclasses(root.cls.qualname)} if root.cls else set()

    def policy(n: Node, callee: FuncInfo) -> bool:
        if callee.cls is not None:
            return callee.cls.qualname in mro or callee.cls.qualname in subs
        return callee.module is root.module

    return policy


def outcome_env(success: bool | None = None, reporting_done: bool | None = None, defer: bool | None = None,
                cron: bool | None = None) -> dict:
    def fn(text: str, node: ast.AST):
        if isinstance(node, ast.Attribute):
            if node.attr == "success" and success is not None:
                return success
            if node.attr == "reporting_done" and reporting_done is not None:
                return reporting_done
        if isinstance(node, ast.Name):
            if node.id == "success" and success is not None:
                return success
        if isinstance(node, ast.Compare) and isinstance(node.ops[0], ast.Is) and isinstance(node.comparators[0], ast.Constant) \
                and node.comparators[0].value is None:
            if _mentions(node.left, "defer_by") and defer is not None:
                return not defer
            if _mentions(node.left, "cron") and cron is not None:
                return not cron
        return None

    return {"*outcome": fn}


def requeue_kind(ctx: Ctx, n: Node) -> tuple[str, ast.Call | None]:
    """'retry' / 'reschedule' / 'other' for a requeue call, from the expression reaching its params slot."""
    call = n.ast
    p = C.arg(call, 2, "params")
    if p is None:
        return "other", None
    for x in C.expand_locals(n.func, p):
        for sub in ast.walk(x):
            if isinstance(sub, ast.Call) and isinstance(sub.func, ast.Attribute):
                if sub.func.attr == "_prepare_retry":
                    return "retry", sub
                if sub.func.attr == "_prepare_reschedule":
                    return "reschedule", sub
    return "other", None


# ----------------------------------------------------------------------------- the decision table
def ladder_table(ctx: Ctx) -> dict:
    """valuation -> list of (op-kind, node) reachable in report_to_broker (callees of the same layer inlined)."""
    f = ctx.func(f"{C.PROCESSOR}.report_to_broker")
    g = flow.inline(f, ctx.res, ctx.depth, same_layer_policy(f, ctx))
    ops = []
    for n in g.calls():
        op = C.broker_op(ctx, n)
        if op:
            ops.append((n, op))
    ctx.floor("R-C02-LADDER", len(ops), 4, "broker operations in report_to_broker")
    table = {}
    for success, budget, defer, cron in itertools.product((True, False), ("lt", "eq", "gt"), (True, False), (True, False)):
        env = {**outcome_env(success=success, defer=defer, cron=cron)}
        for fn in {n.func.qualname: n.func for n in g.nodes}.values():
            env.update(ord_env(g, fn, "already_tried", "max_amount", budget))
        r = flow.reach_under(g, env, flow.NORMAL_KINDS)
        reached = []
        for n, op in ops:
            if n.id in r:
                kind = op
                if op == "requeue":
                    kind = requeue_kind(ctx, n)[0]
                reached.append((kind, n))
        table[(success, budget, defer, cron)] = reached
    return {"func": f, "graph": g, "table": table, "ops": ops}


def expected_disposition(success: bool, budget: str, defer: bool, cron: bool) -> str:
    if not success and budget == "lt":
        return "retry"
    if defer or cron:
        return "reschedule"
    return "ack" if success else "nack"


def check_ladder(ctx: Ctx, rule: str, rows=None, what: str = "") -> dict:
    lt = ladder_table(ctx)
    f = lt["func"]
    n = 0
    for val, reached in sorted(lt["table"].items(), key=str):
        if rows is not None and not rows(*val):
            continue
        success, budget, defer, cron = val
        want = expected_disposition(*val)
        got = sorted({k for k, _ in reached})
        label = f"success={success}, already_tried {budget} max_amount, defer_by={'set' if defer else 'None'}, cron={'set' if cron else 'None'}"
        n += 1
        node = reached[0][1] if reached else None
        ctx.check(got == [want] and len(reached) == 1, rule, f, f"ladder row [{label}]",
                  f"-> exactly {want}",
                  f"report_to_broker disposition for [{label}] must be exactly '{want}' but is {got or 'nothing'}"
                  f"{' (' + str(len(reached)) + ' sites)' if len(reached) > 1 else ''}", node=node,
                  instance=f"ladder[{label}]", row=list(map(str, val)), reached=got)
    ctx.floor(rule, n, 1, "ladder rows")
    return lt


def check_ladder_arguments(ctx: Ctx, rule: str, lt: dict, kinds=("retry", "reschedule", "ack", "nack")) -> None:
    f = lt["func"]
    params = [p.arg for p in f.params()]
    seen = set()
    for n, op in lt["ops"]:
        if n.id in seen:
            continue
        seen.add(n.id)
        call = n.ast
        kind = op if op != "requeue" else requeue_kind(ctx, n)[0]
        if kind not in kinds:
            if op == "requeue" and kind == "other":
                ctx.fail(rule, f, f"requeue params of {unparse(call)[:80]}",
                         "a requeue in report_to_broker whose parameters come neither from _prepare_retry nor from _prepare_reschedule",
                         node=n)
            continue
        k = C.arg(call, 0, "key")
        ctx.check(isinstance(k, ast.Name) and k.id == "key" and "key" in params, rule, f, f"key argument of {kind}",
                  "the delivered message's own routing key", f"{kind}: the broker is given {unparse(k) if k else 'no key'} instead of the delivered key",
                  node=n, instance=f"{kind}: key argument")
        if op == "requeue":
            pl = C.arg(call, 1, "payload")
            ctx.check(isinstance(pl, ast.Name) and pl.id == "payload" and "payload" in params, rule, f, f"payload argument of {kind}",
                      "the original (possibly bucket-reference) payload is re-queued unchanged",
                      f"{kind}: re-queues payload {unparse(pl) if pl else '<default empty>'} instead of the delivered payload", node=n,
                      instance=f"{kind}: payload argument")
            _, prep = requeue_kind(ctx, n)
            recv = prep.func.value if prep is not None else None
            ctx.check(isinstance(recv, ast.Name) and recv.id == "parameters", rule, f, f"parameters source of {kind}",
                      "new parameters derived from the delivered parameters",
                      f"{kind}: new parameters are derived from {unparse(recv) if recv else '?'} instead of the delivered parameters", node=n,
                      instance=f"{kind}: parameters source")
        if kind == "retry":
            _, prep = requeue_kind(ctx, n)
            a = C.arg(prep, 0, "next_retry")
            ok = False
            why = "the back-off is not the actor's retry policy applied to already_tried + 1"
            if isinstance(a, ast.Call) and isinstance(a.func, ast.Attribute) and a.func.attr == "retry_policy":
                pa = C.arg(a, 0, "retry_number")
                if pa is not None and is_plus_one_of(pa, "already_tried"):
                    ok = True
                else:
                    why = f"the retry policy is called with {unparse(pa) if pa else 'no argument'} instead of already_tried + 1"
            ctx.check(ok, rule, f, "retry back-off = retry_policy(already_tried + 1)",
                      "k-th retry uses the policy value for k", f"retry branch: {why}", node=n, instance="retry: policy(already_tried+1)")


# ----------------------------------------------------------------------------- Parameters transfer functions
def _is_setattr_wrapper(fn: FuncInfo) -> bool:
    """`def _set_frozen(instance, name, value): object.__setattr__(instance, name, value)`"""
    ps = [p.arg for p in fn.params()]
    calls = [c for c in ast.walk(fn.node) if isinstance(c, ast.Call)]
    return len(ps) == 3 and len(calls) == 1 and dotted(calls[0].func) in ("object.__setattr__", "setattr") and [dotted(a) for a in calls[0].args] == ps


def setattr_stores(f: FuncInfo) -> list[tuple[ast.expr, str, ast.expr, ast.AST]]:
    """(object expr, field, value expr, node) for object.__setattr__(obj, "field", value), setattr(...), thin wrappers of it, and obj.field = value."""
    out = []
    wrappers = {name for name, fn in f.module.functions.items() if _is_setattr_wrapper(fn)}
    for n in ast.walk(f.node):
        if isinstance(n, ast.Call) and (dotted(n.func) in ("object.__setattr__", "setattr") or dotted(n.func) in wrappers) and len(n.args) == 3 \
                and isinstance(n.args[1], ast.Constant) and isinstance(n.args[1].value, str):
            out.append((n.args[0], n.args[1].value, n.args[2], n))
        elif isinstance(n, ast.Assign):
            for t in n.targets:
                if isinstance(t, ast.Attribute):
                    out.append((t.value, t.attr, n.value, n))
        elif isinstance(n, ast.AugAssign) and isinstance(n.target, ast.Attribute):
            out.append((n.target.value, n.target.attr, n, n))
    return out


def copy_locals(f: FuncInfo) -> set[str]:
    """locals bound to deepcopy(self) / copy(self) / replace(self...)"""
    out = set()
    for n in ast.walk(f.node):
        if isinstance(n, ast.Assign) and isinstance(n.value, ast.Call):
            d = (dotted(n.value.func) or "").split(".")[-1]
            if d in ("deepcopy", "copy", "replace") and n.value.args and dotted(n.value.args[0]) == "self":
                for t in n.targets:
                    if isinstance(t, ast.Name):
                        out.add(t.id)
    return out


def _root_name(e: ast.AST) -> str | None:
    while isinstance(e, (ast.Attribute, ast.Subscript)):
        e = e.value
    return e.id if isinstance(e, ast.Name) else None


def is_now_call(e: ast.AST) -> bool:
    return isinstance(e, ast.Call) and (dotted(e.func) or "").endswith("datetime.now") and not e.args


def replace_updates(f: FuncInfo) -> list[tuple[ast.expr, str, ast.expr, ast.AST]]:
    """(object expr, field, value, node) for every keyword of dataclasses.replace(obj, field=value, ...) calls."""
    out = []
    for n in ast.walk(f.node):
        if isinstance(n, ast.Call) and (dotted(n.func) or "").split(".")[-1] == "replace" and n.args:
            for k in n.keywords:
                if k.arg is None:
                    continue
                if isinstance(k.value, ast.Call) and (dotted(k.value.func) or "").split(".")[-1] == "replace":
                    continue  # nested replace: its own keywords are reported separately
                out.append((n.args[0], k.arg, k.value, n))
    return out


def check_prepare(ctx: Ctx, rule: str, which: str) -> dict:
    """Transfer function of Parameters._prepare_retry / _prepare_reschedule.

    Recognised shapes: deepcopy/copy of self + object.__setattr__/attribute stores on the copy, and (nested)
    dataclasses.replace(self, field=...) expressions."""
    f = ctx.func(f"{C.PARAMS}.{which}")
    stores = setattr_stores(f)
    copies = copy_locals(f)
    repl = replace_updates(f)
    ctx.require(bool(copies) or bool(repl), f"{f.qualname}: neither a local copy of self (deepcopy/copy) nor dataclasses.replace found - "
                "transfer function shape unknown")
    by_field: dict[str, list] = {}
    for obj, field, val, node in stores:
        by_field.setdefault(field, []).append((obj, val, node))
        obj_r = C.inline_locals(f, obj) or obj  # `retries = copy.retries; object.__setattr__(retries, ...)`: a local alias of a part of the copy
        ctx.check(_root_name(obj_r) in copies or _root_name(obj) in copies, rule, f, f"store to {unparse(obj)}.{field} in {which}",
                  "store targets the copy", f"{which} modifies {unparse(obj)}.{field}: the delivered parameters themselves must stay unchanged "
                  "(a message returned by reject/finish would carry a changed retry counter or schedule)", node=node,
                  instance=f"{which}: store {field} on copy")
    for obj, field, val, node in repl:
        by_field.setdefault(field, []).append((obj, val, node))
    rets = [n for n in ast.walk(f.node) if isinstance(n, ast.Return)]

    def ret_ok(r: ast.Return) -> bool:
        v = r.value
        if isinstance(v, ast.Name) and v.id in copies:
            return True
        if isinstance(v, ast.Name):
            return any(isinstance(d, ast.Call) and (dotted(d.func) or "").split(".")[-1] == "replace" for d in C.local_defs(f, v.id))
        return isinstance(v, ast.Call) and (dotted(v.func) or "").split(".")[-1] == "replace" and bool(v.args) and _root_name(v.args[0]) == "self"

    ctx.check(len(rets) >= 1 and all(ret_ok(r) for r in rets), rule, f, f"return of {which}",
              "returns the modified copy", f"{which} does not return the modified copy", instance=f"{which}: returns copy")
    return {"func": f, "stores": by_field, "copies": copies}


def check_prepare_retry(ctx: Ctx, rule: str) -> None:
    info = check_prepare(ctx, rule, "_prepare_retry")
    f = info["func"]
    st = info["stores"].get("already_tried", [])
    ok = len(st) == 1 and (is_plus_one_of(st[0][1], "already_tried") or
                           (isinstance(st[0][1], ast.AugAssign) and isinstance(st[0][1].op, ast.Add) and C.is_const(st[0][1].value, 1)))
    ctx.check(ok, rule, f, "already_tried := already_tried + 1 in _prepare_retry", "attempt counter grows by exactly one per retry",
              f"_prepare_retry must store already_tried + 1 exactly once; found {[unparse(v) for _, v, _ in st]}",
              node=st[0][2] if st else None, instance="_prepare_retry: counter +1")
    nt = info["stores"].get("next_execution_time", [])
    ok = False
    if len(nt) == 1 and isinstance(nt[0][1], ast.BinOp) and isinstance(nt[0][1].op, ast.Add):
        l, r = nt[0][1].left, nt[0][1].right
        ok = (is_now_call(l) and isinstance(r, ast.Name) and r.id == "next_retry") or (is_now_call(r) and isinstance(l, ast.Name) and l.id == "next_retry")
    ctx.check(ok, rule, f, "next_execution_time := now + next_retry in _prepare_retry", "back-off counted from the failure",
              f"_prepare_retry must set next_execution_time to datetime.now() + next_retry; found {[unparse(v) for _, v, _ in nt]}",
              node=nt[0][2] if nt else None, instance="_prepare_retry: next_execution_time")
    extra = sorted(set(info["stores"]) - {"already_tried", "next_execution_time"})
    ctx.check(not extra, rule, f, "fields written by _prepare_retry", "only the counter and the next execution time change on retry "
              "(the time-to-live clock is not restarted)", f"_prepare_retry also rewrites {extra}: a retry must keep timestamp/ttl/other settings",
              instance="_prepare_retry: nothing else written")


def check_prepare_reschedule(ctx: Ctx, rule: str) -> dict:
    info = check_prepare(ctx, rule, "_prepare_reschedule")
    f = info["func"]
    st = info["stores"].get("already_tried", [])
    ctx.check(len(st) == 1 and C.is_const(st[0][1], 0), rule, f, "already_tried := 0 in _prepare_reschedule", "retry counter reset",
              f"_prepare_reschedule must reset already_tried to 0; found {[unparse(v) for _, v, _ in st]}", node=st[0][2] if st else None,
              instance="_prepare_reschedule: counter reset")
    nt = info["stores"].get("next_execution_time", [])
    ok = len(nt) == 1 and isinstance(nt[0][1], ast.Attribute) and nt[0][1].attr == "compute_next_execution_time" \
        and _root_name(nt[0][1]) in ({"self"} | info["copies"])
    ctx.check(ok, rule, f, "next_execution_time := compute_next_execution_time in _prepare_reschedule", "successor scheduled by the period grid",
              f"_prepare_reschedule must set next_execution_time from compute_next_execution_time; found {[unparse(v) for _, v, _ in nt]}",
              node=nt[0][2] if nt else None, instance="_prepare_reschedule: next_execution_time")
    ts = info["stores"].get("timestamp", [])
    ctx.check(len(ts) == 1 and is_now_call(ts[0][1]), rule, f, "timestamp := now in _prepare_reschedule", "time-to-live clock restarted",
              f"_prepare_reschedule must restart the time-to-live clock (timestamp := datetime.now()); found {[unparse(v) for _, v, _ in ts]}",
              node=ts[0][2] if ts else None, instance="_prepare_reschedule: ttl clock restarted")
    # order: the next execution time must be computed from the state *before* the timestamp is overwritten on the object it reads
    return info


def check_process_passthrough(ctx: Ctx, rule: str) -> None:
    """process() hands its own key / payload / parameters to report_to_broker (not the resolved bucket payload)."""
    f = ctx.func(f"{C.PROCESSOR}.process")
    callee = ctx.func(f"{C.PROCESSOR}.report_to_broker")
    names = [p.arg for p in callee.params()][1:]
    calls = [n for n in ast.walk(f.node) if isinstance(n, ast.Call) and isinstance(n.func, ast.Attribute) and n.func.attr == "report_to_broker"]
    ctx.floor(rule, len(calls), 1, "report_to_broker calls in process()")
    own = {p.arg for p in f.params()}
    rebound = sorted({n.id for n in ast.walk(f.node) if isinstance(n, ast.Name) and isinstance(n.ctx, (ast.Store, ast.Del)) and n.id in ("key", "payload", "parameters")})
    ctx.check(not rebound, rule, f, "process() never re-binds the delivered key / payload / parameters", "the wire values stay what the broker delivered",
              f"process() re-binds {rebound}: what is later requeued / reported under that name is no longer the delivered value (e.g. the resolved arguments instead of the bucket reference - "
              "a retried or rescheduled message then carries another payload than was enqueued)", instance="process(): delivered values not re-bound")
    for c in calls:
        for i, nm in enumerate(names):
            if nm not in ("key", "payload", "parameters"):
                continue
            v = C.arg(c, i, nm)
            ctx.check(isinstance(v, ast.Name) and v.id == nm and nm in own, rule, f, f"report_to_broker({nm}=...) in process()",
                      f"the delivered {nm} is what the disposition is applied to",
                      f"process() passes {unparse(v) if v else 'nothing'} as '{nm}' to report_to_broker instead of the delivered {nm}: "
                      "a retried/rescheduled message would not carry what was enqueued", node=c, instance=f"process -> report_to_broker: {nm}")
