"""C03 - Stopping or killing a worker at any moment loses no message (structural necessary conditions at await granularity)."""
from __future__ import annotations

import ast

from .. import flow
from ..engine import Ctx
from ..model import dotted, unparse
from . import common as C
from .brokers import inmem_consume_rules, inmem_transfer_atomic, rabbit_rules, redis_txn_rules
from .C02 import cancel_env, catch, race
from .C14 import maintenance
from .ladder import check_prepare
from .shared import _mentions, await_map, effectively_awaited

SUMMARY = ("Cancellation atomicity of the operations reachable from process(), the completed-vs-returned race, cancel-safety of the prefetch hand-off, "
           "shutdown sequence with bounded waits, returned messages unchanged, Redis crash recovery guard.")
DECIDED = [
    "R-C01-ATOMIC (reused): requeue/reject/ack/nack of every backend are cancellation-atomic (a cancel inside a non-atomic requeue loses the message)",
    "R-C02-RACE (reused): a message is never both completed and returned (reject unreachable once the processing task is done; the task is cancelled before its message is returned)",
    "R-C03-HANDOFF: in the Redis prefetcher, from the transaction that marks a message held to the moment it is in the consumer-owned local queue every exit - including "
    "cancellation at each await in between - must pass a reject of that message",
    "R-C03-FINISH: each finish() drains its own prefetch store, issues one reject per drained message and awaits them",
    "R-C03-SHUTDOWN: Worker.run: finish_gracefully -> finish() of every consumer -> signal unregistration, in that order on every normal path; finish_gracefully and "
    "stop_wait_and_cancel set the cancel event on every path; every wait on that segment carries an explicit timeout; the signal handler starts stop_wait_and_cancel with the graceful period",
    "R-C03-UNCHANGED: no reject/finish implementation writes the message's parameters (retry counter of a returned message untouched); _prepare_* modify copies only",
    "R-C03-MAINT: Redis maintenance rejects an in-flight message only when now - taken_at > execution_timeout, and runs on connect and disconnect",
    "R-C03-SHUTDOWN (pause protocol): stopping pauses consumers that may already be paused: pause is idempotent, the pause lock is only passed through by readers, RabbitMQ lowers the flag it raised (C09's pause rules reused)",
    "R-C03-UNCHANGED (limit exit): the message held when the message budget stops the loop is rejected and its permit released (C10's gate reused)",
    "R-C03-SHUTDOWN / R-C03-FINISH (round 6): no asyncio.shield where stopping relies on cancellation; finish() returns only what the consumer still holds (C14 reused); RabbitMQ finish(): stop accepting, cancel the subscription, drain and reject known tags",
    "R-C03-AWAITED: in the files this property is anchored in, no bare statement calls a coroutine function (the operation would never run)",
    "R-C03-HANDOFF / R-C03-MAINT (Redis sweep rules): claim flow, lifecycle and defaults-only-when-missing of the Redis package under this property",
    "R-C03-SHUTDOWN (sweep stage two): Worker registers its stop handler for every configured signal (loop over handle_signals, no break / return), before consuming starts",
]
NOT_DECIDED = ["the timing bound of run() (graceful period + slack)", "interleavings of the runner's own tasks (rejects still in flight when run() returns)", "process-death semantics of the servers"]
ASSUMPTIONS = ["asyncio: awaits are the only cancellation points", "a cancelled awaiter cancels the awaited child task"]


def run(ctx: Ctx) -> None:
    from .shared import every_operation_awaited

    every_operation_awaited(ctx, "R-C03-AWAITED")  # in the files this property is anchored in, no asynchronous operation is created and dropped
    from .shared import signals_registered

    signals_registered(ctx, "R-C03-SHUTDOWN")
    from .brokers import redis_lifecycle

    redis_lifecycle(ctx, "R-C03-HANDOFF")  # Redis consumer: poll task, pause lock protocol, gate, hand-over
    from .brokers import redis_claim_flow

    redis_claim_flow(ctx, "R-C03-HANDOFF")  # the Redis take, guard by guard (no name -> nothing claimed; claimed -> removed from the right structure, marked, data read; complete data only)
    from .brokers import redis_defaults_only_when_missing

    redis_defaults_only_when_missing(ctx, "R-C03-MAINT")
    from .brokers import rabbit_delivery_details, rabbit_lifecycle

    rabbit_lifecycle(ctx, "R-C03-FINISH")  # RabbitMQ finish(): stop accepting, cancel the subscription, drain and reject what is buffered
    rabbit_delivery_details(ctx, "R-C03-FINISH")
    inmem_transfer_atomic(ctx, ops=("ack", "nack", "reject", "requeue"), rule_t="R-C01-TRANSFER", rule_a="R-C01-ATOMIC")
    redis_txn_rules(ctx, ops=("ack", "nack", "reject", "requeue"), rule_t="R-C01-TRANSFER", rule_a="R-C01-ATOMIC")
    rabbit_rules(ctx)
    race(ctx, "R-C02-RACE")
    catch(ctx, "R-C02-CATCH")  # a handler that swallows CancelledError makes the forced cancellation ineffective
    handoff(ctx)
    finish(ctx)
    from .C14 import finish_own

    with ctx.as_rule("R-C03-FINISH"):
        finish_own(ctx, "R-C03-FINISH")  # a stopping consumer returns only what it still holds: not a message it gave back earlier and another worker has taken since
    from .shared import no_shield

    no_shield(ctx, "R-C03-SHUTDOWN", ("repid/_processor.py", "repid/_runner.py", "repid/worker.py", "repid/message.py", "repid/dependencies/message_dependency.py", "repid/connections/redis/consumer.py", "repid/connections/redis/message_broker.py", "repid/connections/rabbitmq/consumer.py", "repid/connections/rabbitmq/message_broker.py", "repid/connections/in_memory/consumer.py", "repid/connections/in_memory/message_broker.py"), "stopping relies on cancellation: a shielded take keeps polling after finish() and takes a message that is handed to nobody; a shielded report requeues a message the runner has already rejected")
    shutdown(ctx)
    unchanged(ctx)
    maintenance(ctx, "R-C03-MAINT")
    from .C10 import gate

    with ctx.as_rule("R-C03-UNCHANGED"):
        gate(ctx)  # the message held when the limit stops the loop is rejected (given back) and its permit released
    from .runner import pause_lock_protocol, pause_rule, rabbit_pause_flag

    with ctx.as_rule("R-C03-SHUTDOWN"):
        # stopping pauses the consumers once more (run_one_queue), possibly while they are already paused by a saturated consume loop: pause must be
        # idempotent and the pause flag protocol intact, or Worker.run never returns and the in-flight messages are never given back
        pause_rule(ctx, "R-C03-SHUTDOWN")
        pause_lock_protocol(ctx, "R-C03-SHUTDOWN")
        rabbit_pause_flag(ctx, "R-C03-SHUTDOWN")


def handoff(ctx: Ctx, rule="R-C03-HANDOFF") -> None:
    f = ctx.func(f"{C.REDIS_CONS}.backgroud_consume")
    g = flow.inline(f, ctx.res, 6, lambda n, cal: cal.cls is not None and cal.cls.qualname == C.REDIS_CONS and cal.name not in ("finish", "consume", "start", "pause", "unpause"))
    takes = [n for n in g.nodes if n.kind == "await" and n.callee == "pipe.execute" and n.func.name == "__get_message_name"]
    puts = [n for n in g.nodes if n.kind == "await" and n.callee == "self.queue.put"]
    ctx.require(bool(takes) and bool(puts), f"{f.qualname}: take transaction / local queue hand-off not found after inlining")
    rejects = {n.id for n in g.calls() if C.broker_op(ctx, n, ("reject",))}
    # nodes after a completed take (normal edge out of the execute) up to a completed hand-off / a disposal (nack, orphan branch)
    done = {p.id for p in puts}
    disposals = {n.id for n in g.calls() if C.broker_op(ctx, n, ("nack",))} | {n.id for n in g.nodes if n.kind == "await" and n.callee == "pipe.execute" and n.func.name == "__get_message_details"}
    held_region = set()

    def held_env(text, node):
        # on the way from a successful take to the hand-off the fetched name and the built message are not None
        if isinstance(node, ast.Compare) and isinstance(node.ops[0], ast.Is) and C.is_const(node.comparators[0], None):
            l = node.left
            if isinstance(l, ast.NamedExpr):
                l = l.target
            if dotted(l) in ("msg", "msg_short_name"):
                return False
            if isinstance(l, ast.Await) and isinstance(l.value, ast.Call) and (dotted(l.value.func) or "").endswith("__get_message_details"):
                return False  # the None result (orphan data) ends in the disposal transaction, which closes the region
        return None

    for t in takes:
        for y, k in g.succ[t.id]:
            if k in flow.NORMAL_KINDS:
                held_region |= flow.reach_under(g, {"*held": held_env}, flow.NORMAL_KINDS, start=y, blocked=done | disposals | {x.id for x in takes})
    held_region |= done  # the put itself can be cancelled while it blocks on a full queue
    leaks = []
    for i in sorted(held_region):
        n = g.nodes[i]
        if not flow.is_suspension(n):
            continue
        # follow the cancellation edge: does it reach the cancel exit without passing a reject?
        cstarts = [y for y, k in g.succ[i] if k == "cancel"]
        r = flow.reach(g, cstarts, flow.ALL_KINDS, blocked=rejects, include_start=True)
        if g.cexit.id in r:
            leaks.append(n)
    seen = set()
    for n in leaks:
        key = (n.func.qualname, n.label)
        if key in seen:
            continue
        seen.add(key)
        label = C.utext(n.func, n.ast)[:70] if isinstance(n.ast, ast.Await) else n.label[:70]
        ctx.fail(rule, n.func, f"cancellation at `{label}` between take and hand-off",
                 f"redis prefetcher: a message already marked in flight (processing zset) is lost from the consumer when the background task is cancelled at `{n.label[:70]}` "
                 f"in {n.func.short()} - finish() cancels that task and rejects only what reached the local queue, so the message stays marked in flight until its execution timeout "
                 "has elapsed and maintenance runs", node=n, instance=f"hand-off cancel point: {n.func.name}: {n.label[:50]}")
    if not leaks:
        ctx.ok(rule, "redis prefetch hand-off cancel-safe", f"{len(held_region)} nodes between take and hand-off, every cancellation edge passes a reject")
    ctx.note(f"hand-off region: {len(held_region)} nodes, {sum(1 for i in held_region if flow.is_suspension(g.nodes[i]))} suspension points examined")


def _first_of(f, e: ast.AST, tup_call: ast.AST) -> bool:
    """e is the first element of the tuple produced by `tup_call`: a name unpacked from it in first position, `<local bound to it>[0]`, or `<call>[0]`."""
    if isinstance(e, ast.Name):
        return any(isinstance(n, ast.Assign) and isinstance(n.targets[0], (ast.Tuple, ast.List)) and n.targets[0].elts and dotted(n.targets[0].elts[0]) == e.id and n.value is tup_call
                   for n in ast.walk(f.node)) or any(isinstance(d, ast.Subscript) and _first_of(f, d, tup_call) for d in C.local_defs(f, e.id) if len(C.local_defs(f, e.id)) == 1)
    if isinstance(e, ast.Subscript) and C.is_const(e.slice, 0):
        if e.value is tup_call:
            return True
        if isinstance(e.value, ast.Name):
            defs = C.local_defs(f, e.value.id)
            return len(defs) == 1 and defs[0] is tup_call
    return False


def _drains_all(f, loop: ast.AST, q: str) -> bool:
    """`while q.qsize() > 0` / `while not q.empty()` / `for _ in range(q.qsize())` with no suspension point in the body (the count is fixed up front)."""
    if isinstance(loop, ast.While):
        t = C.utext(f, loop.test)
        return t in (f"{q}.qsize() > 0", f"not {q}.empty()", f"{q}.qsize() != 0", f"{q}.qsize()", f"0 < {q}.qsize()", f"{q}.qsize() >= 1")
    if isinstance(loop, ast.For):
        it = C.inline_locals(f, loop.iter, calls="all") or loop.iter
        no_susp = not any(isinstance(x, (ast.Await, ast.AsyncFor, ast.AsyncWith)) for st in loop.body for x in ast.walk(st))
        brk = any(isinstance(x, (ast.Break, ast.Return)) for st in loop.body for x in ast.walk(st))
        return unparse(it) == f"range({q}.qsize())" and no_susp and not brk
    return False


def finish(ctx: Ctx, rule="R-C03-FINISH") -> None:
    # redis
    f = ctx.func(f"{C.REDIS_CONS}.finish")
    g = ctx.cfg(f)
    gets = [n for n in g.calls() if n.callee == "self.queue.get_nowait"]
    rej = [n for n in g.calls() if C.broker_op(ctx, n, ("reject",))]
    gat = [n for n in g.calls() if (n.callee or "").endswith("gather")]
    canc = [n for n in g.calls() if n.callee == "self.consume_task.cancel"]
    ok = len(gets) == 1 and len(rej) == 1 and len(gat) == 1 and gat[0].id in await_map(g) and bool(rej[0].ast.args)
    ok = ok and _first_of(f, rej[0].ast.args[0], gets[0].ast)
    coll = [c for c in ast.walk(f.node) if isinstance(c, ast.Call) and isinstance(c.func, ast.Attribute) and c.func.attr == "append" and c.args and rej and c.args[0] is rej[0].ast]
    ok = ok and len(coll) == 1 and isinstance(gat[0].ast.args[0], ast.Starred) and dotted(gat[0].ast.args[0].value) == dotted(coll[0].func.value)
    ctx.check(ok, rule, f, "redis finish: every prefetched message is rejected, rejects awaited", "get_nowait -> reject(key) per item; await gather(*rejects)",
              "redis finish() does not reject every prefetched message of its own local queue and await the rejects: prefetched messages stay marked in flight", instance="redis finish")
    started = {"*t": lambda text, node: False if isinstance(node, ast.Compare) and isinstance(node.ops[0], ast.Is) and dotted(node.left) == "self.consume_task" else None}
    r_nc = flow.reach_under(g, started, flow.NORMAL_KINDS, blocked={c.id for c in canc})
    ctx.check(bool(canc) and not any(x.id in r_nc for x in gets), rule, f, "redis finish: background consume task cancelled before draining",
              "no new message is prefetched while draining", "redis finish() drains the local queue without first cancelling the background consume task", instance="redis finish: cancel first")
    loops = [n for n in ast.walk(f.node) if isinstance(n, (ast.While, ast.For)) and gets and any(x is gets[0].ast for x in ast.walk(n))]
    ok = len(loops) == 1 and _drains_all(f, loops[0], "self.queue")
    ctx.check(ok, rule, f, "redis finish: drains until the local queue is empty", "while qsize() > 0 / one get per queued item",
              f"redis finish() drain loop is {[unparse(l.test) if isinstance(l, ast.While) else 'for ... in ' + unparse(l.iter) for l in loops]}: it does not take every locally queued message", instance="redis finish: loop")
    # rabbitmq
    f = ctx.func(f"{C.RABBIT_CONS}.finish")
    g = ctx.cfg(f)
    gets = [n for n in g.calls() if n.callee == "self.queue.get_nowait"]
    rej = [n for n in g.calls() if (n.callee or "").endswith("basic_reject")]
    gat = [n for n in g.calls() if (n.callee or "").endswith("gather")]
    cancel = [n for n in g.calls() if (n.callee or "").endswith("basic_cancel")]
    ok = len(gets) == 1 and len(rej) == 1 and len(gat) == 1 and gat[0].id in await_map(g) and isinstance(rej[0].ast.args[0], ast.Name) \
        and not any(k.arg == "requeue" and C.is_const(k.value, False) for k in rej[0].ast.keywords)
    tagd = C.local_defs(f, rej[0].ast.args[0].id) if ok else []
    keyv = None
    for n in ast.walk(f.node):
        if isinstance(n, ast.Assign) and isinstance(n.targets[0], ast.Tuple) and gets and n.value is gets[0].ast and isinstance(n.targets[0].elts[0], ast.Name):
            keyv = n.targets[0].elts[0].id
    ok = ok and len(tagd) == 1 and keyv is not None and unparse(tagd[0]).startswith(f"self.broker._id_to_delivery_tag.pop({keyv}.id_")
    # the rejects collected are the ones awaited
    coll = [c for c in ast.walk(f.node) if isinstance(c, ast.Call) and isinstance(c.func, ast.Attribute) and c.func.attr == "append" and c.args and rej and c.args[0] is rej[0].ast]
    ok = ok and len(coll) == 1 and gat and isinstance(gat[0].ast.args[0], ast.Starred) and dotted(gat[0].ast.args[0].value) == dotted(coll[0].func.value)
    ctx.check(ok, rule, f, "rabbitmq finish: every prefetched message is rejected (requeue) by its own delivery tag, rejects awaited", "basic_reject(tag of key.id_)",
              "rabbitmq finish() does not reject every locally queued message by its delivery tag and await the rejects", instance="rabbitmq finish")
    ctx.check(len(cancel) == 1 and cancel[0].id in await_map(g) and all(flow.must_pass(g, g.entry.id, [x.id], [cancel[0].id], flow.NORMAL_KINDS) for x in gets), rule, f,
              "rabbitmq finish: consumer cancelled on the server before draining", "basic_cancel first", "rabbitmq finish() drains without cancelling the server-side consumer first", instance="rabbitmq finish: cancel first")
    # the consumer protocol: entering starts, leaving finishes (Queue.get_messages relies on it), iteration consumes
    for meth, want in (("__aenter__", "start"), ("__aexit__", "finish"), ("__anext__", "consume")):
        mf = ctx.func(f"{C.CONS}.{meth}")
        aw_calls = [a.value for a in ast.walk(mf.node) if isinstance(a, ast.Await) and isinstance(a.value, ast.Call)]
        ok = len(aw_calls) == 1 and dotted(aw_calls[0].func) == f"self.{want}"
        if meth == "__anext__":
            rets = [r for r in ast.walk(mf.node) if isinstance(r, ast.Return)]
            ok = ok and len(rets) == 1 and isinstance(rets[0].value, ast.Await) and rets[0].value.value is aw_calls[0]
        ctx.check(ok, rule, mf, f"ConsumerT.{meth} awaits {want}()", f"await self.{want}()", f"ConsumerT.{meth} does not await self.{want}() (prefetched messages are not returned when a queue iteration ends)"
                  if want == "finish" else f"ConsumerT.{meth} does not await self.{want}()", instance=f"ConsumerT.{meth}")
    qm = ctx.func("repid.queue.Queue.get_messages")
    aw = [n for n in ast.walk(qm.node) if isinstance(n, ast.AsyncWith)]
    ok = len(aw) == 1 and any(isinstance(x, ast.AsyncFor) for x in ast.walk(aw[0])) and dotted(aw[0].items[0].context_expr) == "consumer"
    ctx.check(ok, rule, qm, "Queue.get_messages iterates inside `async with consumer`", "the consumer is finished when the iteration ends, however it ends",
              "Queue.get_messages does not iterate its consumer inside `async with consumer`: messages it had prefetched stay in flight when the caller stops iterating", instance="get_messages uses the context manager")
    # in-memory: covered by inmem_consume_rules (R-C03-FINISH instance there)
    inmem_consume_rules(ctx, rule_t="R-C01-TRANSFER", rule_a="R-C01-ATOMIC")


def graceful_budget(ctx: Ctx, rule: str) -> None:
    """Executions in flight when the worker stops get the worker's graceful_shutdown_time to finish (not some other, shorter budget)."""
    w = ctx.func(f"{C.WORKER}._run") if f"{C.WORKER}._run" in ctx.prog.functions else ctx.func(f"{C.WORKER}.run")
    fg = [c for c in ast.walk(w.node) if isinstance(c, ast.Call) and (dotted(c.func) or "").endswith("finish_gracefully")]
    got = C.utext(w, C.kw(fg[0], "timeout") or (fg[0].args[0] if fg[0].args else None)) if len(fg) == 1 else None
    ctx.check(got == "self.graceful_shutdown_time", rule, w, "finish_gracefully(timeout=graceful_shutdown_time)", "bounded by the graceful period",
              f"Worker.run gives the executions in flight {got or 'no explicit budget'} instead of the worker's graceful_shutdown_time to finish: an execution that was started "
              "(and counted) is cancelled and its message returned although it would have finished within the configured graceful period", node=fg[0] if fg else None,
              instance="graceful timeout")
    init = ctx.func(f"{C.WORKER}.__init__")
    st = [a for a in ast.walk(init.node) if isinstance(a, ast.Assign) and any(dotted(t) == "self.graceful_shutdown_time" for t in a.targets)]
    ctx.check(len(st) == 1 and dotted(st[0].value) == "graceful_shutdown_time", rule, init, "Worker keeps its graceful_shutdown_time argument", "self.graceful_shutdown_time = graceful_shutdown_time",
              f"Worker.__init__ stores {unparse(st[0].value) if st else 'nothing'} as graceful_shutdown_time", instance="graceful time stored")


def shutdown(ctx: Ctx, rule="R-C03-SHUTDOWN") -> None:
    w = ctx.func(f"{C.WORKER}._run") if f"{C.WORKER}._run" in ctx.prog.functions else ctx.func(f"{C.WORKER}.run")
    g = ctx.cfg(w)

    cons_names = {t.id for n in ast.walk(w.node) if isinstance(n, ast.Assign) and isinstance(n.value, ast.Await) for t in n.targets if isinstance(t, ast.Name)
                  and any(isinstance(x, ast.Call) and isinstance(x.func, ast.Attribute) and x.func.attr == "run_one_queue" for e in C.feeds(w, n.value) for x in ast.walk(e))}
    fin_vars = {t.id for t, it, body, node in C.iterations(w) if isinstance(t, ast.Name) and dotted(it) in cons_names}

    def sym(n):
        if n.kind == "call":
            d = n.callee or ""
            if d.endswith("run_one_queue"):
                return "run_one_queue"
            if d.endswith("finish_gracefully"):
                return "finish_gracefully"
            if isinstance(n.ast.func, ast.Attribute) and n.ast.func.attr == "finish" and dotted(n.ast.func.value) in fin_vars:
                return "consumers.finish"
            if d.endswith("_unregister_signals"):
                return "unregister_signals"
            if d.endswith("_register_signals"):
                return "register_signals"
        return None

    def env(text, node):
        if dotted(node) in cons_names:
            return True
        if dotted(node) in ("self.actors", "self.topics_by_queue"):
            return True
        return None

    trs = {t for t in flow.traces(g, sym, loop_bound=2, env={"*w": env}) if t[-1] == "$exit"}
    order = ["register_signals", "run_one_queue", "finish_gracefully", "consumers.finish", "unregister_signals"]

    def well_ordered(t):
        ev = [x for x in t if x != "$exit"]
        idx = [order.index(x) for x in ev]
        once = all(ev.count(x) == 1 for x in ("register_signals", "finish_gracefully", "unregister_signals")) and ev.count("consumers.finish") >= 1
        return idx == sorted(idx) and once

    bad = sorted(t for t in trs if not well_ordered(t))
    ctx.check(bool(trs) and not bad and bool(cons_names), rule, w, "shutdown sequence of Worker.run", " -> ".join(order),
              f"Worker.run's normal paths include {bad[:2]} instead of consumers -> finish_gracefully -> finish() of every consumer -> unregister signals", instance="shutdown order")
    graceful_budget(ctx, rule)
    wf = [c for c in ast.walk(w.node) if isinstance(c, ast.Call) and (dotted(c.func) or "").endswith("wait_for") and "finish()" in unparse(c)]
    ok = len(wf) == 1 and dotted(C.kw(wf[0], "timeout")) == "self.graceful_consumer_finish_time" and any(
        dotted(it) in cons_names and any(isinstance(x, ast.Call) and isinstance(x.func, ast.Attribute) and x.func.attr == "finish" for b in body for x in ast.walk(b))
        for t, it, body, node in C.iterations(w) if any(x is node for x in ast.walk(wf[0])))
    ctx.check(ok, rule, w, "consumers' finish() awaited for every consumer under a timeout", "wait_for(gather(*(c.finish() for c in consumers)), timeout=...)",
              "Worker.run does not await finish() of every consumer under an explicit timeout", instance="consumers finish bounded")
    ok = len(cons_names) == 1
    ctx.check(ok, rule, w, "consumers = the consumers returned by run_one_queue", "all started consumers are finished", "the consumers that are finished are not the ones run_one_queue returned", instance="consumers list")
    r1 = ctx.func(f"{C.RUNNER}.run_one_queue")
    rets = C.own_returns(r1)
    cons_local = {t.id for n in C.own_nodes(r1) if isinstance(n, ast.Assign) and isinstance(n.value, ast.Call) and isinstance(n.value.func, ast.Attribute) and n.value.func.attr == "get_consumer"
                  for t in n.targets if isinstance(t, ast.Name)}
    ctx.check(len(rets) >= 1 and all(dotted(r.value) in cons_local for r in rets), rule, r1, "run_one_queue returns its consumer", "consumer handed to the worker for finish()", "run_one_queue does not return its consumer", instance="run_one_queue returns consumer")
    for name in ("finish_gracefully", "stop_wait_and_cancel"):
        f = ctx.func(f"{C.RUNNER}.{name}")
        gg = ctx.cfg(f)
        sets = [n.id for n in gg.calls() if n.callee == "self.cancel_event.set"]
        stops = [n.id for n in gg.calls() if n.callee == "self.stop_consume_event.set"]
        ctx.check(bool(sets) and flow.must_pass(gg, gg.entry.id, [gg.exit.id], sets, flow.NORMAL_KINDS), rule, f, f"{name}: cancel event set on every normal path", "unfinished tasks are cancelled and their messages returned",
                  f"{name} can return without setting the cancel event: tasks still running keep their messages in flight after run() returned", instance=f"{name}: cancel set")
        first = [n for n in gg.nodes if n.kind in ("call",) and n.callee not in ("logger.debug",)][:1]
        ctx.check(bool(stops) and all(flow.must_pass(gg, gg.entry.id, [s], stops, flow.NORMAL_KINDS) for s in sets) and
                  not any(flow.is_suspension(gg.nodes[i]) for i in flow.reach_back(gg, stops, flow.NORMAL_KINDS)), rule, f, f"{name}: consuming stopped first, before any wait",
                  "stop event set before waiting", f"{name} waits before telling the consumers to stop", instance=f"{name}: stop first")
    f = ctx.func(f"{C.RUNNER}.finish_gracefully")
    waits = [c for c in ast.walk(f.node) if isinstance(c, ast.Call) and (dotted(c.func) or "").endswith("asyncio.wait")]
    ok = len(waits) == 1 and dotted(C.kw(waits[0], "timeout")) == "timeout" and dotted(waits[0].args[0]) == "self._tasks" and (dotted(C.kw(waits[0], "return_when")) or "").endswith("ALL_COMPLETED")
    ctx.check(ok, rule, f, "finish_gracefully waits for all running tasks, bounded by its timeout", "asyncio.wait(self._tasks, ALL_COMPLETED, timeout=timeout)",
              f"finish_gracefully waits with {unparse(waits[0])[:100] if waits else 'nothing'}", instance="finish_gracefully wait")
    f = ctx.func(f"{C.RUNNER}.stop_wait_and_cancel")
    sl = [c for c in ast.walk(f.node) if isinstance(c, ast.Call) and (dotted(C.injected_default(f, c.func)) or "").endswith("asyncio.sleep")
          and any(isinstance(a, ast.Await) and a.value is c for a in ast.walk(f.node))]
    ctx.check(len(sl) == 1 and dotted(sl[0].args[0]) == "wait_for", rule, f, "stop_wait_and_cancel sleeps the graceful period", "sleep(wait_for)", "stop_wait_and_cancel does not wait the given period", instance="stop_wait_and_cancel sleep")
    sh = ctx.func(f"{C.WORKER}._register_signals")
    h = sh.nested.get("signal_handler") or (list(sh.nested.values())[0] if len(sh.nested) == 1 else None)
    ctx.require(h is not None, f"{sh.qualname}: signal handler closure not found")
    c = [x for x in ast.walk(h.node) if isinstance(x, ast.Call) and (dotted(x.func) or "").endswith("sync_stop_wait_and_cancel")]
    ctx.check(len(c) == 1 and dotted(C.arg(c[0], 0, "wait_for")) == "self.graceful_shutdown_time", rule, h, "signal -> stop, wait the graceful period, cancel", "sync_stop_wait_and_cancel(graceful_shutdown_time)",
              "the signal handler does not start the two-phase shutdown with the graceful period", instance="signal handler")
    # the cancel branch of _process_with_event returns the message
    p = ctx.func(f"{C.RUNNER}._process_with_event")
    gp = ctx.cfg(p)
    rj = [n for n in gp.calls() if C.broker_op(ctx, n, ("reject",))]
    ok = len(rj) == 1 and unparse(rj[0].ast.args[0]) == "key" and rj[0].id in await_map(gp)
    ctx.check(ok, rule, p, "cancelled task's message is rejected (awaited, own key)", "await reject(key)", "_process_with_event does not await reject(key) on cancellation", instance="cancel branch rejects")
    ws = [c for c in ast.walk(p.node) if isinstance(c, ast.Call) and (dotted(c.func) or "").endswith("asyncio.wait")]
    ok = len(ws) == 1 and "self.cancel_event_task" in unparse(ws[0].args[0]) and "process_task" in unparse(ws[0].args[0]) and (dotted(C.kw(ws[0], "return_when")) or "").endswith("FIRST_COMPLETED")
    ctx.check(ok, rule, p, "processing raced against the cancel event", "wait({cancel_event_task, process_task}, FIRST_COMPLETED)", "_process_with_event does not race the processing task against the cancel event", instance="race wait")


def unchanged(ctx: Ctx, rule="R-C03-UNCHANGED") -> None:
    # redis reject: no write of the data fields
    f = ctx.func(f"{C.REDIS_BROKER}.reject")
    g = flow.inline(f, ctx.res, 3, lambda n, cal: cal.cls is not None and cal.cls.qualname == C.REDIS_BROKER)
    writes = [n for n in g.calls() if isinstance(n.ast.func, ast.Attribute) and n.ast.func.attr in ("hset", "hsetnx") and ("parameters" in unparse(n.ast) or "payload" in unparse(n.ast))]
    ctx.check(not writes, rule, f, "redis reject does not rewrite payload/parameters", "stored message data untouched", f"redis reject rewrites message data: {[unparse(w.ast)[:60] for w in writes]}", instance="redis reject: data untouched")
    dele = [n for n in g.calls() if isinstance(n.ast.func, ast.Attribute) and n.ast.func.attr == "delete"]
    ctx.check(not dele, rule, f, "redis reject does not delete the message data", "no delete", "redis reject deletes the message's data hash", instance="redis reject: data kept")
    f = ctx.func(f"{C.INMEM_BROKER}.reject")
    mk = [c for c in ast.walk(f.node) if isinstance(c, ast.Call) and dotted(c.func) in ("Message", "self._put_in_queue", "self.enqueue")]
    ctx.check(not mk, rule, f, "in-memory reject re-inserts the held object, builds no new message", "same Message object", f"in-memory reject builds a new message ({[unparse(m)[:50] for m in mk]}): its schedule is recomputed", instance="in-memory reject: same object")
    for name in ("_prepare_retry", "_prepare_reschedule"):
        check_prepare(ctx, rule, name)
    # the runner rejects with the delivered key, parameters never touched in _runner
    for fn in ctx.prog.iter_functions():
        if fn.module.name != "repid._runner":
            continue
        bad = [c for c in ast.walk(fn.node) if isinstance(c, ast.Call) and isinstance(c.func, ast.Attribute) and c.func.attr in ("_prepare_retry", "_prepare_reschedule", "__setattr__")]
        ctx.check(not bad, rule, fn, f"{fn.short()} does not derive new parameters", "returned messages keep their parameters", f"{fn.short()} modifies message parameters", instance=f"runner untouched: {fn.name}")
