"""C15 - Within a queue and priority, delivery is first-in first-out (queue-discipline consistency)."""
from __future__ import annotations

import ast

from .. import flow
from ..engine import Ctx
from ..model import dotted, unparse
from . import common as C
from .brokers import inmem_event, piq_sites
from .ladder import affine

SUMMARY = "Consistency table of the Redis queue discipline (push end, window end, page advance, scan direction, removal end); in-memory FIFO access discipline."
DECIDED = [
    "R-C15-DISCIPLINE: Redis - new messages are pushed at one end, returned ones at the other (consumption) end; the fetch window is taken from the consumption end, "
    "consecutive pages are contiguous, the window is scanned starting with the oldest element, removal takes the occurrence nearest the consumption end; the delayed set is scanned in ascending score order",
    "R-C15-INMEM: the waiting queue is touched only through put_nowait/get_nowait/qsize/empty (asyncio.Queue FIFO); a rejected message is re-appended itself (no re-routing), "
    "so it precedes later arrivals; the delayed reader takes the earliest due time first",
    "R-C15-PROMOTE: due delayed messages are promoted before every fetch (in-memory: __update_delayed dominates the first take and recurs in the idle loop; Redis: the delayed set "
    "is polled before the normal list) - a continuously non-empty waiting queue cannot starve a message whose time has come (rules of C05's POLL, reused)",
    "R-C15-ELAPSED: a deferred_until that has already passed is not returned as due time, so an immediately deliverable message is queued like any other (C06's first-run rule, reused)",
    "R-C15-DISCIPLINE (insert only, hand-out): __put_in_queue removes nothing; the name handed out by the fetch is the element the oldest-first scan is looking at",
    "R-C15-DISCIPLINE (round 5): RabbitMQ on_new_message reaches queue.put without a suspension point (each delivery callback is its own task: a suspended earlier delivery is overtaken)",
    "R-C15-DISCIPLINE (round 6): a cancelled RabbitMQ wait cancels its getter task (a leaked getter swallows the next delivery) and re-raises; an error while reading a claimed Redis message propagates",
    "R-C15-AWAITED: in the files this property is anchored in, no bare statement calls a coroutine function (the operation would never run)",
    "R-C15-DISCIPLINE (Redis sweep rules): a claimed name always proceeds to the read of its data (never abandoned in `processing` while later messages are delivered)",
]
NOT_DECIDED = ["order across histories with concurrent producers/consumers", "RabbitMQ (server-side ordering)", "fairness between priorities (randomised by design)"]
ASSUMPTIONS = ["Redis LRANGE returns elements left to right, LPUSH/RPUSH add at the left/right end, LREM with negative count scans from the tail", "asyncio.Queue is FIFO for put_nowait/get_nowait"]


def run(ctx: Ctx) -> None:
    from .shared import every_operation_awaited

    every_operation_awaited(ctx, "R-C15-AWAITED")  # in the files this property is anchored in, no asynchronous operation is created and dropped
    from .brokers import redis_claim_flow

    redis_claim_flow(ctx, "R-C15-DISCIPLINE")  # the Redis take, guard by guard (no name -> nothing claimed; claimed -> removed from the right structure, marked, data read; complete data only)
    discipline(ctx)
    inmem(ctx)
    from .C06 import first_run

    from .brokers import rabbit_delivery_order

    rabbit_delivery_order(ctx, "R-C15-DISCIPLINE")
    from .brokers import rabbit_consume_releases_get, redis_claimed_read_propagates

    rabbit_consume_releases_get(ctx, "R-C15-DISCIPLINE")
    redis_claimed_read_propagates(ctx, "R-C15-DISCIPLINE")
    from .C05 import poll

    poll(ctx, "R-C15-PROMOTE")  # due delayed messages are promoted before every fetch: a busy waiting queue cannot starve them
    first_run(ctx, "R-C15-ELAPSED")  # C06's first-run rule reused: an elapsed deferred_until must not park an immediately deliverable message among the delayed ones


def discipline(ctx: Ctx, rule="R-C15-DISCIPLINE") -> None:
    piq = ctx.func(f"{C.REDIS_BROKER}.__put_in_queue")
    g = ctx.cfg(piq)
    pushes = [n for n in g.calls() if isinstance(n.ast.func, ast.Attribute) and n.ast.func.attr in ("lpush", "rpush")]

    def env(in_front):
        def fn(text, node):
            if isinstance(node, ast.Name) and node.id == "in_front":
                return in_front
            if isinstance(node, ast.Compare) and isinstance(node.ops[0], ast.Is) and dotted(node.left) == "delay_until":
                return True
            return None
        return {"*p": fn}

    ends = {}
    for in_front in (False, True):
        r = flow.reach_under(g, env(in_front), flow.NORMAL_KINDS)
        got = sorted({p.ast.func.attr for p in pushes if p.id in r})
        ends[in_front] = got[0] if len(got) == 1 else str(got)
    new_end = {"lpush": "head", "rpush": "tail"}.get(ends[False])
    ret_end = {"lpush": "head", "rpush": "tail"}.get(ends[True])
    ctx.check(new_end is not None and ret_end is not None and new_end != ret_end, rule, piq, "new messages and returned messages are pushed at opposite ends",
              f"new: {ends[False]} ({new_end}), returned (in_front): {ends[True]} ({ret_end})",
              f"redis __put_in_queue pushes new messages with {ends[False]} and returned ones with {ends[True]}: a returned message must go to the consumption end, a new one to the other end",
              instance="push ends")
    callers = {op: piq_sites(ctx, ctx.func(f"{C.REDIS_BROKER}.{op}")) for op in ("enqueue", "reject", "requeue")}
    ctx.check(all(len(v) == 1 for v in callers.values()) and (C.arg(callers["enqueue"][0], 3, "in_front") is None or C.is_const(C.arg(callers["enqueue"][0], 3, "in_front"), False))
              and C.is_const(C.arg(callers["reject"][0], 3, "in_front"), True) and C.is_const(C.arg(callers["requeue"][0], 3, "in_front"), True), rule, C.REDIS_BROKER, "enqueue pushes behind, reject/requeue push in front", "in_front only for returned messages",
              "redis enqueue/reject/requeue do not use in_front as 'returned messages go in front'", instance="in_front usage")
    # __put_in_queue only adds: an insertion that first removes an already waiting copy moves that message behind everything enqueued meanwhile
    rem = [n for n in g.calls() if isinstance(n.ast.func, ast.Attribute) and n.ast.func.attr in ("lrem", "zrem", "lpop", "rpop", "ltrim", "delete")]
    ctx.check(not rem, rule, piq, "redis __put_in_queue only inserts", "no removal from the queue while inserting",
              f"redis __put_in_queue also removes ({[unparse(r_.ast)[:60] for r_ in rem]}): putting a message whose id is already waiting takes the waiting copy out and re-inserts it at the end - "
              "a message that is re-enqueued while waiting is overtaken by everything that arrived in between, indefinitely if that repeats", instance="put_in_queue inserts only")
    consumption_end = ret_end
    # the name handed out is the element the scan loop is looking at (scan order = delivery order): no index into the page
    fm = ctx.func(f"{C.REDIS_CONS}.__fetch_message_name")
    scan = [lp for lp in C.own_nodes(fm) if isinstance(lp, ast.For) and isinstance(lp.target, ast.Name)]
    hand_outs = [r_ for r_ in C.own_returns(fm) if r_.value is not None and not C.is_const(r_.value, None)]
    ok_scan = bool(scan) and bool(hand_outs)
    for r_ in hand_outs:
        inside = [lp for lp in scan if any(x is r_ for x in ast.walk(lp))]
        src = C.inline_locals(fm, r_.value, calls="all") or r_.value
        ok_scan = ok_scan and bool(inside) and inside[0].target.id in C.names_in(src) and not any(isinstance(x, ast.Subscript) for x in ast.walk(src))
    ctx.check(ok_scan, rule, fm, "the name handed out is the one the scan is looking at", "return inside the scan loop, of the loop variable",
              f"redis __fetch_message_name hands out {[unparse(r_.value)[:40] for r_ in hand_outs]} - not (only) the element the oldest-first scan is looking at: an element picked by index "
              "from the page ignores the scan order (e.g. the newest of the window first), so older waiting messages are overtaken", instance="hand-out follows the scan")
    # fetch window
    f = ctx.func(f"{C.REDIS_CONS}.__fetch_message_name")
    lists = [fi for fi in f.nested.values() if any(isinstance(c, ast.Call) and isinstance(c.func, ast.Attribute) and c.func.attr == "lrange" for c in ast.walk(fi.node))]
    ctx.require(len(lists) == 1, f"{f.qualname}: list fetcher (lrange) not found")
    lf = lists[0]
    lr = [c for c in ast.walk(lf.node) if isinstance(c, ast.Call) and isinstance(c.func, ast.Attribute) and c.func.attr == "lrange"][0]
    a_start, a_end = affine(_subst(lr.args[1])), affine(_subst(lr.args[2]))
    init_off = [n for n in ast.walk(f.node) if isinstance(n, ast.Assign) and any(dotted(t) == "offset" for t in n.targets) and not any(n is x for x in ast.walk(lf.node))]
    off0 = init_off[0].value.value if init_off and isinstance(init_off[0].value, ast.Constant) else None
    ok_shape = a_start is not None and a_end is not None and off0 == 0
    window = None
    if ok_shape:
        ts, cs = a_start
        te, ce = a_end
        # tail window: [offset - P, offset - 1] ; head window: [offset, offset + P - 1]
        if ts == {"offset": 1, "P": -1} and cs == 0 and te == {"offset": 1} and ce == -1:
            window = "tail"
        elif ts == {"offset": 1} and cs == 0 and te == {"offset": 1, "P": 1} and ce == -1:
            window = "head"
    ctx.check(window is not None, rule, lf, f"list window lrange({unparse(lr.args[1])}, {unparse(lr.args[2])})", f"a window of PREFETCH_AMOUNT elements at the {window}",
              f"redis list fetcher reads lrange({unparse(lr.args[1])}, {unparse(lr.args[2])}) with offset starting at {off0}: not a window of exactly PREFETCH_AMOUNT elements at one end "
              "(entries between pages are skipped or read twice)", node=lr, instance="window shape")
    adv = [n for n in ast.walk(lf.node) if (isinstance(n, ast.AugAssign) and dotted(n.target) == "offset") or (isinstance(n, ast.Assign) and any(dotted(t) == "offset" for t in n.targets))]
    step = None
    if len(adv) == 1:
        if isinstance(adv[0], ast.AugAssign):
            v = affine(_subst(adv[0].value))
            if v is not None and v == ({"P": 1}, 0):
                step = -1 if isinstance(adv[0].op, ast.Sub) else (1 if isinstance(adv[0].op, ast.Add) else None)
        else:
            v = affine(_subst(adv[0].value))
            if v == ({"offset": 1, "P": -1}, 0):
                step = -1
            elif v == ({"offset": 1, "P": 1}, 0):
                step = 1
    want_step = -1 if window == "tail" else 1
    ctx.check(step == want_step, rule, lf, "next page starts where this one ended", f"offset {'-=' if want_step < 0 else '+='} PREFETCH_AMOUNT",
              f"redis list fetcher advances the page with `{unparse(adv[0]) if adv else '?'}`: consecutive windows are not contiguous, so some entries are never examined "
              "(an old matching message behind foreign-topic ones is skipped while younger ones are delivered)", node=adv[0] if adv else lr, instance="page advance")
    ctx.check(window == consumption_end, rule, lf, "window taken from the consumption end", f"window at the {window}, returned messages pushed at the {consumption_end}",
              f"redis fetches its window from the {window} but new messages are pushed at the {new_end} / returned ones at the {consumption_end}: the newest messages are delivered first",
              instance="window end vs push end")
    # scan direction
    rev = any(isinstance(c, ast.Call) and ((dotted(c.func) or "") == "names.reverse" or (dotted(c.func) == "reversed")) for c in ast.walk(lf.node))
    rev_sl = any(isinstance(s_, ast.Subscript) and isinstance(s_.slice, ast.Slice) and s_.slice.step is not None and unparse(s_.slice.step) == "-1" for s_ in ast.walk(lf.node))
    loop = [n for n in ast.walk(f.node) if isinstance(n, ast.For) and not any(n is x for fi in f.nested.values() for x in ast.walk(fi.node))]
    loop_rev = any(isinstance(l.iter, ast.Call) and dotted(l.iter.func) == "reversed" for l in loop)
    scan = "oldest-first" if ((window == "tail") == (rev or rev_sl or loop_rev)) else "newest-first"
    ctx.check(scan == "oldest-first" and not (loop_rev and window == "tail" and any(True for fi in f.nested.values() if fi is not lf)), rule, f,
              "window scanned starting with its oldest element", f"window at the {window}, {'reversed' if (rev or rev_sl) else 'forward'} scan of the list page",
              f"redis scans the {window} window {'in list order' if not (rev or rev_sl or loop_rev) else 'reversed'}: it starts at the newest of the oldest PREFETCH_AMOUNT messages, so with a backlog "
              "that stays above the window size the oldest messages are overtaken indefinitely" + (" (a reversed shared loop also reverses the score-ordered delayed pages)" if loop_rev else ""),
              node=lr, instance="scan direction")
    # removal end
    t = ctx.func(f"{C.REDIS_CONS}.__get_message_name")
    lrem = [c for _o, c in C.flat_walk(ctx, t) if isinstance(c, ast.Call) and isinstance(c.func, ast.Attribute) and c.func.attr == "lrem"]
    if not ctx.check(len(lrem) == 1, rule, t, "take removes the fetched name with LREM", "one lrem", "redis take does not remove the fetched name with LREM: the element removed is not the one "
                     "that was fetched and delivered, so the queue order and content diverge from what was delivered", instance="lrem present"):
        return
    cnt = lrem[0].args[1]
    cv = -cnt.operand.value if isinstance(cnt, ast.UnaryOp) and isinstance(cnt.op, ast.USub) and isinstance(cnt.operand, ast.Constant) else (cnt.value if isinstance(cnt, ast.Constant) else None)
    want = -1 if consumption_end == "tail" else 1
    ctx.check(cv == want, rule, t, "lrem removes one occurrence nearest the consumption end", f"count={cv}", f"redis take removes with lrem count {unparse(cnt)} (expected {want})", node=lrem[0], instance="lrem count")
    # delayed pages ascending and contiguous
    for fi in f.nested.values():
        if fi is lf:
            continue
        z = [c for c in ast.walk(fi.node) if isinstance(c, ast.Call) and isinstance(c.func, ast.Attribute) and c.func.attr == "zrange"]
        ctx.require(len(z) == 1, f"{fi.qualname}: zrange not found")
        ctx.check(not C.kw(z[0], "desc") or C.is_const(C.kw(z[0], "desc"), False), rule, fi, "delayed set scanned in ascending score order", "earliest due first",
                  "redis scans the delayed set in descending order (latest due first)", node=z[0], instance=f"{fi.name}: ascending")
        adv = [n for n in ast.walk(fi.node) if isinstance(n, ast.AugAssign) and dotted(n.target) == "offset"]
        ok = len(adv) == 1 and isinstance(adv[0].op, ast.Add) and affine(_subst(adv[0].value)) == ({"P": 1}, 0)
        ctx.check(ok, rule, fi, "delayed pages advance by PREFETCH_AMOUNT", "offset += PREFETCH_AMOUNT", f"redis delayed fetcher advances with {unparse(adv[0]) if adv else '?'}", instance=f"{fi.name}: page advance")
        num, off = C.kw(z[0], "num"), C.kw(z[0], "offset")
        if num is not None:
            ok = affine(_subst(num)) == ({"P": 1}, 0) and dotted(off) == "offset"
        else:
            st, en = C.kw(z[0], "start"), C.kw(z[0], "end")
            ok = affine(_subst(st)) == ({"offset": 1}, 0) and affine(_subst(en)) == ({"offset": 1, "P": 1}, -1)
        ctx.check(ok, rule, fi, "delayed page = PREFETCH_AMOUNT entries from offset", "contiguous pages", f"redis delayed fetcher reads {unparse(z[0])[:100]}", node=z[0], instance=f"{fi.name}: page shape")
    md = ctx.func(f"{C.REDIS_BROKER}.__mark_dead")
    ctx.check(any(isinstance(c, ast.Call) and isinstance(c.func, ast.Attribute) and c.func.attr == ends[False] for c in ast.walk(md.node)), rule, md, "dead letters are pushed like new messages",
              ends[False], "redis __mark_dead pushes at the consumption end (the newest dead letter is read first)", instance="dead push end")


def _subst(e: ast.AST) -> ast.AST:
    """self.PREFETCH_AMOUNT -> P for the affine normal form."""
    class T(ast.NodeTransformer):
        def visit_Attribute(self, node):
            if dotted(node) == "self.PREFETCH_AMOUNT":
                return ast.Name(id="P", ctx=ast.Load())
            return node
    import copy
    return T().visit(copy.deepcopy(e))


def inmem(ctx: Ctx, rule="R-C15-INMEM") -> None:
    allowed = {"put_nowait", "get_nowait", "qsize", "empty"}
    n = 0
    for fn in ctx.prog.iter_functions():
        for a in ast.walk(fn.node):
            if isinstance(a, ast.Attribute) and isinstance(a.value, ast.Attribute) and a.value.attr == "simple":
                n += 1
                ctx.check(a.attr in allowed, rule, fn, f".simple.{a.attr} in {fn.short()}", "queue used only through its FIFO interface",
                          f"{fn.short()} accesses the waiting queue through .simple.{a.attr}: reaching into the queue's internals can reorder waiting messages", node=a, instance=f"simple.{a.attr} in {fn.short()}")
    ctx.floor(rule, n, 5, "accesses of the in-memory waiting queue")
    rj = ctx.func(f"{C.INMEM_BROKER}.reject")
    g = ctx.cfg(rj)
    adds = [nn for nn in g.calls() if inmem_event(nn) and inmem_event(nn)[0] == "+"]
    helper = [c for c in ast.walk(rj.node) if isinstance(c, ast.Call) and (dotted(c.func) or "") in ("self._put_in_queue", "self.enqueue")]
    def same_object(a):
        v = a.ast.args[-1] if a.ast.args else None
        if not isinstance(v, ast.Name):
            return False
        # the held message itself (a loop variable over the held set or what a take-helper handed back), never a rebuilt Message
        return not any(isinstance(c, ast.Call) and (dotted(c.func) or "").split(".")[-1] == "Message" for d_ in C.local_defs(rj, v.id) for c in ast.walk(d_))

    ok = not helper and len(adds) >= 1 and all(same_object(a) for a in adds)
    ctx.check(ok, rule, rj, "in-memory reject re-appends the held message itself", "no re-routing, no recomputed schedule",
              f"in-memory reject re-inserts through {[unparse(h.func) for h in helper] or [unparse(a.ast)[:50] for a in adds]}: a new message object is routed by a recomputed due time, so a "
              "returned (e.g. recurring) message goes back into the delayed store and later arrivals overtake it", instance="in-memory reject: same object")
    fin = ctx.func(f"{C.INMEM_CONS}.finish")
    puts = [c for c in ast.walk(fin.node) if isinstance(c, ast.Call) and C.utext(fin, c.func) == "self._queue.simple.put_nowait"]
    ctx.check(len(puts) == 1, rule, fin, "in-memory finish re-appends held messages to the waiting queue", "put_nowait", "in-memory finish does not return held messages to the waiting queue", instance="in-memory finish: append")
    d = ctx.func(f"{C.INMEM_CONS}.__consume_dead")
    pops = [c for c in ast.walk(d.node) if isinstance(c, ast.Call) and C.utext(d, c.func) == "self._queue.dead.pop"]
    ctx.check(len(pops) == 1 and pops[0].args and C.is_const(pops[0].args[0], 0), rule, d, "dead letters read oldest first", "dead.pop(0)", "in-memory dead reader does not take the oldest dead letter first", instance="in-memory dead: FIFO")
    dl = ctx.func(f"{C.INMEM_CONS}.__consume_delayed")
    pops = [c for c in ast.walk(dl.node) if isinstance(c, ast.Call) and isinstance(c.func, ast.Attribute) and c.func.attr == "pop"
            and isinstance(C.inline_locals(dl, c.func.value, calls="all") or c.func.value, ast.Subscript)]
    ctx.check(all(c.args and C.is_const(c.args[0], 0) for c in pops), rule, dl, "same-instant delayed messages read in insertion order", "bucket.pop(0)", "in-memory delayed reader does not take the first message of a bucket", instance="in-memory delayed: FIFO")
