"""C11 - A job reaches exactly the actor it names, only through that actor's queue."""
from __future__ import annotations

import ast

from .. import flow
from ..engine import Ctx
from ..model import dotted, unparse
from . import common as C
from .shared import _mentions, await_map, category_env

SUMMARY = "Wiring of queue -> topic set -> consumer -> actor lookup; sibling cross-check of the three topic filters; registry invariant of Router."
DECIDED = [
    "R-C11-WIRING: Worker.run creates the consumer of queue q with topics_by_queue[q] (same loop variable), get_consumer hands (queue, topics) "
    "to the consumer constructor in the positions it reads them, and the consume loop looks the actor up by the message's topic",
    "R-C11-FILTER: on a foreign topic each consumer only puts the message back where it was (in-memory: re-append to the waiting queue; Redis: "
    "filtered before the take by an exact '<topic>:' prefix; RabbitMQ: basic_reject with requeue) - never dead-letters, acks or hands it out",
    "R-C11-SYNC: topics_by_queue[q] = {names of actors registered for q} is re-established by every writer of Router.actors: an overridden name is "
    "evicted from its previous queue and a queue without topics is removed (an empty topic set means 'no filter')",
    "R-C11-WIRING (connection): every connection-bound object (worker, queue, job, runner, handle, MessageDependency) created by a connection-bound object receives the creator's connection; R-C11-FILTER (bounce): RabbitMQ bounces (paused / foreign topic) requeue unconditionally and end the delivery",
    "R-C11-WIRING (keys): C07's key-encoding rules reused (queue and topic keep their places in Redis keys); R-C11-FILTER (scan): exhaustive paging",
    "R-C11-WIRING (round 5): the testing plugin's run-on-enqueue decision is controlled by tests on the key's queue AND topic (CFG: the tests of which exactly one branch reaches worker.run()); R-C11-SYNC: the forget rule names the previous queue's set in its emptiness test and its del",
    "R-C11-SYNC / R-C11-FILTER (round 6): include_router is called only from __init__ / include_router (never replayed at run time); a foreign-topic message goes straight back without a suspension",
    "R-C11-AWAITED: in the files this property is anchored in, no bare statement calls a coroutine function (the operation would never run)",
]
NOT_DECIDED = ["behaviour of several workers sharing a queue over time (schedules)"]
ASSUMPTIONS = ["aiormq basic_reject defaults to requeue=True (re-checked from the installed source in the thorough tier)", "validated names contain no ':' (C07-ALPHABET)"]

ROUTER = "repid.router.Router"


def run(ctx: Ctx) -> None:
    from .shared import every_operation_awaited

    every_operation_awaited(ctx, "R-C11-AWAITED")  # in the files this property is anchored in, no asynchronous operation is created and dropped
    plugin_route(ctx)
    from .brokers import inmem_consume_rules

    with ctx.as_rule("R-C11-FILTER"):
        inmem_consume_rules(ctx, rule_t="R-C11-FILTER", rule_a="R-C11-FILTER")  # a foreign-topic message goes straight back: no suspension while it is in no queue (its own worker would never see it)
    from .shared import who_may_call

    who_may_call(ctx, "R-C11-SYNC", "include_router", lambda fn, call: fn.name in ("__init__", "include_router"),
                 "routers are merged when the user says so; replaying an earlier include later (at run time) undoes the registrations made since - the last registration of a name no longer wins, "
                 "jobs run under the replaced actor and queue", prefixes=("repid.worker.", "repid.router.", "repid.main.", "repid._runner."), floor=1)
    from .C07 import alphabet

    with ctx.as_rule("R-C11-WIRING"):
        alphabet(ctx, "R-C11-WIRING")  # queue and topic keep their places in every Redis key that is built, parsed and re-built
    from .shared import connection_propagation

    connection_propagation(ctx, "R-C11-WIRING")  # the worker / queue / handle chain stays on one connection
    wiring(ctx)
    filters(ctx)
    sync(ctx)
    if ctx.tier == "thorough":
        aiormq_contract(ctx)


def wiring(ctx: Ctx, rule="R-C11-WIRING") -> None:
    w = ctx.func(f"{C.WORKER}._run") if f"{C.WORKER}._run" in ctx.prog.functions else ctx.func(f"{C.WORKER}.run")
    calls = [c for c in ast.walk(w.node) if isinstance(c, ast.Call) and isinstance(c.func, ast.Attribute) and c.func.attr == "run_one_queue"]
    ctx.require(len(calls) == 1, f"{w.qualname}: run_one_queue call not found")
    c = calls[0]
    # the iteration (comprehension, generator or for-loop) over the served queues that contains the call
    its = [(t, it) for t, it, body, node in C.iterations(w) if any(x is c for b in body for x in ast.walk(b))]
    ok = len(its) == 1 and dotted(its[0][1]) == "self.topics_by_queue" and isinstance(its[0][0], ast.Name)
    v = its[0][0].id if ok else "?"
    ctx.check(ok, rule, w, "one consumer per served queue", "for queue_name in self.topics_by_queue", "Worker.run does not start one run_one_queue per key of topics_by_queue", node=c, instance="per-queue consumers")
    a0, a1, a2 = C.arg(c, 0, "queue_name"), C.arg(c, 1, "topics"), C.arg(c, 2, "actors")
    a1x = C.inline_locals(w, a1)
    ok = dotted(a0) == v and isinstance(a1x, ast.Subscript) and dotted(a1x.value) == "self.topics_by_queue" and dotted(a1x.slice) == v and C.utext(w, a2) == "self.actors"
    ctx.check(ok, rule, w, "run_one_queue(q, topics_by_queue[q], actors)", "the queue's own topic set",
              f"Worker.run starts run_one_queue({unparse(a0)}, {C.utext(w, a1)}, {C.utext(w, a2)}): a queue's consumer is not filtered by that queue's own topics", node=c, instance="queue/topics pairing")
    r1 = ctx.func(f"{C.RUNNER}.run_one_queue")
    gc = [x for x in ast.walk(r1.node) if isinstance(x, ast.Call) and isinstance(x.func, ast.Attribute) and x.func.attr == "get_consumer"]
    ctx.require(len(gc) == 1, f"{r1.qualname}: get_consumer call not found")
    ok = dotted(C.arg(gc[0], 0, "queue_name")) == "queue_name" and dotted(C.arg(gc[0], 1, "topics")) == "topics"
    ctx.check(ok, rule, r1, "get_consumer(queue_name, topics, ...)", "arguments in position", f"run_one_queue calls {unparse(gc[0])[:80]}", node=gc[0], instance="get_consumer arguments")
    rc = [x for x in ast.walk(r1.node) if isinstance(x, ast.Call) and isinstance(x.func, ast.Attribute) and x.func.attr == "_run_consumer"]
    ok = len(rc) == 1 and dotted(C.arg(rc[0], 1, "actors")) == "actors" and dotted(C.arg(rc[0], 0, "consumer")) == "consumer"
    ctx.check(ok, rule, r1, "_run_consumer(consumer, actors)", "this queue's consumer, the worker's actors", "run_one_queue does not run the consume loop on its own consumer and actors", instance="_run_consumer arguments")
    gcf = ctx.func(f"{C.MB}.get_consumer")
    mk = [x for x in ast.walk(gcf.node) if isinstance(x, ast.Call) and dotted(C.injected_default(gcf, x.func)) == "self.CONSUMER_CLASS"]
    ctx.require(len(mk) == 1, f"{gcf.qualname}: CONSUMER_CLASS(...) not found")
    ok = [unparse(a) for a in mk[0].args] == ["self", "queue_name", "topics", "max_unacked_messages", "category"] and not mk[0].keywords
    ctx.check(ok, rule, gcf, "CONSUMER_CLASS(self, queue_name, topics, max_unacked_messages, category)", "positional hand-over", f"get_consumer builds {unparse(mk[0])[:100]}", node=mk[0], instance="consumer construction")
    for q in (C.INMEM_CONS, C.REDIS_CONS, C.RABBIT_CONS, C.CONS):
        init = ctx.func(f"{q}.__init__")
        params = [p.arg for p in init.params()][1:6]
        ctx.check(params == ["broker", "queue_name", "topics", "max_unacked_messages", "category"], rule, init, f"{init.short()} parameter order", str(params),
                  f"{init.short()} takes {params}: the positional hand-over from get_consumer no longer matches", instance=f"{q.split('.')[-1]}: parameter order")
        if q == C.CONS:
            continue
        def sv(attr):
            v = C.stored_value(init, attr)  # single assignment, or the two arms of an if/else as one conditional expression
            t3 = C.negate_aware_ifexp(v) if v is not None else None
            return "" if v is None else (unparse(v) if t3 is None else f"{unparse(t3[1])} if {unparse(t3[0])} else {unparse(t3[2])}")

        st = {"self.queue_name": sv("self.queue_name"), "self.topics": sv("self.topics"), "self.category": sv("self.category")}
        okq = st.get("self.queue_name") == "queue_name"
        okt = st.get("self.topics") in ("topics", "frozenset(topics)", "frozenset() if topics is None else frozenset(topics)")
        okc = st.get("self.category") == "category"
        ctx.check(okq and okt and okc, rule, init, f"{init.short()} keeps queue, topics and category", "stored as given",
                  f"{init.short()} stores queue_name={st.get('self.queue_name')}, topics={st.get('self.topics')}, category={st.get('self.category')}", instance=f"{q.split('.')[-1]}: fields")
    rcf = ctx.func(f"{C.RUNNER}._run_consumer")
    recv = [n for n in ast.walk(rcf.node) if isinstance(n, ast.AsyncFor) and isinstance(n.target, ast.Tuple) and len(n.target.elts) == 3]
    ctx.require(len(recv) == 1 and all(isinstance(e, ast.Name) for e in recv[0].target.elts), f"{rcf.qualname}: `async for key, payload, params in consumer` not found")
    kv, pv, prv = [e.id for e in recv[0].target.elts]
    actors_param = [p.arg for p in rcf.params()][2]
    look = [s for s in ast.walk(rcf.node) if isinstance(s, ast.Subscript) and dotted(s.value) == actors_param]
    ok = len(look) == 1 and dotted(look[0].slice) == f"{kv}.topic"
    ctx.check(ok, rule, rcf, "actor = actors[key.topic]", "the actor registered under the message's topic", f"the consume loop looks the actor up with {[unparse(s) for s in look]}", instance="actor lookup")
    sp = [c2 for _o, c2 in C.flat_walk_bound(ctx, rcf) if isinstance(c2, ast.Call) and isinstance(c2.func, ast.Attribute) and c2.func.attr == "_process_with_event"]
    pwe = ctx.func(f"{C.RUNNER}._process_with_event")
    spa = [C.arg(sp[0], i, nm) for i, nm in enumerate([p_.arg for p_ in pwe.params()][1:5])] if len(sp) == 1 else []
    ok = len(sp) == 1 and len(spa) == 4 and all(a is not None for a in spa) and [dotted(a) for a in spa[1:]] == [kv, pv, prv] and look \
        and unparse(C.inline_locals(rcf, spa[0], calls="all")) == unparse(look[0])
    ctx.check(ok, rule, rcf, "_process_with_event(actor, key, payload, params)", "that actor processes that message", f"the consume loop spawns {unparse(sp[0]) if sp else '?'}", instance="spawn arguments")
    ctx.check(any(isinstance(t, ast.If) and "self.actors" in unparse(t.test) and "self.topics_by_queue" in unparse(t.test) for t in ast.walk(w.node)), rule, w,
              "worker without actors does not consume", "early exit", "Worker.run consumes although it has no actors", instance="no actors -> no consumers")


def _topic_env(mismatch: bool, overdue: bool | None = False, extra=None):
    def fn(text, node):
        if isinstance(node, ast.Compare) and isinstance(node.ops[0], ast.In) and _mentions(node.comparators[0], "topics"):
            return not mismatch
        if dotted(node) in ("self.topics",):
            return True
        if isinstance(node, ast.Attribute) and node.attr == "is_overdue":
            return overdue
        if isinstance(node, ast.Compare) and isinstance(node.ops[0], ast.Is) and C.is_const(node.comparators[0], None) and dotted(node.left) in ("msg_topic", "message.delivery_tag"):
            return False
        if extra is not None:
            return extra(text, node)
        return None
    return {"*topic": fn}


def redis_prefix_terminator(ctx: Ctx, rule: str):
    """The Redis consumer selects its messages by name prefix `<topic>:`; the ':' terminator is what keeps topic 'send' from matching 'send_digest:<id>'
    (names may contain '_' and '-', never ':')."""
    f = ctx.func(f"{C.REDIS_CONS}.__get_message_name")
    fetch = ctx.func(f"{C.REDIS_CONS}.__fetch_message_name")
    fetch_params = [p.arg for p in fetch.params()]
    pfx = fetch_params[2]  # the prefixes parameter of the fetch (2nd after self), whatever it is called
    fm0 = [c for c in ast.walk(f.node) if isinstance(c, ast.Call) and (dotted(c.func) or "").endswith("__fetch_message_name")]
    nt = [C.inline_locals(f, C.arg(fm0[0], 1, pfx))] if len(fm0) == 1 and C.arg(fm0[0], 1, pfx) is not None else []
    ok = False
    if len(nt) == 1 and isinstance(nt[0], ast.Call) and dotted(nt[0].func) == "tuple" and nt[0].args and isinstance(nt[0].args[0], (ast.GeneratorExp, ast.ListComp)):
        ge = nt[0].args[0]
        v = ge.generators[0].target
        e = ge.elt
        ok = isinstance(v, ast.Name) and isinstance(e, ast.BinOp) and isinstance(e.op, ast.Add) and dotted(e.left) == v.id and C.is_const(e.right, ":") \
            and dotted(ge.generators[0].iter) == [p.arg for p in f.params()][2] and not ge.generators[0].ifs
    elif len(nt) == 1 and isinstance(nt[0], ast.JoinedStr):
        ok = False
    ctx.check(ok, rule, f, "redis: topic prefixes end with the ':' separator", "tuple(x + ':' for x in topics)",
              f"redis __get_message_name builds the prefixes as {unparse(nt[0]) if nt else '?'}: without the ':' terminator a worker with actor 'send' also takes 'send_digest:<id>' "
              "messages it has no actor for", instance="redis prefix terminator")
    return f, fetch_params, pfx


def filters(ctx: Ctx, rule="R-C11-FILTER") -> None:
    # ---------- in-memory
    f = ctx.func(f"{C.INMEM_CONS}.__consume_normal")
    g = ctx.cfg(f)
    r = flow.reach_under(g, _topic_env(True), flow.NORMAL_KINDS)
    calls = [g.nodes[i] for i in r if g.nodes[i].kind == "call"]
    back = [c for c in calls if C.attr_chain(c.ast.func)[-2:] == ["simple", "put_nowait"]]
    dead = [c for c in calls if "dead" in C.attr_chain(c.ast.func)]
    rets = [g.nodes[i] for i in r if g.nodes[i].kind == "return"]
    ok = len(back) == 1 and not dead and all(C.is_const(x.ast.value, None) for x in rets) and bool(rets) and unparse(back[0].ast.args[0]) == "msg"
    ctx.check(ok, rule, f, "in-memory: foreign topic -> back to the waiting queue, not handed out", "put_nowait(msg); return None",
              f"in-memory __consume_normal on a foreign topic: put back={len(back)}, dead-lettered={len(dead)}, returns={[unparse(x.ast.value) for x in rets]}", instance="in-memory foreign topic")
    r = flow.reach_under(g, _topic_env(False), flow.NORMAL_KINDS)
    rets = [g.nodes[i] for i in r if g.nodes[i].kind == "return" and not C.is_const(g.nodes[i].ast.value, None)]
    ctx.check(len(rets) == 1 and dotted(rets[0].ast.value) == "msg", rule, f, "in-memory: own topic -> handed out", "return msg", "in-memory __consume_normal does not hand out a message of its own topic",
              instance="in-memory own topic")
    tests = [t for t in g.nodes if t.kind == "test" and _mentions(t.ast, "topics")]
    ok = len(tests) == 1 and unparse(tests[0].ast) in ("self.topics and msg.key.topic not in self.topics",)
    ctx.check(len(tests) == 1 and "msg.key.topic" in unparse(tests[0].ast), rule, f, "in-memory filter compares the message's topic", "msg.key.topic",
              f"in-memory topic filter is `{unparse(tests[0].ast) if tests else '?'}`", instance="in-memory filter operand")
    # ---------- redis
    f, fetch_params, pfx = redis_prefix_terminator(ctx, rule)
    fm = [c for c in ast.walk(f.node) if isinstance(c, ast.Call) and (dotted(c.func) or "").endswith("__fetch_message_name")]
    ok = len(fm) == 1 and C.arg(fm[0], 1, pfx) is not None and dotted(C.arg(fm[0], 0, fetch_params[1])) == [p.arg for p in f.params()][1]
    ctx.check(ok, rule, f, "redis: fetch filtered by those prefixes", "__fetch_message_name(full_queue_name, new_topics, ...)", "redis __get_message_name does not pass the prefixes to the fetch", instance="redis prefixes used")
    callers = [ctx.func(f"{C.REDIS_CONS}.{n}") for n in ("__get_message_normal", "__get_message_delayed", "__get_message_dead")]
    for cf in callers:
        for c in ast.walk(cf.node):
            if isinstance(c, ast.Call) and (dotted(c.func) or "").endswith("__get_message_name"):
                ctx.check(dotted(C.arg(c, 1, "topics")) == "self.topics", rule, cf, f"{cf.name}: filtered by the consumer's topics", "self.topics", f"{cf.short()} fetches with topics={unparse(C.arg(c, 1, 'topics'))}",
                          node=c, instance=f"redis {cf.name} topics")
    f = ctx.func(f"{C.REDIS_CONS}.__fetch_message_name")
    g = ctx.cfg(f)
    rets = [n for n in g.nodes if n.kind == "return" and not C.is_const(n.ast.value, None)]
    tests = [t for t in g.nodes if t.kind == "test" and "startswith" in t.label]
    def filter_test(t):
        """`not <prefixes> or <name>.startswith(<prefixes>)` (or its De Morgan twin handled by the evaluator): no filter, or the name starts with a prefix"""
        e = t.ast
        if not (isinstance(e, ast.BoolOp) and isinstance(e.op, ast.Or) and len(e.values) == 2):
            return False
        a, b = e.values
        if isinstance(a, ast.Name):  # `accept_any = not prefixes`, hoisted out of the loop (the prefixes parameter is never re-bound)
            a = C.inline_locals(f, a) or a
        no_filter = (isinstance(a, ast.UnaryOp) and isinstance(a.op, ast.Not) and dotted(a.operand) == pfx) or \
            (isinstance(a, ast.Compare) and isinstance(a.ops[0], ast.Eq) and unparse(a.left) == f"len({pfx})" and C.is_const(a.comparators[0], 0))
        return no_filter and isinstance(b, ast.Call) and isinstance(b.func, ast.Attribute) \
            and b.func.attr == "startswith" and isinstance(b.func.value, ast.Name) and len(b.args) == 1 and dotted(b.args[0]) == pfx

    ok = len(tests) == 1 and filter_test(tests[0]) and \
        all(flow.must_pass(g, g.entry.id, [r_.id], [tests[0].id], flow.NORMAL_KINDS) for r_ in rets) and bool(rets)
    ctx.check(ok, rule, f, "redis: a name is returned only if it starts with one of the prefixes (or no filter)", "filter before the take",
              f"redis __fetch_message_name returns names under the test {[t.label for t in tests]}", instance="redis filter test")
    # ---------- rabbitmq
    f = ctx.func(f"{C.RABBIT_CONS}.on_new_message")
    g = flow.inline(f, ctx.res, 2, lambda n, cal: cal.cls is not None and cal.cls.qualname == C.RABBIT_CONS and cal in C.helper_callees(ctx, f))

    def paused(text, node):
        if isinstance(node, ast.Attribute) and node.attr in ("__is_paused",):
            return False
        if isinstance(node, ast.Attribute) and node.attr in ("__is_consuming",):
            return True
        return None

    r = flow.reach_under(g, _topic_env(True, extra=paused), flow.NORMAL_KINDS)
    calls = [g.nodes[i] for i in r if g.nodes[i].kind == "call"]
    rej = [c for c in calls if (c.callee or "").endswith("basic_reject")]
    bad = [c for c in calls if (c.callee or "").endswith(("basic_nack", "basic_ack", "queue.put"))]
    def tag_arg(c):
        a = c.ast.args[0] if c.ast.args else None
        if unparse(a) == "message.delivery_tag":
            return True
        # inside an extracted helper: the helper's parameter, bound to message.delivery_tag at the call site
        if isinstance(a, ast.Name) and c.func is not f:
            for cc in ast.walk(f.node):
                if isinstance(cc, ast.Call) and any(cal is c.func for cal in ctx.res.callees(f, cc)):
                    if unparse(C.bind_call(c.func, cc).get(a.id)) != "message.delivery_tag":
                        return False
            return True
        return False

    ok = len(rej) == 1 and not bad and not any(k.arg == "requeue" and C.is_const(k.value, False) for k in rej[0].ast.keywords) and tag_arg(rej[0])
    ctx.check(ok, rule, f, "rabbitmq: foreign topic -> basic_reject(requeue), nothing else", "message stays available to other workers",
              f"rabbitmq on_new_message on a foreign topic: reject={[unparse(c.ast)[:60] for c in rej]}, other effects={[unparse(c.ast)[:40] for c in bad]}", instance="rabbitmq foreign topic")
    r = flow.reach_under(g, _topic_env(False, extra=paused), flow.NORMAL_KINDS)
    put = [g.nodes[i] for i in r if g.nodes[i].kind == "call" and (g.nodes[i].callee or "") == "self.queue.put"]
    ctx.check(len(put) == 1, rule, f, "rabbitmq: own topic -> handed to the local queue", "queue.put", "rabbitmq on_new_message does not hand out a message of its own topic", instance="rabbitmq own topic")
    from .brokers import rabbit_bounce_rules, redis_scan_exhaustive

    redis_scan_exhaustive(ctx, rule)

    rabbit_bounce_rules(ctx, rule)
    tests = [t for t in g.nodes if t.kind == "test" and _mentions(t.ast, "topics")]
    ctx.check(len(tests) == 1 and unparse(tests[0].ast) == "self.topics and msg_topic not in self.topics", rule, f, "rabbitmq filter compares the header topic", "msg_topic not in self.topics",
              f"rabbitmq topic filter is {[t.label for t in tests]}", instance="rabbitmq filter operand")


def plugin_route(ctx: Ctx, rule="R-C11-WIRING") -> None:
    """The testing plugin's run-on-enqueue worker is started only for jobs its worker would consume: the job's queue is one of the worker's queues AND the topic one of that queue's topics."""
    f = ctx.func("repid.testing.modifiers.RunWorkerOnEnqueueModifier.wrapper")
    inner = C.nested_of(f, None, want_async=True)
    ctx.require(inner is not None, f"{f.qualname}: wrapped enqueue not found")
    g = ctx.cfg(inner)
    runs = [n for n in g.calls() if isinstance(n.ast.func, ast.Attribute) and n.ast.func.attr == "run"]
    ctx.require(bool(runs), f"{inner.qualname}: worker run not found")
    back = flow.reach_back(g, [runs[0].id], flow.NORMAL_KINDS)
    ctl = []
    for t in g.nodes:
        if t.kind == "test" and t.id in back:
            sides = [runs[0].id in flow.reach(g, [d for d, k in g.succ[t.id] if k == kind], flow.NORMAL_KINDS, include_start=True) for kind in ("T", "F")]
            if sides.count(True) == 1:  # the test decides whether the worker is run (if-form and early-return form alike)
                ctl.append(t)
    txt = " ; ".join(C.utext(inner, t.ast, calls="all") for t in ctl)
    ok = ".queue" in txt and ".topic" in txt
    ctx.check(ok, rule, inner, "run-on-enqueue decides by queue and topic", "key.queue in topics_by_queue and key.topic in topics_by_queue[key.queue]",
              f"the run-on-enqueue modifier starts its worker under `{txt[:120]}`: a job whose name the worker knows but that was sent to a queue the worker does not serve starts a worker "
              "that never receives it (enqueue blocks), or is executed through a queue it was not sent to", instance="plugin: queue and topic")


def sync(ctx: Ctx, rule="R-C11-SYNC") -> None:
    cls = ctx.prog.cls(ROUTER)
    writers = 0
    for m in cls.methods.values():
        g = ctx.cfg(m)
        w_nodes = [s for s in g.nodes if s.kind == "store" and isinstance(s.ast, ast.Subscript) and dotted(s.ast.value) == "self.actors"]
        w_nodes += [c for c in g.calls() if (c.callee or "") == "self.actors.update"]
        for wn in w_nodes:
            writers += 1
            forget = [c for c in g.calls() if (c.callee or "") == "self._forget_topic"]
            # a loop over the names being written that evicts each of them covers the write (zero iterations = nothing is written)
            cover = [n.id for n in g.nodes if n.kind == "iter" and isinstance(n.ast, ast.For) and "actors" in unparse(n.ast.iter)
                     and any(isinstance(c, ast.Call) and dotted(c.func) == "self._forget_topic" for c in ast.walk(n.ast))]
            ok = bool(forget) and flow.must_pass(g, g.entry.id, [wn.id], [c.id for c in forget] + cover, flow.NORMAL_KINDS)
            ctx.check(ok, rule, m, f"{wn.label[:50]} in {m.short()} preceded by eviction of the overridden name", "_forget_topic before the write",
                      f"{m.short()} overwrites actors ({wn.label[:60]}) without evicting the overridden name from its previous queue's topics: the worker keeps consuming that "
                      "topic from the old queue and runs the new actor for it", node=wn, instance=f"{m.name}: evict before write")
            adds = [c for c in g.calls() if isinstance(c.ast.func, ast.Attribute) and c.ast.func.attr in ("add", "update") and "topics_by_queue" in unparse(c.ast.func)]
            ok = bool(adds) and flow.must_pass(g, wn.id, [g.exit.id], [c.id for c in adds], flow.NORMAL_KINDS) or \
                (bool(adds) and any(a.id in flow.reach(g, [wn.id], flow.NORMAL_KINDS) for a in adds))
            ctx.check(ok, rule, m, f"{wn.label[:50]} in {m.short()} followed by registering the topic", "topics_by_queue updated",
                      f"{m.short()} registers an actor without adding its name to its queue's topics", node=wn, instance=f"{m.name}: topic added")
    ctx.floor(rule, writers, 2, "writers of Router.actors")
    a = ctx.func(f"{ROUTER}.actor")
    ads = [t.id for n in ast.walk(a.node) if isinstance(n, ast.Assign) and isinstance(n.value, ast.Call) and dotted(n.value.func) == "ActorData" for t in n.targets if isinstance(t, ast.Name)]
    ctx.require(len(ads) == 1, f"{a.qualname}: ActorData(...) construction not found")
    av = ads[0]
    fg = [c for c in ast.walk(a.node) if isinstance(c, ast.Call) and dotted(c.func) == "self._forget_topic"]
    ok = len(fg) == 1 and [unparse(x) for x in fg[0].args] == [f"{av}.name", f"{av}.queue"]
    ctx.check(ok, rule, a, "_forget_topic(a.name, a.queue)", "name and new queue of the actor being registered", f"Router.actor evicts with {unparse(fg[0]) if fg else '?'}", instance="actor: eviction arguments")
    st = [n for n in ast.walk(a.node) if isinstance(n, ast.Assign) and isinstance(n.targets[0], ast.Subscript) and dotted(n.targets[0].value) == "self.actors"]
    ok = len(st) == 1 and unparse(st[0].targets[0].slice) == f"{av}.name" and unparse(st[0].value) == av
    ctx.check(ok, rule, a, "self.actors[a.name] = a", "last registration wins", f"Router.actor stores {unparse(st[0]) if st else '?'}", instance="actor: store")
    ad = [c for c in ast.walk(a.node) if isinstance(c, ast.Call) and unparse(c.func) == f"self.topics_by_queue[{av}.queue].add"]
    ctx.check(len(ad) == 1 and unparse(ad[0].args[0]) == f"{av}.name", rule, a, "topics_by_queue[a.queue].add(a.name)", "name under its own queue", "Router.actor does not add the name under the actor's queue",
              instance="actor: topic add")
    ir = ctx.func(f"{ROUTER}.include_router")
    loops = [n for n in ast.walk(ir.node) if isinstance(n, ast.For) and any(isinstance(c, ast.Call) and dotted(c.func) == "self._forget_topic" for c in ast.walk(n))]
    ok = len(loops) == 1 and C.utext(ir, loops[0].iter, calls="all") == "router.actors.items()" and isinstance(loops[0].target, ast.Tuple) and len(loops[0].target.elts) == 2
    if ok:
        nv, av = [dotted(e) for e in loops[0].target.elts]
        c = [c for c in ast.walk(loops[0]) if isinstance(c, ast.Call) and dotted(c.func) == "self._forget_topic"][0]
        ft_params = [p_.arg for p_ in ctx.func(f"{ROUTER}._forget_topic").params()][1:]
        got = [C.arg(c, i, ft_params[i]) if i < len(ft_params) else None for i in range(2)]
        ok = [unparse(x) if x is not None else None for x in got] == [nv, f"{av}.queue"]
    ctx.check(ok, rule, ir, "include_router evicts every included name (with its new queue)", "for name, actor in router.actors.items(): _forget_topic(name, actor.queue)",
              "include_router does not evict each included actor name from its previous queue", instance="include_router: eviction loop")
    up = [n for n in ast.walk(ir.node) if isinstance(n, ast.For) and unparse(n.iter) == "router.topics_by_queue.items()"]
    ok = len(up) == 1 and any(isinstance(c, ast.Call) and unparse(c.func) == f"self.topics_by_queue[{dotted(up[0].target.elts[0])}].update" and unparse(c.args[0]) == dotted(up[0].target.elts[1])
                              for c in ast.walk(up[0]))
    ctx.check(ok, rule, ir, "include_router unions the topic sets per queue", "topics_by_queue[q].update(topics)", "include_router does not union the included router's topics per queue", instance="include_router: union")
    alias = [n for n in ast.walk(ir.node) if isinstance(n, ast.Assign) and any(isinstance(t, ast.Subscript) and dotted(t.value) == "self.topics_by_queue" for t in n.targets)
             and not (isinstance(n.value, ast.Call) and (dotted(n.value.func) in ("set", "frozenset") or (isinstance(n.value.func, ast.Attribute) and n.value.func.attr == "copy")))
             and not isinstance(n.value, (ast.Set, ast.SetComp))]
    ctx.check(not alias, rule, ir, "include_router never stores another router's topic set object", "sets are merged by update / copied",
              f"include_router stores the included router's own set object ({unparse(alias[0])[:80] if alias else ''}): both routers then share one topic set, and a later registration on one of them "
              "silently changes the topics the other one consumes", node=alias[0] if alias else None, instance="include_router: no aliasing")
    took = any(isinstance(c, ast.Call) and unparse(c.func) == "self.actors.update" and len(c.args) == 1 and C.utext(ir, c.args[0], calls="all") == "router.actors" for c in ast.walk(ir.node))
    for lp_ in [n for n in ast.walk(ir.node) if isinstance(n, ast.For) and C.utext(ir, n.iter, calls="all") == "router.actors.items()" and isinstance(n.target, ast.Tuple) and len(n.target.elts) == 2]:
        nv_, av_ = [dotted(e) for e in lp_.target.elts]
        # for name, actor in router.actors.items(): self.actors[name] = actor   (unconditionally, for every included actor)
        took = took or any(isinstance(st_, ast.Assign) and len(st_.targets) == 1 and unparse(st_.targets[0]) == f"self.actors[{nv_}]" and dotted(st_.value) == av_ for st_ in lp_.body)
    ctx.check(took, rule, ir, "include_router unions the actors", "actors.update(router.actors)",
              "include_router does not take over the included router's actors", instance="include_router: actors")
    ft = ctx.func(f"{ROUTER}._forget_topic")
    g = ctx.cfg(ft)
    disc = [c for c in g.calls() if isinstance(c.ast.func, ast.Attribute) and c.ast.func.attr in ("discard", "remove") and "topics_by_queue" in C.utext(ft, c.ast.func)]
    dels = [n for n in g.nodes if n.kind == "store" and (n.target or "").startswith("del ") and "topics_by_queue" in (n.target or "")]
    namep = [p_.arg for p_ in ft.params()][1]
    dtxt = C.utext(ft, disc[0].ast.func) if disc else ""
    ok = len(disc) == 1 and ("topics_by_queue[previous.queue]" in dtxt or f"topics_by_queue[self.actors.get({namep}).queue]" in dtxt) and unparse(disc[0].ast.args[0]) == namep
    ctx.check(ok, rule, ft, "_forget_topic discards the name from the previous queue's set", "topics_by_queue[previous.queue].discard(name)", "_forget_topic does not remove the name from the previous queue", instance="forget: discard")
    ok = bool(dels) and bool(disc) and all(d.id in flow.reach(g, [disc[0].id], flow.NORMAL_KINDS) for d in dels)
    guards = [t for t in g.nodes if t.kind == "test" and "topics_by_queue" in C.utext(ft, t.ast)]
    ok = ok and any(C.emptiness_test(t.ast) is not None and "topics_by_queue" in C.utext(ft, C.emptiness_test(t.ast)) for t in guards)
    # the set tested for emptiness and the entry deleted are the very set the name was discarded from (the previous queue's), not some other key
    disc_set = C.utext(ft, disc[0].ast.func.value) if disc else ""
    subj = [C.utext(ft, C.emptiness_test(t.ast)) for t in guards if C.emptiness_test(t.ast) is not None]
    del_keys = [C.utext(ft, n.ast.targets[0]) if isinstance(n.ast, ast.Delete) else (n.target or "")[4:] for n in dels]
    ok = ok and all(s_ == disc_set for s_ in subj) and all(C.utext(ft, ast.parse(k, mode="eval").body) == disc_set if k else False for k in del_keys)
    ctx.check(ok, rule, ft, "a queue left without topics is removed", "del topics_by_queue[q] when its set became empty",
              "_forget_topic leaves a queue with an empty topic set behind: the worker still opens a consumer for it and an empty topic set means 'no filter', so it takes every "
              "message of that queue (executing moved names through the wrong queue, crashing on foreign ones)", instance="forget: empty set removed")

    def env(prev_none, same_queue):
        def fn(text, node):
            if isinstance(node, ast.Compare) and isinstance(node.ops[0], ast.Is) and dotted(node.left) == "previous":
                return prev_none
            if isinstance(node, ast.Compare) and isinstance(node.ops[0], ast.Eq) and {dotted(node.left), dotted(node.comparators[0])} == {"previous.queue", "new_queue"}:
                return same_queue
            return None
        return {"*f": fn}

    r = flow.reach_under(g, env(False, False), flow.NORMAL_KINDS)
    ctx.check(all(d.id in r for d in disc) and bool(disc), rule, ft, "moved to another queue -> evicted", "discard reachable", "_forget_topic does not evict a name that moves to another queue", instance="forget: moved")
    r = flow.reach_under(g, env(False, True), flow.NORMAL_KINDS)
    ctx.check(not any(d.id in r for d in disc), rule, ft, "same queue -> kept", "no eviction", "_forget_topic evicts a name re-registered under the same queue", instance="forget: same queue")
    pv = C.local_defs(ft, "previous")
    ctx.check(len(pv) == 1 and unparse(pv[0]) in (f"self.actors.get({namep})", f"self.actors.get({namep}, None)"), rule, ft, "previous registration looked up by name", "self.actors.get(name)", f"_forget_topic looks up {unparse(pv[0]) if pv else '?'}", instance="forget: lookup")


def aiormq_contract(ctx: Ctx, rule="R-C11-FILTER") -> None:
    """Third-party contract re-checked from the installed source: basic_reject(..., requeue=True) by default."""
    import glob

    paths = glob.glob("/venv/lib/python3*/site-packages/aiormq/channel.py")
    if not paths:
        ctx.note("aiormq not installed: basic_reject default not re-checked")
        return
    tree = ast.parse(open(paths[0], encoding="utf-8").read())
    found = None
    for n in ast.walk(tree):
        if isinstance(n, (ast.FunctionDef, ast.AsyncFunctionDef)) and n.name == "basic_reject":
            for a, d in zip(n.args.kwonlyargs, n.args.kw_defaults):
                if a.arg == "requeue":
                    found = d
            pos = n.args.args[-len(n.args.defaults):] if n.args.defaults else []
            for a, d in zip(pos, n.args.defaults):
                if a.arg == "requeue":
                    found = d
    ctx.check(found is not None and C.is_const(found, True), rule, "aiormq.channel.Channel.basic_reject", "aiormq basic_reject defaults to requeue=True", "installed source agrees",
              f"installed aiormq: basic_reject requeue default is {unparse(found) if found is not None else 'not found'} - the RabbitMQ topic filter would drop foreign messages", instance="aiormq default")
