"""C19 - Schedule arithmetic is well-behaved for all inputs."""
from __future__ import annotations

import ast

from .. import flow
from ..engine import Ctx
from ..model import AnalysisError, FuncInfo, dotted, unparse
from . import common as C
from .shared import _mentions

SUMMARY = ("Abstract interpretation of the default back-off over (monotonicity, lower clamp, upper clamp, bounded exponent); sibling agreement "
           "of the four expiry tests; exactness and shape of the period arithmetic.")
DECIDED = [
    "R-C19-BACKOFF: the value handed to timedelta(seconds=...) by the default policy is non-decreasing in retry_number, >= min_backoff and "
    "<= max_backoff (given multiplier > 0, min_backoff <= max_backoff); every power has an exponent bounded by max_exponent and no timedelta is "
    "built from an unclamped quantity (no overflow)",
    "R-C19-OVERDUE: Parameters, ArgsBucket, ResultBucket and Job decide expiry as `now > timestamp + ttl` (strict), False exactly when ttl is None; the Redis bucket broker "
    "sets the store-side expiry to the absolute time timestamp + ttl (exat), not to a ttl counted from the moment of storing",
    "R-C19-PERIOD: the periodic branch returns anchor + period * ((now - anchor) // period + 1) in exact timedelta/int arithmetic (no float "
    "conversion), i.e. a whole number of periods after the time base with the strict '+ 1'",
    "R-C19-OVERDUE (clock form): all expiry tests read the clock the same way (sibling agreement); R-C19-PERIOD (whole durations): no duration is taken from timedelta.seconds/.microseconds without .days",
    "R-C19-PERIOD (reuse): rounding lattice of C05 and first-run rule of C06 under this property; R-C19-OVERDUE (clock family)",
    "R-C19-OVERDUE (round 6): the message's time base is the job's (C07 mapping reused)",
    "R-C19-AWAITED: in the files this property is anchored in, no bare statement calls a coroutine function (the operation would never run)",
]
NOT_DECIDED = ["the inequality now < next <= now + period as an arithmetic fact over runtime values (follows from the normal form by floor-division "
               "properties; the identity itself is not proven here)", "cron schedules (croniter)"]
ASSUMPTIONS = ["Python int is arbitrary precision; timedelta // timedelta and timedelta * int are exact"]


def run(ctx: Ctx) -> None:
    from .shared import every_operation_awaited

    every_operation_awaited(ctx, "R-C19-AWAITED")  # in the files this property is anchored in, no asynchronous operation is created and dropped
    backoff(ctx)
    overdue_siblings(ctx, "R-C19-OVERDUE")
    from .C07 import mapping

    with ctx.as_rule("R-C19-OVERDUE"):
        mapping(ctx, "R-C19-OVERDUE")  # the message's time base is the job's (timestamp handed over): the expiry test and the period grid of the message are those of the job
    from .shared import clock_family

    clock_family(ctx, "R-C19-OVERDUE")
    from .C13 import redis_bucket_expiry

    redis_bucket_expiry(ctx, "R-C19-OVERDUE")  # the store-side expiry of buckets uses the same timestamp + ttl
    period(ctx)
    from .C05 import rounding
    from .C06 import first_run

    with ctx.as_rule("R-C19-PERIOD"):
        rounding(ctx, "R-C19-PERIOD")  # the computed next execution time is not moved earlier by its conversion for the broker
        first_run(ctx, "R-C19-PERIOD")  # deferred_until, while still ahead, is the next execution time
    from .delay import whole_duration_rule

    whole_duration_rule(ctx, "R-C19-PERIOD")  # schedule arithmetic on whole durations: no delay / period / ttl is reduced to its sub-day remainder


# ----------------------------------------------------------------------------- BACKOFF
class Abs:
    def __init__(self, mono="const", lo=(), hi=(), kind="num"):
        self.mono = mono  # const | nondecr | unknown
        self.lo = frozenset(lo)  # value >= each of these symbols
        self.hi = frozenset(hi)  # value <= each of these symbols
        self.kind = kind  # num | timedelta

    def __repr__(self):
        return f"Abs({self.mono}, >= {sorted(self.lo)}, <= {sorted(self.hi)}, {self.kind})"


def _join_mono(*ms):
    if any(m == "unknown" for m in ms):
        return "unknown"
    return "nondecr" if any(m == "nondecr" for m in ms) else "const"


FACTORY_PARAMS = ("min_backoff", "max_backoff", "multiplier", "max_exponent")
# preconditions of the factory: min_backoff <= max_backoff
LE = {"min_backoff": {"min_backoff", "max_backoff"}, "max_backoff": {"max_backoff"}, "multiplier": {"multiplier"}, "max_exponent": {"max_exponent"}}
GE = {"max_backoff": {"max_backoff", "min_backoff"}, "min_backoff": {"min_backoff"}, "multiplier": {"multiplier"}, "max_exponent": {"max_exponent"}}


class BackoffInterp:
    def __init__(self, ctx: Ctx, inner: FuncInfo, rule: str, env: dict | None = None):
        self.ctx, self.f, self.rule = ctx, inner, rule
        self.problems: list[tuple[str, ast.AST]] = []
        self.pows = 0
        self.env = env or {}

    def ev(self, e: ast.AST, depth=0) -> Abs:
        if depth > 12:
            raise AnalysisError(f"{self.f.qualname}: expression nesting too deep for the back-off interpreter")
        if isinstance(e, ast.Constant) and isinstance(e.value, (int, float)):
            return Abs("const")
        if isinstance(e, ast.Name) and e.id in self.env:
            return self.env[e.id]
        if isinstance(e, ast.Name):
            if e.id == "retry_number":
                return Abs("nondecr")
            if e.id in FACTORY_PARAMS:
                return Abs("const", GE[e.id], LE[e.id])
            defs = C.local_defs(self.f, e.id)
            if len(defs) == 1:
                return self.ev(defs[0], depth + 1)
            # closure variable of the factory (hoisted constants)
            if self.f.parent is not None:
                pdefs = C.local_defs(self.f.parent, e.id)
                if len(pdefs) == 1:
                    sub = BackoffInterp(self.ctx, self.f.parent, self.rule)
                    r = sub.ev(pdefs[0], depth + 1)
                    self.problems += sub.problems
                    return r
            # another parameter of the factory with a positive numeric default (e.g. a configurable base): a positive constant of the policy
            for owner in (self.f, self.f.parent):
                if owner is None or isinstance(owner.node, ast.Lambda):
                    continue
                a_ = owner.node.args
                allp = a_.posonlyargs + a_.args
                dflt = {x.arg: dv for x, dv in zip(allp[len(allp) - len(a_.defaults):], a_.defaults)}
                dflt.update({x.arg: dv for x, dv in zip(a_.kwonlyargs, a_.kw_defaults) if dv is not None})
                dv = dflt.get(e.id)
                if isinstance(dv, ast.Constant) and isinstance(dv.value, (int, float)) and not isinstance(dv.value, bool) and dv.value >= 1:
                    self.ctx.note(f"{self.rule}: factory parameter '{e.id}' (default {dv.value}) is taken as a constant >= 1 of the policy; the property's quantifier names only the original parameters")
                    return Abs("const")
            raise AnalysisError(f"{self.f.qualname}: cannot interpret name '{e.id}' in the back-off expression")
        if isinstance(e, ast.Call):
            d = (dotted(e.func) or "").split(".")[-1]
            if d in ("min", "max") and len(e.args) >= 2 and not e.keywords:
                vs = [self.ev(a, depth + 1) for a in e.args]
                kind = "timedelta" if any(v.kind == "timedelta" for v in vs) else "num"
                mono = _join_mono(*[v.mono for v in vs])
                if d == "min":
                    hi = frozenset().union(*[v.hi for v in vs])
                    lo = frozenset.intersection(*[v.lo for v in vs])
                else:
                    lo = frozenset().union(*[v.lo for v in vs])
                    hi = frozenset.intersection(*[v.hi for v in vs])
                return Abs(mono, lo, hi, kind)
            if d == "timedelta":
                if len(e.keywords) == 1 and e.keywords[0].arg == "seconds" and not e.args:
                    v = self.ev(e.keywords[0].value, depth + 1)
                    if "max_backoff" not in v.hi and not (v.mono == "const"):
                        self.problems.append((f"timedelta(seconds={unparse(e.keywords[0].value)}) is built from a quantity not bounded by max_backoff "
                                              "(overflows timedelta for large retry numbers / exponents)", e))
                    return Abs(v.mono, v.lo, v.hi, "timedelta")
                raise AnalysisError(f"{self.f.qualname}: unsupported timedelta construction {unparse(e)}")
            if d in ("int", "float") and len(e.args) == 1:
                return self.ev(e.args[0], depth + 1)
            # a small pure helper of the same module (`_clamp(value, lower, upper)`): evaluate its single return with the arguments bound
            for cal in self.ctx.res.callees(self.f, e, record=False):
                rets = C.own_returns(cal)
                if cal.cls is None and len(rets) == 1 and rets[0].value is not None and not cal.is_async:
                    binding = C.bind_call(cal, e)
                    sub = BackoffInterp(self.ctx, cal, self.rule, {k: self.ev(v, depth + 1) for k, v in binding.items()})
                    r = sub.ev(rets[0].value, depth + 1)
                    self.problems += sub.problems
                    self.pows += sub.pows
                    return r
            raise AnalysisError(f"{self.f.qualname}: cannot interpret call {unparse(e)[:60]} in the back-off expression")
        if isinstance(e, ast.BinOp):
            if isinstance(e.op, ast.Pow):
                self.pows += 1
                b, x = self.ev(e.left, depth + 1), self.ev(e.right, depth + 1)
                if "max_exponent" not in x.hi and x.mono != "const":
                    self.problems.append((f"the exponent of {unparse(e)} is not bounded by max_exponent: the power grows without limit with the retry number", e))
                if not (isinstance(e.left, ast.Constant) and isinstance(e.left.value, int) and e.left.value >= 1):
                    if b.mono != "const":
                        return Abs("unknown")
                return Abs(_join_mono(b.mono, x.mono))
            if isinstance(e.op, ast.Mult):
                a, b = self.ev(e.left, depth + 1), self.ev(e.right, depth + 1)
                kind = "timedelta" if "timedelta" in (a.kind, b.kind) else "num"
                if kind == "timedelta" and _join_mono(a.mono, b.mono) != "const":
                    self.problems.append((f"{unparse(e)} multiplies a timedelta by a quantity that grows with the retry number before it is clamped: "
                                          "the product overflows timedelta (OverflowError) for large exponents", e))
                return Abs(_join_mono(a.mono, b.mono), (), (), kind)
            if isinstance(e.op, ast.Add):
                a, b = self.ev(e.left, depth + 1), self.ev(e.right, depth + 1)
                return Abs(_join_mono(a.mono, b.mono), (), (), "timedelta" if "timedelta" in (a.kind, b.kind) else "num")
            if isinstance(e.op, (ast.Sub, ast.Div, ast.FloorDiv, ast.Mod)):
                a, b = self.ev(e.left, depth + 1), self.ev(e.right, depth + 1)
                mono = "const" if a.mono == b.mono == "const" else ("nondecr" if b.mono == "const" and a.mono == "nondecr" and not isinstance(e.op, ast.Mod) else "unknown")
                return Abs(mono)
        raise AnalysisError(f"{self.f.qualname}: cannot interpret {unparse(e)[:60]} in the back-off expression")


def backoff(ctx: Ctx, rule="R-C19-BACKOFF") -> None:
    fac = ctx.func("repid.retry_policy.default_retry_policy_factory")
    ctx.require(len(fac.nested) == 1, f"{fac.qualname}: expected exactly one nested policy function")
    inner = list(fac.nested.values())[0]
    params = [p.arg for p in fac.params()]
    ctx.check(all(p in params for p in FACTORY_PARAMS), rule, fac, "factory parameters", "min_backoff, max_backoff, multiplier, max_exponent",
              f"default_retry_policy_factory parameters are {params}", instance="factory parameters")
    rets = [n for n in ast.walk(inner.node) if isinstance(n, ast.Return)]
    frets = [n for n in ast.walk(fac.node) if isinstance(n, ast.Return) and not any(n is x for x in ast.walk(inner.node))]
    ctx.check(len(frets) == 1 and dotted(frets[0].value) == inner.name, rule, fac, "factory returns the policy closure", "returns inner", "the factory does not return its policy function",
              instance="factory returns policy")
    ctx.require(len(rets) >= 1, f"{inner.qualname}: no return")
    for r in rets:
        it = BackoffInterp(ctx, inner, rule)
        v = it.ev(r.value)
        ctx.check(v.kind == "timedelta", rule, inner, f"policy returns a timedelta: {unparse(r.value)[:60]}", "timedelta", "the default policy does not return a timedelta", node=r,
                  instance="returns timedelta")
        ctx.check(v.mono in ("nondecr", "const"), rule, inner, "back-off non-decreasing in retry_number", f"{v.mono}",
                  f"the default back-off {unparse(r.value)[:80]} is not provably non-decreasing in retry_number", node=r, instance="monotone")
        ctx.check("min_backoff" in v.lo, rule, inner, "back-off >= min_backoff", "lower clamp on the outermost level",
                  f"the default back-off {unparse(r.value)[:80]} is not clamped from below by min_backoff", node=r, instance="lower clamp")
        ctx.check("max_backoff" in v.hi, rule, inner, "back-off <= max_backoff", "upper clamp effective on the result",
                  f"the default back-off {unparse(r.value)[:80]} can exceed max_backoff (upper clamp missing or applied before a later increase)", node=r, instance="upper clamp")
        for msg, node in it.problems:
            ctx.fail(rule, inner, unparse(node)[:100], "default back-off: " + msg, node=node, instance="no unbounded intermediate")
        if not it.problems:
            ctx.ok(rule, "no unbounded intermediate", f"{it.pows} power(s), all exponents bounded by max_exponent; no timedelta built from an unclamped value")
    # the policy is what the router defaults to
    rd = ctx.prog.cls("repid.router.RouterDefaults")
    v = rd.attrs.get("retry_policy")
    ctx.check(v is not None and "default_retry_policy_factory" in unparse(v), rule, rd.qualname, "RouterDefaults.retry_policy defaults to the exponential policy", "default factory",
              "RouterDefaults.retry_policy no longer defaults to default_retry_policy_factory", instance="router default policy")


# ----------------------------------------------------------------------------- OVERDUE siblings
OVERDUE = ("repid.data._parameters.Parameters.is_overdue", "repid.data._buckets.ArgsBucket.is_overdue", "repid.data._buckets.ResultBucket.is_overdue",
           "repid.job.Job.is_overdue")


def overdue_siblings(ctx: Ctx, rule: str) -> None:
    now_forms: dict[str, list] = {}
    n = 0
    for q in OVERDUE:
        f = ctx.func(q)
        n += 1
        # a shared module-level helper (`_ttl_expired(self.timestamp, self.ttl)`) is read in the caller's terms
        g = ctx.icfg(f, substitute=True)
        inlined_calls = {id(c.ast) for c in g.nodes if c.kind == "call" and c.meta.get("inlined")}
        tests = [t for t in g.nodes if t.kind == "test" and not t.meta.get("assert")]  # a debug assertion re-states, it does not decide
        t0 = C.inline_locals(tests[0].func, tests[0].ast) if len(tests) == 1 else None
        ok = len(tests) == 1 and isinstance(t0, ast.Compare) and isinstance(t0.ops[0], (ast.Is, ast.IsNot)) \
            and dotted(t0.left) == "self.ttl" and C.is_const(t0.comparators[0], None)
        ctx.check(ok, rule, f, f"{f.short()}: 'no ttl' decided by `self.ttl is None`", "identity test (a zero ttl is a ttl)",
                  f"{f.short()} decides 'no time-to-live' with {[t.label for t in tests]} instead of `self.ttl is None`: e.g. a zero timedelta is falsy and would never expire",
                  instance=f"{f.short()}: ttl None test")
        rets = [r for r in g.nodes if r.kind == "return" and not (isinstance(r.ast.value, ast.Call) and id(r.ast.value) in inlined_calls)]

        def env(none):
            def fn(text, node):
                if isinstance(node, ast.Compare) and isinstance(node.ops[0], ast.Is) and dotted(node.left) == "self.ttl":
                    return none
                if dotted(node) == "self.ttl":
                    return not none
                return None
            return {"*ttl": fn}

        r = flow.reach_under(g, env(True), flow.NORMAL_KINDS)
        got = [x for x in rets if x.id in r]
        ctx.check(len(got) == 1 and C.is_const(got[0].ast.value, False), rule, f, f"{f.short()}: ttl None -> False", "never overdue without ttl",
                  f"{f.short()} with ttl None returns {[unparse(x.ast.value) for x in got]}", instance=f"{f.short()}: no ttl")
        r = flow.reach_under(g, env(False), flow.NORMAL_KINDS)
        got = [x for x in rets if x.id in r]
        ok = False
        why = ""
        gv = C.inline_locals(got[0].func, got[0].ast.value) if len(got) == 1 else None
        if len(got) == 1 and isinstance(gv, ast.Compare) and len(gv.ops) == 1:
            c = gv
            l, rr, op = c.left, c.comparators[0], c.ops[0]
            if isinstance(op, ast.Lt):
                l, rr, op = rr, l, ast.Gt()
            is_now = isinstance(l, ast.Call) and (dotted(l.func) or "").endswith("datetime.now")
            tz = is_now and (not l.keywords and not l.args or (dotted(C.kw(l, "tz") or (l.args[0] if l.args else None)) == "self.timestamp.tzinfo"))
            is_sum = isinstance(rr, ast.BinOp) and isinstance(rr.op, ast.Add) and {dotted(rr.left), dotted(rr.right)} == {"self.timestamp", "self.ttl"}
            ok = isinstance(op, ast.Gt) and is_now and is_sum and bool(tz)
            why = f"{unparse(c)}"
            if is_now:
                now_forms.setdefault(unparse(l), []).append(f)
        else:
            why = str([unparse(x.ast.value) for x in got])
        ctx.check(ok, rule, f, f"{f.short()}: overdue iff now > timestamp + ttl", "strict comparison against timestamp + ttl",
                  f"{f.short()} decides expiry with `{why}` instead of `now > self.timestamp + self.ttl` (boundary or operands changed: a live message is dropped "
                  "or an expired one is executed)", instance=f"{f.short()}: comparison")
    ctx.floor(rule, n, 4, "is_overdue siblings")
    # the siblings must read the clock the same way: an aware timestamp compared with a naive now() raises TypeError in one place and works in the others
    if len(now_forms) > 1:
        major = max(now_forms, key=lambda k: len(now_forms[k]))
        for form, fs in now_forms.items():
            if form != major:
                for f_ in fs:
                    ctx.fail(rule, f_, f"clock read as {form} (siblings: {major})",
                             f"{f_.short()} reads the current time as `{form}` while the other expiry tests use `{major}`: with timezone-aware timestamps one of the forms raises "
                             "TypeError (naive vs aware) - 'expiry is decided alike for messages, jobs and buckets' no longer holds", instance=f"{f_.short()}: clock form")
    else:
        ctx.ok(rule, "all expiry tests read the clock the same way", f"{list(now_forms)}")


# ----------------------------------------------------------------------------- PERIOD
def _same(a: ast.AST, b: ast.AST) -> bool:
    return ast.dump(a) == ast.dump(b)


def _match_comm(e, op, pa, pb):
    if isinstance(e, ast.BinOp) and isinstance(e.op, op):
        if pa(e.left) and pb(e.right):
            return True
        if pa(e.right) and pb(e.left):
            return True
    return False


def period(ctx: Ctx, rule="R-C19-PERIOD") -> None:
    f = ctx.func(f"{C.PARAMS}.compute_next_execution_time")
    # statements of the defer_by branch
    branch = None
    for n in ast.walk(f.node):
        if isinstance(n, ast.If) and _mentions(n.test, "defer_by") and not _mentions(n.test, "delay_until"):
            branch = n
    ctx.require(branch is not None, f"{f.qualname}: defer_by branch not found")
    floats = [x for st in branch.body for x in ast.walk(st) if (isinstance(x, ast.Call) and ((dotted(x.func) or "").endswith("total_seconds") or dotted(x.func) in ("float", "round")))
              or (isinstance(x, ast.BinOp) and isinstance(x.op, ast.Div)) or (isinstance(x, ast.Attribute) and x.attr in ("seconds", "microseconds", "days"))]
    ctx.check(not floats, rule, f, "period arithmetic stays in exact timedelta/int arithmetic", "no float conversion",
              f"compute_next_execution_time converts to floats / truncated fields ({[unparse(x)[:40] for x in floats[:3]]}): floor division of floats is off by one for "
              "fractional periods when now lies exactly on a period boundary (next == now)", node=floats[0] if floats else None, instance="exact arithmetic")
    rets = [x for st in branch.body for x in ast.walk(st) if isinstance(x, ast.Return)]
    ctx.require(len(rets) == 1, f"{f.qualname}: defer_by branch must have exactly one return")

    class Scope:  # expand locals once
        pass

    def expand(e: ast.AST, depth=0) -> ast.AST:
        if isinstance(e, ast.Name) and depth < 16:
            defs = C.local_defs(f, e.id)
            if len(defs) == 1:
                return expand(defs[0], depth + 1)
        if isinstance(e, ast.BinOp):
            return ast.BinOp(left=expand(e.left, depth + 1), op=e.op, right=expand(e.right, depth + 1))
        return e

    e = expand(rets[0].value)
    is_anchor = lambda x: dotted(x) == "self.timestamp"
    is_period = lambda x: dotted(x) == "self.delay.defer_by"
    is_now = lambda x: isinstance(x, ast.Call) and (dotted(x.func) or "").endswith("datetime.now") and not x.args and not x.keywords

    def is_elapsed(x):
        return isinstance(x, ast.BinOp) and isinstance(x.op, ast.Sub) and is_now(x.left) and is_anchor(x.right)

    def is_floor(x):
        return isinstance(x, ast.BinOp) and isinstance(x.op, ast.FloorDiv) and is_elapsed(x.left) and is_period(x.right)

    def is_k(x):
        return _match_comm(x, ast.Add, is_floor, lambda c: C.is_const(c, 1))

    def is_offset(x):
        return _match_comm(x, ast.Mult, is_period, is_k)

    ok = _match_comm(e, ast.Add, is_anchor, is_offset)
    ctx.check(ok, rule, f, "next = timestamp + defer_by * ((now - timestamp) // defer_by + 1)", "whole number of periods after the time base, strictly after now",
              f"the periodic branch of compute_next_execution_time returns {unparse(e)[:140]}, which is not timestamp + defer_by * ((now - timestamp) // defer_by + 1)",
              node=rets[0], instance="period normal form")
    # `now` is read once (the same instant in the test against delay_until and in the period arithmetic)
    nows = [x for x in ast.walk(f.node) if isinstance(x, ast.Call) and (dotted(x.func) or "").endswith("datetime.now")]
    ctx.check(len(nows) == 1, rule, f, "a single reading of the clock", "one `now` for the whole computation", f"compute_next_execution_time reads the clock {len(nows)} times", instance="single now")
