"""Program model: modules, classes, functions of /repo/repid, parsed with ast (never imported)."""
from __future__ import annotations

import ast
import hashlib
import os
from dataclasses import dataclass, field
from typing import Iterator

REPO = os.environ.get("REPID_REPO", "/repo")
PKG = "repid"


def unroll_literal_tables(tree: ast.AST, max_rows: int = 8) -> list[int]:
    """Normalisation: a `for` over a literal table (tuple/list of rows written in the function, possibly through one local) whose body neither
    breaks nor continues is replaced by one copy of the body per row with the loop variables substituted - so a table-driven dispatch
    (`for category, getter in ((NORMAL, self.a), (DELAYED, self.b)): if self.category == category: return await getter(p)`) reads like the
    if-ladder it stands for. Returns the line numbers of the loops that were unrolled."""
    import copy

    done: list[int] = []

    def literal_rows(fn: ast.AST, it: ast.expr):
        if isinstance(it, ast.Name):
            defs = [a for a in ast.walk(fn) if (isinstance(a, ast.Assign) and any(isinstance(t, ast.Name) and t.id == it.id for t in a.targets))
                    or (isinstance(a, ast.AnnAssign) and isinstance(a.target, ast.Name) and a.target.id == it.id and a.value is not None)]
            other = [a for a in ast.walk(fn) if isinstance(a, (ast.AugAssign, ast.NamedExpr)) and isinstance(a.target, ast.Name) and a.target.id == it.id]
            if len(defs) != 1 or other or it.id in [p.arg for p in getattr(fn, "args", ast.arguments(posonlyargs=[], args=[], kwonlyargs=[], kw_defaults=[], defaults=[])).args]:
                return None
            it = defs[0].value
        if isinstance(it, (ast.Tuple, ast.List)) and 1 <= len(it.elts) <= max_rows and not any(isinstance(e, ast.Starred) for e in it.elts):
            return list(it.elts)
        return None

    def loop_jumps(body) -> bool:
        todo = list(body)
        while todo:
            st = todo.pop()
            if isinstance(st, (ast.Break, ast.Continue)):
                return True
            if isinstance(st, (ast.For, ast.AsyncFor, ast.While, ast.FunctionDef, ast.AsyncFunctionDef, ast.ClassDef)):
                if isinstance(st, (ast.FunctionDef, ast.AsyncFunctionDef, ast.ClassDef)):
                    return True  # nested definitions are not duplicated
                todo.extend(st.orelse)
                continue
            for fld in ("body", "orelse", "finalbody"):
                todo.extend(x for x in getattr(st, fld, []) or [] if isinstance(x, ast.stmt))
            for h in getattr(st, "handlers", []) or []:
                todo.extend(h.body)
        return False

    class Subst(ast.NodeTransformer):
        def __init__(self, binding):
            self.b = binding

        def visit_Name(self, node):
            if isinstance(node.ctx, ast.Load) and node.id in self.b:
                return copy.deepcopy(self.b[node.id])
            return node

    def unroll_in(fn: ast.AST) -> None:
        class T(ast.NodeTransformer):
            def visit_FunctionDef(self, node):
                return node  # nested functions are handled on their own

            visit_AsyncFunctionDef = visit_FunctionDef
            visit_Lambda = visit_FunctionDef

            def visit_For(self, node):
                self.generic_visit(node)
                rows = literal_rows(fn, node.iter)
                if rows is None or node.orelse or loop_jumps(node.body):
                    return node
                tgt = node.target
                names = [tgt.id] if isinstance(tgt, ast.Name) else ([e.id for e in tgt.elts] if isinstance(tgt, (ast.Tuple, ast.List)) and all(isinstance(e, ast.Name) for e in tgt.elts) else None)
                if names is None:
                    return node
                stored = {x.id for st in node.body for x in ast.walk(st) if isinstance(x, ast.Name) and isinstance(x.ctx, (ast.Store, ast.Del))}
                if stored & set(names):
                    return node
                out = []
                for row in rows:
                    if isinstance(tgt, ast.Name):
                        binding = {tgt.id: row}
                    else:
                        if not isinstance(row, (ast.Tuple, ast.List)) or len(row.elts) != len(names):
                            return node
                        binding = dict(zip(names, row.elts))
                    if not all(isinstance(v, (ast.Name, ast.Attribute, ast.Constant)) for v in binding.values()):
                        return node  # only side-effect free cells are copied into the body
                    for st in node.body:
                        out.append(Subst(binding).visit(copy.deepcopy(st)))
                done.append(node.lineno)
                return out

        fn.body = [x for st in fn.body for x in (lambda r: r if isinstance(r, list) else [r])(T().visit(st))]

    for fn in [n for n in ast.walk(tree) if isinstance(n, (ast.FunctionDef, ast.AsyncFunctionDef))]:
        unroll_in(fn)
    if done:
        ast.fix_missing_locations(tree)
    return done


class AnalysisError(Exception):
    """The analysis itself cannot proceed (vanished anchor, unsupported syntax, ...). Exit code 2."""


def dotted(expr: ast.AST) -> str | None:
    """`a.b.c` -> 'a.b.c' for Name/Attribute chains, else None."""
    parts: list[str] = []
    while isinstance(expr, ast.Attribute):
        parts.append(expr.attr)
        expr = expr.value
    if isinstance(expr, ast.Name):
        parts.append(expr.id)
        return ".".join(reversed(parts))
    return None


def unparse(node: ast.AST | None) -> str:
    if node is None:
        return ""
    try:
        return ast.unparse(node)
    except Exception:  # pragma: no cover
        return f"<{type(node).__name__}>"


@dataclass
class FuncInfo:
    qualname: str  # repid.mod.Class.func  /  repid.mod.func.<locals>.inner
    name: str
    node: ast.FunctionDef | ast.AsyncFunctionDef | ast.Lambda
    module: "ModuleInfo"
    cls: "ClassInfo | None"
    parent: "FuncInfo | None" = None
    nested: dict[str, "FuncInfo"] = field(default_factory=dict)

    @property
    def is_async(self) -> bool:
        return isinstance(self.node, ast.AsyncFunctionDef)

    @property
    def decorators(self) -> list[str]:
        if isinstance(self.node, ast.Lambda):
            return []
        return [unparse(d) for d in self.node.decorator_list]

    @property
    def lineno(self) -> int:
        return self.node.lineno

    @property
    def relpath(self) -> str:
        return self.module.relpath

    def params(self) -> list[ast.arg]:
        a = self.node.args
        out = list(a.posonlyargs) + list(a.args)
        if a.vararg:
            out.append(a.vararg)
        out += list(a.kwonlyargs)
        if a.kwarg:
            out.append(a.kwarg)
        return out

    def loc(self, node: ast.AST | None = None) -> str:
        line = getattr(node, "lineno", None) if node is not None else self.lineno
        return f"{self.relpath}:{line}"

    def short(self) -> str:
        return self.qualname[len(PKG) + 1:] if self.qualname.startswith(PKG + ".") else self.qualname


@dataclass
class ClassInfo:
    qualname: str
    name: str
    node: ast.ClassDef
    module: "ModuleInfo"
    base_exprs: list[str]
    bases: list[str] = field(default_factory=list)  # resolved qualnames (repid) or dotted externals
    methods: dict[str, FuncInfo] = field(default_factory=dict)
    # class-body assignments  name -> value expr ; annotations name -> annotation expr
    attrs: dict[str, ast.expr] = field(default_factory=dict)
    annotations: dict[str, ast.expr] = field(default_factory=dict)

    def mangle(self, name: str) -> str:
        if name.startswith("__") and not name.endswith("__"):
            return f"_{self.name.lstrip('_')}{name}"
        return name


@dataclass
class ModuleInfo:
    name: str
    path: str
    relpath: str
    src: str
    tree: ast.Module
    imports: dict[str, str] = field(default_factory=dict)  # local alias -> dotted target
    classes: dict[str, ClassInfo] = field(default_factory=dict)
    functions: dict[str, FuncInfo] = field(default_factory=dict)
    assigns: dict[str, ast.expr] = field(default_factory=dict)  # module-level NAME = expr
    is_package: bool = False


# classes the rules anchor in: simple name -> module they are expected in (a class moved elsewhere in the package is found by its unique simple name)
ANCHOR_CLASSES = {
    "MessageBrokerT": "repid.connections.abc", "ConsumerT": "repid.connections.abc", "BucketBrokerT": "repid.connections.abc", "_WrappedABC": "repid.connections.abc",
    "InMemoryMessageBroker": "repid.connections.in_memory.message_broker", "_InMemoryConsumer": "repid.connections.in_memory.consumer",
    "InMemoryBucketBroker": "repid.connections.in_memory.bucket_broker", "DummyQueue": "repid.connections.in_memory.utils",
    "RedisMessageBroker": "repid.connections.redis.message_broker", "_RedisConsumer": "repid.connections.redis.consumer", "RedisBucketBroker": "repid.connections.redis.bucket_broker",
    "RabbitMessageBroker": "repid.connections.rabbitmq.message_broker", "_RabbitConsumer": "repid.connections.rabbitmq.consumer",
    "MessageDependency": "repid.dependencies.message_dependency", "Depends": "repid.dependencies.depends", "Parameters": "repid.data._parameters",
    "_Processor": "repid._processor", "_Runner": "repid._runner", "Worker": "repid.worker", "Router": "repid.router", "Job": "repid.job", "Queue": "repid.queue",
    "Connection": "repid.connection", "BasicConverter": "repid.converter", "PydanticConverter": "repid.converter", "PydanticV1Converter": "repid.converter",
    "DefaultConverter": "repid.converter", "_middleware_wrapper": "repid.middlewares.wrapper", "Middleware": "repid.middlewares.middleware",
    "HealthCheckServer": "repid.health_check_server", "_HttpServerProtocol": "repid.health_check_server", "HealthCheckStatus": "repid.health_check_server",
    "RoutingKey": "repid.data._key", "ArgsBucket": "repid.data._buckets", "ResultBucket": "repid.data._buckets", "_ArgsBucketInMessageId": "repid._utils.args_bucket_in_message_id",
    "_RepidJSONEncoder": "repid._utils.json_encoder", "_NoAction": "repid._utils.internal_exceptions",
    "DelayProperties": "repid.data._parameters", "RetriesProperties": "repid.data._parameters", "ResultProperties": "repid.data._parameters", "RouterDefaults": "repid.router",
    "MessageCategory": "repid.message", "PrioritiesT": "repid.data.priorities", "ActorData": "repid.actor", "ActorResult": "repid.actor", "Config": "repid.config",
    "DependencyKind": "repid.dependencies.protocols",
}


# module-level functions the rules anchor in (canonical qualified names); one that was moved to another module of the same package is found by its name there
ANCHOR_FUNCS = [
    "repid.connections.redis.utils.qnc", "repid.connections.redis.utils.mnc", "repid.connections.redis.utils.parse_message_name", "repid.connections.redis.utils.parse_short_message_name",
    "repid.connections.redis.utils.full_message_name_from_short", "repid.connections.redis.utils.get_queue_marker", "repid.connections.redis.utils.wait_timestamp",
    "repid.connections.redis.utils.unix_time", "repid.connections.redis.utils.get_priorities_order", "repid.connections.rabbitmq.utils.qnc", "repid.connections.rabbitmq.utils.wait_until",
    "repid.connections.in_memory.utils.wait_until", "repid._asyncify.asyncify", "repid.serializer.default_serializer", "repid.retry_policy.default_retry_policy_factory",
    "repid._utils.get_dependency.get_dependency",
]


class Program:
    def __init__(self, repo: str = REPO) -> None:
        self.repo = repo
        self.modules: dict[str, ModuleInfo] = {}
        self.unrolled: list[str] = []
        self.shielded: list[tuple[str, int, str]] = []  # (file, line, inner call) of every asyncio.shield(...) read as its inner call
        self._reloc: dict[str, str] = {}
        self.relocated: dict[str, str] = {}
        self.flattened: list[str] = []
        self.inlined_helpers: list[str] = []
        self.partial_closures: list[str] = []
        self.classes: dict[str, ClassInfo] = {}
        self.functions: dict[str, FuncInfo] = {}
        self._subclasses: dict[str, list[str]] = {}
        self._load()

    # ------------------------------------------------------------------ loading
    def _load(self) -> None:
        root = os.path.join(self.repo, PKG)
        if not os.path.isdir(root):
            raise AnalysisError(f"package directory {root} not found")
        for dirpath, dirnames, filenames in os.walk(root):
            dirnames[:] = sorted(d for d in dirnames if d != "__pycache__")
            for fn in sorted(filenames):
                if not fn.endswith(".py"):
                    continue
                path = os.path.join(dirpath, fn)
                rel = os.path.relpath(path, self.repo)
                modname = rel[:-3].replace(os.sep, ".")
                is_pkg = False
                if modname.endswith(".__init__"):
                    modname = modname[: -len(".__init__")]
                    is_pkg = True
                with open(path, encoding="utf-8") as fh:
                    src = fh.read()
                try:
                    tree = ast.parse(src, filename=path)
                    compile(src, path, "exec", dont_inherit=True)
                except SyntaxError as exc:
                    raise AnalysisError(f"{rel}: does not compile: {exc}") from exc
                unrolled = unroll_literal_tables(tree)
                for ln, txt in see_through_shield(tree):
                    self.shielded.append((rel, ln, txt))
                normalise_augassign(tree)
                normalise_get_default(tree)
                split_annassign(tree)
                self.modules[modname] = ModuleInfo(modname, path, rel, src, tree, is_package=is_pkg)
                if unrolled:
                    self.unrolled.extend(f"{rel}:{ln}" for ln in unrolled)
        for m in self.modules.values():
            self._index_module(m)
        # anchor classes that were moved to another module of the package are indexed under their canonical qualified name (the rules name them by it)
        relocs: dict[str, str] = {}
        for name, cmod in ANCHOR_CLASSES.items():
            if f"{cmod}.{name}" in self.classes:
                continue
            cands = [c for c in self.classes.values() if c.name == name and c.qualname == f"{c.module.name}.{name}"]
            if len(cands) == 1:
                relocs[cands[0].qualname] = cmod
        for canon in ANCHOR_FUNCS:
            if canon in self.functions:
                continue
            cmod, name = canon.rsplit(".", 1)
            pkg = cmod.rsplit(".", 1)[0]
            cands = [f for f in self.functions.values() if f.name == name and f.cls is None and f.parent is None and f.qualname == f"{f.module.name}.{name}"
                     and (f.module.name == pkg or f.module.name.startswith(pkg + "."))]
            if len(cands) == 1:
                relocs[cands[0].qualname] = cmod
        if relocs:
            self.relocated = {k: f"{v}.{k.rsplit('.', 1)[1]}" for k, v in relocs.items()}
            self._reloc = relocs
            self.classes.clear()
            self.functions.clear()
            for m in self.modules.values():
                m.classes.clear()
                m.functions.clear()
                m.assigns.clear()
                m.imports.clear()
                self._index_module(m)
        self._link_classes()
        # anchors renamed or turned into module-level functions get their canonical place back first (so that they are not mistaken for new helpers)
        self._needs_reindex = False
        self.renamed_roles = canonicalise_private_helpers(self)
        if self._needs_reindex:
            self._reindex()
        # structure normalisations: inherited-from-private-base methods, then newly extracted private helpers inlined back (needs a re-index: the ASTs change)
        self.flattened = flatten_private_bases(self)
        self.inlined_helpers = []
        self.partial_closures = closures_from_partials(self)
        if self.partial_closures:
            self._reindex()
            self.flattened = flatten_private_bases(self)
        for _ in range(3):
            got = inline_new_private_helpers(self)
            if not got:
                break
            self.inlined_helpers += got
            self._reindex()
            self.flattened = flatten_private_bases(self)
        self._drop_dead_helpers()

    def _drop_dead_helpers(self) -> None:
        """A newly extracted helper whose every call was read as its body is dead for the analysis: its left-over definition is not a second place where the
        inlined statements 'also' happen (who-may-touch rules would otherwise see them twice)."""
        inlined = {x.split(" <- ")[1] for x in self.inlined_helpers}
        if not inlined:
            return
        refs: dict[str, int] = {}
        for m in self.modules.values():
            for n in ast.walk(m.tree):
                if isinstance(n, ast.Attribute) and n.attr in inlined and isinstance(n.ctx, ast.Load):
                    refs[n.attr] = refs.get(n.attr, 0) + 1
                elif isinstance(n, ast.Name) and n.id in inlined and isinstance(n.ctx, ast.Load):
                    refs[n.id] = refs.get(n.id, 0) + 1
        dead = {h for h in inlined if refs.get(h, 0) == 0}
        if not dead:
            return
        for q in [q for q, f in self.functions.items() if (f.name in dead and f.parent is None) or (f.parent is not None and self._top(f).name in dead)]:
            del self.functions[q]
        for c in self.classes.values():
            for name in [n for n in c.methods if n in dead]:
                del c.methods[name]
        for m in self.modules.values():
            for name in [n for n in m.functions if n in dead]:
                del m.functions[name]
        self.dropped_helpers = sorted(dead)

    @staticmethod
    def _top(f: "FuncInfo") -> "FuncInfo":
        while f.parent is not None:
            f = f.parent
        return f

    def _link_classes(self) -> None:
        self._subclasses = {}
        for c in self.classes.values():
            c.bases = [self.resolve_name(c.module, b) or b for b in c.base_exprs]
        for c in self.classes.values():
            for b in c.bases:
                self._subclasses.setdefault(b, []).append(c.qualname)

    def _reindex(self) -> None:
        self.classes.clear()
        self.functions.clear()
        for m in self.modules.values():
            m.classes.clear()
            m.functions.clear()
            m.assigns.clear()
            m.imports.clear()
            self._index_module(m)
        self._link_classes()

    def digest(self) -> str:
        h = hashlib.sha256()
        for name in sorted(self.modules):
            h.update(name.encode())
            h.update(self.modules[name].src.encode())
        return h.hexdigest()[:16]

    def _index_module(self, m: ModuleInfo) -> None:
        def handle_import(node: ast.AST) -> None:
            if isinstance(node, ast.Import):
                for a in node.names:
                    m.imports[a.asname or a.name.split(".")[0]] = a.name if a.asname else a.name.split(".")[0]
            elif isinstance(node, ast.ImportFrom):
                if node.level:
                    base = m.name.split(".")
                    if not m.is_package:
                        base = base[:-1]
                    if node.level > 1:
                        base = base[: len(base) - (node.level - 1)]
                    mod = ".".join(base + ([node.module] if node.module else []))
                else:
                    mod = node.module or ""
                for a in node.names:
                    m.imports[a.asname or a.name] = f"{mod}.{a.name}"

        def walk_toplevel(body: list[ast.stmt]) -> None:
            for st in body:
                if isinstance(st, (ast.Import, ast.ImportFrom)):
                    handle_import(st)
                elif isinstance(st, ast.If):
                    walk_toplevel(st.body)
                    walk_toplevel(st.orelse)
                elif isinstance(st, ast.Try):
                    walk_toplevel(st.body)
                    for h in st.handlers:
                        walk_toplevel(h.body)
                    walk_toplevel(st.orelse)
                elif isinstance(st, ast.ClassDef):
                    self._index_class(m, st, prefix=self._reloc.get(f"{m.name}.{st.name}", m.name))
                elif isinstance(st, (ast.FunctionDef, ast.AsyncFunctionDef)):
                    fi = self._index_function(m, st, None, None, f"{self._reloc.get(f'{m.name}.{st.name}', m.name)}.{st.name}")
                    # keep the last definition (overloads precede the implementation)
                    m.functions[st.name] = fi
                elif isinstance(st, ast.Assign):
                    for t in st.targets:
                        if isinstance(t, ast.Name):
                            m.assigns[t.id] = st.value
                elif isinstance(st, ast.AnnAssign) and isinstance(st.target, ast.Name) and st.value is not None:
                    m.assigns[st.target.id] = st.value

        walk_toplevel(m.tree.body)

    def _index_class(self, m: ModuleInfo, node: ast.ClassDef, prefix: str) -> ClassInfo:
        qn = f"{prefix}.{node.name}"
        ci = ClassInfo(qn, node.name, node, m, [unparse(b) for b in node.bases])
        self.classes[qn] = ci
        m.classes[node.name] = ci
        for st in node.body:
            if isinstance(st, (ast.FunctionDef, ast.AsyncFunctionDef)):
                fi = self._index_function(m, st, ci, None, f"{qn}.{st.name}")
                # property setter shares the name: keep getter under name, setter under name.setter
                decos = [unparse(d) for d in st.decorator_list]
                if any(d.endswith(".setter") for d in decos):
                    ci.methods[st.name + ".setter"] = fi
                else:
                    ci.methods[st.name] = fi
            elif isinstance(st, ast.Assign):
                for t in st.targets:
                    if isinstance(t, ast.Name):
                        ci.attrs[t.id] = st.value
            elif isinstance(st, ast.AnnAssign) and isinstance(st.target, ast.Name):
                ci.annotations[st.target.id] = st.annotation
                if st.value is not None:
                    ci.attrs[st.target.id] = st.value
            elif isinstance(st, ast.ClassDef):
                self._index_class(m, st, prefix=qn)
        return ci

    def _index_function(self, m, node, cls, parent, qualname) -> FuncInfo:
        fi = FuncInfo(qualname, getattr(node, "name", "<lambda>"), node, m, cls, parent)
        # several definitions with the same qualname (overloads, property setter): last wins, setter separate
        key = qualname
        if not isinstance(node, ast.Lambda) and any(unparse(d).endswith(".setter") for d in node.decorator_list):
            key = qualname + ".setter"
            fi.qualname = key
        self.functions[key] = fi
        body = node.body if isinstance(node.body, list) else [node.body]
        for sub in _iter_nested_defs(body):
            if isinstance(sub, (ast.FunctionDef, ast.AsyncFunctionDef)):
                # several nested defs of the same name in different branches (redis fetcher): number them
                k = sub.name
                i = 1
                while k in fi.nested:
                    i += 1
                    k = f"{sub.name}#{i}"
                nfi = self._index_function(m, sub, cls, fi, f"{qualname}.<locals>.{k}")
                fi.nested[k] = nfi
            elif isinstance(sub, ast.ClassDef):
                self._index_class(m, sub, prefix=f"{qualname}.<locals>")
        return fi

    # ------------------------------------------------------------------ lookup
    def func(self, qualname: str) -> FuncInfo:
        f = self.functions.get(qualname)
        if f is None:
            raise AnalysisError(f"anchor vanished: function {qualname} not found in {self.repo}")
        return f

    def cls(self, qualname: str) -> ClassInfo:
        c = self.classes.get(qualname)
        if c is None:
            raise AnalysisError(f"anchor vanished: class {qualname} not found in {self.repo}")
        return c

    def module(self, name: str) -> ModuleInfo:
        m = self.modules.get(name)
        if m is None:
            raise AnalysisError(f"anchor vanished: module {name} not found in {self.repo}")
        return m

    def resolve_name(self, m: ModuleInfo, name: str, _depth: int = 0) -> str | None:
        """Resolve a (dotted) name used in module m to a class/function qualname, following re-exports."""
        if _depth > 8:
            return None
        head, _, rest = name.partition(".")
        if head in m.classes:
            q = m.classes[head].qualname
            return q if not rest else f"{q}.{rest}"
        if head in m.functions and not rest:
            return m.functions[head].qualname
        if head in m.imports:
            target = m.imports[head]
            full = target if not rest else f"{target}.{rest}"
            return self._resolve_dotted(full, _depth + 1)
        return None

    def _resolve_dotted(self, full: str, _depth: int = 0) -> str | None:
        for old_q, new_q in self.relocated.items():
            if full == old_q or full.startswith(old_q + "."):
                full = new_q + full[len(old_q):]
        if full in self.classes or full in self.functions:
            return full
        # split into module + attr path
        parts = full.split(".")
        for i in range(len(parts), 0, -1):
            modname = ".".join(parts[:i])
            if modname in self.modules:
                rest = ".".join(parts[i:])
                if not rest:
                    return modname
                r = self.resolve_name(self.modules[modname], rest, _depth + 1)
                if r is not None:
                    return r
                return None
        return full  # external

    def mro(self, qualname: str) -> list[ClassInfo]:
        """Linearised (DFS, left-to-right, dedup) list of repid classes; good enough for single inheritance."""
        out: list[ClassInfo] = []
        seen: set[str] = set()

        def rec(q: str) -> None:
            if q in seen or q not in self.classes:
                return
            seen.add(q)
            out.append(self.classes[q])
            for b in self.classes[q].bases:
                rec(b)

        rec(qualname)
        return out

    def subclasses(self, qualname: str, transitive: bool = True) -> list[ClassInfo]:
        out: list[ClassInfo] = []
        todo = list(self._subclasses.get(qualname, []))
        seen = set()
        while todo:
            q = todo.pop(0)
            if q in seen:
                continue
            seen.add(q)
            out.append(self.classes[q])
            if transitive:
                todo += self._subclasses.get(q, [])
        return out

    def find_method(self, cls_qualname: str, name: str) -> FuncInfo | None:
        for c in self.mro(cls_qualname):
            mname = name
            if mname in c.methods:
                return c.methods[mname]
        return None

    def external_bases(self, qualname: str) -> list[str]:
        out = []
        for c in self.mro(qualname):
            for b in c.bases:
                if b not in self.classes:
                    out.append(b)
        return out

    def is_subclass_of(self, qualname: str, base_suffix: str) -> bool:
        for c in self.mro(qualname):
            if c.qualname == base_suffix or c.qualname.endswith("." + base_suffix):
                return True
            for b in c.bases:
                if b == base_suffix or b.endswith("." + base_suffix) or b.split(".")[-1] == base_suffix:
                    return True
        return False

    def iter_functions(self) -> Iterator[FuncInfo]:
        seen = set()
        for f in self.functions.values():
            if id(f) not in seen:
                seen.add(id(f))
                yield f


def _iter_nested_defs(body: list) -> Iterator[ast.AST]:
    """Function/class definitions nested anywhere in the statements of body (not inside other defs)."""
    todo = list(body)
    while todo:
        n = todo.pop(0)
        if isinstance(n, (ast.FunctionDef, ast.AsyncFunctionDef, ast.ClassDef)):
            yield n
            continue
        if isinstance(n, ast.Lambda):
            continue
        for ch in ast.iter_child_nodes(n):
            todo.append(ch)


# ----------------------------------------------------------------------------- role-based canonical names for private helpers
def _has_call(fn: ast.AST, pred) -> bool:
    return any(isinstance(c, ast.Call) and pred(c) for c in ast.walk(fn))


def _attr_calls(fn: ast.AST) -> set[str]:
    return {c.func.attr for c in ast.walk(fn) if isinstance(c, ast.Call) and isinstance(c.func, ast.Attribute)}


def _txt(fn: ast.AST) -> str:
    return unparse(fn)


ROLE_TABLE: list[tuple[str, str, object]] = [
    # (class qualname, canonical method name, recogniser(FunctionDef) -> bool)
    ("repid._runner._Runner", "_run_consumer", lambda n: isinstance(n, ast.AsyncFunctionDef) and any(isinstance(x, ast.AsyncFor) for x in ast.walk(n)) and "create_task" in _txt(n)),
    ("repid._runner._Runner", "_process_with_event", lambda n: isinstance(n, ast.AsyncFunctionDef) and "self.process(" in _txt(n) and "asyncio.wait(" in _txt(n)),
    ("repid._runner._Runner", "_task_callback", lambda n: isinstance(n, ast.FunctionDef) and ".release()" in _txt(n) and "stop_consume_event.set()" in _txt(n)),
    ("repid._processor._Processor", "_actor_run", lambda n: isinstance(n, ast.AsyncFunctionDef) and "wait_for(" in _txt(n) and "convert_inputs" in _txt(n)),
    ("repid.connections.in_memory.message_broker.InMemoryMessageBroker", "_put_in_queue",
     lambda n: isinstance(n, ast.FunctionDef) and "put_nowait" in _txt(n) and ".delayed" in _txt(n) and "Message(" in _txt(n)),
    ("repid.connections.in_memory.consumer._InMemoryConsumer", "__update_delayed", lambda n: isinstance(n, ast.FunctionDef) and "delayed.items()" in _txt(n) and "put_nowait" in _txt(n)),
    ("repid.connections.in_memory.consumer._InMemoryConsumer", "__consume_normal", lambda n: isinstance(n, ast.FunctionDef) and "get_nowait" in _txt(n)),
    ("repid.connections.in_memory.consumer._InMemoryConsumer", "__consume_delayed", lambda n: isinstance(n, ast.FunctionDef) and "min(" in _txt(n) and "delayed" in _txt(n)),
    ("repid.connections.in_memory.consumer._InMemoryConsumer", "__consume_dead", lambda n: isinstance(n, ast.FunctionDef) and "dead.pop" in _txt(n) and "delayed" not in _txt(n)),
    ("repid.connections.redis.message_broker.RedisMessageBroker", "__put_in_queue", lambda n: isinstance(n, ast.FunctionDef) and {"lpush", "rpush", "zadd"} <= _attr_calls(n)),
    ("repid.connections.redis.message_broker.RedisMessageBroker", "__mark_dead",
     lambda n: isinstance(n, ast.FunctionDef) and _attr_calls(n) & {"lpush", "rpush"} and "dead=True" in _txt(n) and "zadd" not in _attr_calls(n) and "zrem" not in _attr_calls(n)),
    ("repid.connections.redis.message_broker.RedisMessageBroker", "__unmark_processing", lambda n: isinstance(n, ast.FunctionDef) and {"zrem", "hdel"} <= _attr_calls(n) and "lpush" not in _attr_calls(n)),
    ("repid.connections.redis.consumer._RedisConsumer", "__mark_processing", lambda n: isinstance(n, ast.FunctionDef) and {"zadd", "hset"} <= _attr_calls(n)),
    ("repid.connections.redis.consumer._RedisConsumer", "__fetch_message_name", lambda n: isinstance(n, ast.AsyncFunctionDef) and {"lrange", "zrange"} <= _attr_calls(n)),
    ("repid.connections.redis.consumer._RedisConsumer", "__get_message_name", lambda n: isinstance(n, ast.AsyncFunctionDef) and "pipeline" in _attr_calls(n) and "hget" not in _attr_calls(n)),
    ("repid.connections.redis.consumer._RedisConsumer", "__get_message_details", lambda n: isinstance(n, ast.AsyncFunctionDef) and "hget" in _attr_calls(n)),
    ("repid.connections.redis.consumer._RedisConsumer", "__get_message_delayed", lambda n: isinstance(n, ast.AsyncFunctionDef) and "force_delayed=True" in _txt(n) and "lrange" not in _attr_calls(n)),
    ("repid.connections.redis.consumer._RedisConsumer", "__get_message_dead", lambda n: isinstance(n, ast.AsyncFunctionDef) and "dead=True" in _txt(n) and "hget" not in _attr_calls(n) and "lpush" not in _attr_calls(n)),
    ("repid.connections.redis.consumer._RedisConsumer", "__get_message_normal",
     lambda n: isinstance(n, ast.AsyncFunctionDef) and "delayed=True" in _txt(n) and "force_delayed=True" not in _txt(n) and "lrange" not in _attr_calls(n) and "pipeline" not in _attr_calls(n)),
    ("repid.connections.redis.consumer._RedisConsumer", "__get_message",
     lambda n: isinstance(n, ast.AsyncFunctionDef) and _txt(n).count("MessageCategory.") >= 3 and "hget" not in _attr_calls(n) and "qnc(" not in _txt(n)),
    ("repid.worker.Worker", "_register_signals", lambda n: isinstance(n, ast.FunctionDef) and "add_signal_handler" in _attr_calls(n)),
    ("repid.worker.Worker", "_unregister_signals", lambda n: isinstance(n, ast.FunctionDef) and "remove_signal_handler" in _attr_calls(n) and "add_signal_handler" not in _attr_calls(n)),
    ("repid.router.Router", "_forget_topic", lambda n: isinstance(n, ast.FunctionDef) and "discard" in _attr_calls(n) and "topics_by_queue" in _txt(n)),
    ("repid.dependencies.message_dependency.MessageDependency", "__execute_callbacks",
     lambda n: isinstance(n, ast.AsyncFunctionDef) and "self._callbacks" in _txt(n) and "super()" not in _txt(n) and n.name.startswith("_")),
    ("repid.middlewares.wrapper._middleware_wrapper", "call_set_context", lambda n: isinstance(n, ast.AsyncFunctionDef) and "IsInsideMiddleware.set" in _txt(n) and "_repid_signal_emitter" not in _txt(n)),
]


def canonicalise_private_helpers(prog: "Program") -> dict[str, str]:
    """If a private helper that the rules use as an anchor was renamed (consistently, behaviour unchanged), recognise it by its role and give it
    its canonical name back - in the class table and in every `.name` reference of its module - so that a rename does not look like a vanished anchor.
    Returns {class.canonical: actual name} for the renames found (reported in the evidence)."""
    renamed: dict[str, str] = {}
    for cq, canon, rec in ROLE_TABLE:
        c = prog.classes.get(cq)
        if c is None or canon in c.methods:
            continue
        cands = [m for name, m in c.methods.items() if not isinstance(m.node, ast.Lambda) and rec(m.node) and not any(name == k for _, k, _ in ROLE_TABLE if k in c.methods and k != canon)]
        taken = {k for q, k, _ in ROLE_TABLE if q == cq and k in c.methods}
        cands = [m for m in cands if m.name not in taken]
        if not cands:
            # 'method without self -> module-level function': a function of the class's module with the role is adopted as a static method of the class
            fcands = [fn for fn in c.module.functions.values() if not isinstance(fn.node, ast.Lambda) and rec(fn.node)]
            if len(fcands) == 1:
                fn = fcands[0]
                # AST surgery: the def moves into the class body as a static method under the canonical name (so every later re-index sees a method)
                old_name = fn.name
                mod_body = c.module.tree.body
                if fn.node in mod_body:
                    mod_body.remove(fn.node)
                    fn.node.decorator_list = list(fn.node.decorator_list) + [ast.Name(id="staticmethod", ctx=ast.Load())]
                    fn.node.name = canon
                    c.node.body.append(fn.node)
                    for call in ast.walk(c.module.tree):
                        if isinstance(call, ast.Call) and isinstance(call.func, ast.Name) and call.func.id == old_name:
                            call.func = ast.copy_location(ast.Attribute(value=ast.Name(id="self", ctx=ast.Load()), attr=canon, ctx=ast.Load()), call.func)
                    ast.fix_missing_locations(c.module.tree)
                    renamed[f"{cq}.{canon}"] = f"{old_name} (module-level function)"
                    prog._needs_reindex = True
            continue
        if len(cands) != 1:
            continue
        m = cands[0]
        old = m.name
        renamed[f"{cq}.{canon}"] = old
        del c.methods[old]
        c.methods[canon] = m
        prog.functions.pop(m.qualname, None)
        oldq = m.qualname
        m.name = canon
        m.qualname = f"{cq}.{canon}"
        m.node.name = canon
        prog.functions[m.qualname] = m
        for q, fn in list(prog.functions.items()):
            if q.startswith(oldq + "."):
                nq = m.qualname + q[len(oldq):]
                fn.qualname = nq
                prog.functions[nq] = fn
                del prog.functions[q]
        for n in ast.walk(c.module.tree):
            if isinstance(n, ast.Attribute) and n.attr == old:
                n.attr = canon
    return renamed


def _self_assigns(c: "ClassInfo", method: str):
    m = c.methods.get(method)
    if m is None:
        return
    for n in ast.walk(m.node):
        if isinstance(n, (ast.Assign, ast.AnnAssign)):
            tgts = n.targets if isinstance(n, ast.Assign) else [n.target]
            for t in tgts:
                if isinstance(t, ast.Attribute) and isinstance(t.value, ast.Name) and t.value.id == "self" and n.value is not None:
                    yield t.attr, n.value
        elif isinstance(n, ast.AugAssign) and isinstance(n.target, ast.Attribute) and isinstance(n.target.value, ast.Name) and n.target.value.id == "self":
            yield n.target.attr, n


def _one(it):
    xs = sorted(set(it))
    return xs[0] if len(xs) == 1 else None


ATTR_ROLE_TABLE: list[tuple[str, str, object]] = [
    ("repid._runner._Runner", "_limiter", lambda c: _one(a for a, v in _self_assigns(c, "__init__") if isinstance(v, ast.Call) and unparse(v.func).endswith("Semaphore"))),
    ("repid._runner._Runner", "_tasks_processed", lambda c: _one(a for a, v in _self_assigns(c, "_task_callback") if isinstance(v, ast.AugAssign))),
    ("repid._runner._Runner", "_tasks_started", lambda c: _one(a for a, v in _self_assigns(c, "_run_consumer") if isinstance(v, ast.AugAssign))),
    ("repid._runner._Runner", "_tasks", lambda c: _one(a for a, v in _self_assigns(c, "__init__") if isinstance(v, ast.Call) and unparse(v) == "set()")),
    ("repid.message.Message", "__read_only", lambda c: _one(a for a, v in _self_assigns(c, "ack") if isinstance(v, ast.Constant) and v.value is True)),
    ("repid.dependencies.message_dependency.MessageDependency", "_callbacks", lambda c: _one(a for a, v in _self_assigns(c, "__init__") if isinstance(v, ast.List) and not v.elts)),
    ("repid.dependencies.message_dependency.MessageDependency", "__lazy_result_callback", lambda c: _one(a for a, v in _self_assigns(c, "__init__") if isinstance(v, ast.Lambda))),
    ("repid.connections.in_memory.consumer._InMemoryConsumer", "_queue", lambda c: _one(a for a, v in _self_assigns(c, "__init__") if "queues[" in unparse(v))),
    ("repid.connections.in_memory.consumer._InMemoryConsumer", "_paused", lambda c: _one(a for a, v in _self_assigns(c, "__init__") if unparse(v).endswith("Lock()"))),
    ("repid.connections.rabbitmq.consumer._RabbitConsumer", "__is_paused", lambda c: _one(a for a, v in _self_assigns(c, "pause") if isinstance(v, ast.Constant) and v.value is True)),
    ("repid.connections.rabbitmq.consumer._RabbitConsumer", "__is_consuming", lambda c: _one(a for a, v in _self_assigns(c, "start") if isinstance(v, ast.Constant) and v.value is True)),
    # the connection an entry-point object works on: `self.<x> = _connection or Repid.get_magic_connection()`
    ("repid.job.Job", "_conn", lambda c: _one(a for a, v in _self_assigns(c, "__init__") if "get_magic_connection" in unparse(v))),
    ("repid.queue.Queue", "_conn", lambda c: _one(a for a, v in _self_assigns(c, "__init__") if "get_magic_connection" in unparse(v))),
    ("repid.worker.Worker", "_conn", lambda c: _one(a for a, v in _self_assigns(c, "__init__") if "get_magic_connection" in unparse(v))),
]


def canonicalise_private_attributes(prog: "Program") -> dict[str, str]:
    """Same idea for a few private attributes the rules name: recognised by how they are initialised / updated, renamed back in their module's AST."""
    renamed: dict[str, str] = {}
    for cq, canon, finder in ATTR_ROLE_TABLE:
        c = prog.classes.get(cq)
        if c is None:
            continue
        try:
            actual = finder(c)
        except Exception:  # noqa: BLE001
            actual = None
        if actual is None or actual == canon:
            continue
        # the canonical name must not be in use for something else
        if any(isinstance(n, ast.Attribute) and n.attr == canon for n in ast.walk(c.module.tree)):
            continue
        renamed[f"{cq}.{canon}"] = actual
        for n in ast.walk(c.module.tree):
            if isinstance(n, ast.Attribute) and n.attr == actual:
                n.attr = canon
        # slots tuples etc. are strings - irrelevant for the analysis
    return renamed


# ----------------------------------------------------------------------------- constants introduced for readability
# class-level constants the rules refer to by name: never folded
NAMED_CLASS_CONSTANTS = {"KEY", "UPDATE_DELAYED_EVERY", "POLLING_WAIT", "PREFETCH_AMOUNT"}
# module-level constants the rules refer to by name: never folded
NAMED_MODULE_CONSTANTS = {"WRAPPED", "SUBSCRIBERS_NAMES"}


def _literal(e: ast.AST | None) -> bool:
    if isinstance(e, ast.Constant) and isinstance(e.value, (str, int, float, bool, bytes, type(None))):
        return True
    if isinstance(e, ast.UnaryOp) and isinstance(e.op, ast.USub) and isinstance(e.operand, ast.Constant) and isinstance(e.operand.value, (int, float)):
        return True
    return isinstance(e, ast.Tuple) and all(_literal(x) for x in e.elts)


def _external_constant(m: "ModuleInfo", e: ast.AST | None, prog: "Program") -> bool:
    """`asyncio.FIRST_COMPLETED`, `signal.SIGINT`: an attribute chain rooted at an imported module that is not part of the analysed program."""
    if isinstance(e, ast.Tuple):
        return bool(e.elts) and all(_external_constant(m, x, prog) or _literal(x) for x in e.elts)
    if not isinstance(e, ast.Attribute):
        return False
    root = e
    while isinstance(root, ast.Attribute):
        root = root.value
    if not isinstance(root, ast.Name) or root.id not in m.imports:
        return False
    target = m.imports[root.id]
    return not any(target == mn or target.startswith(mn + ".") or mn.startswith(target + ".") for mn in prog.modules)


def fold_constants(prog: "Program") -> list[str]:
    """Normalisation: a module-level (or class-level) name bound exactly once to a literal ("introduce a constant for a magic value") is read as
    that literal wherever it is loaded, also through `from module import NAME`. Class-level constants the rules name themselves, enum members and
    anything re-bound, shadowed or declared global are left alone. f-string holes that became literal text are merged into the text.
    Returns the folded names (for the evidence notes)."""
    import copy

    folded: list[str] = []
    mod_consts: dict[str, dict[str, ast.expr]] = {}
    for m in prog.modules.values():
        binds: dict[str, list[ast.expr | None]] = {}
        for st in m.tree.body:
            tg = None
            if isinstance(st, ast.Assign) and len(st.targets) == 1 and isinstance(st.targets[0], ast.Name):
                tg, val = st.targets[0].id, st.value
            elif isinstance(st, ast.AnnAssign) and isinstance(st.target, ast.Name):
                tg, val = st.target.id, st.value
            if tg is not None:
                binds.setdefault(tg, []).append(val)
        stored_elsewhere = {n.id for n in ast.walk(m.tree) if isinstance(n, ast.Name) and isinstance(n.ctx, (ast.Store, ast.Del))}
        globals_ = {nm for n in ast.walk(m.tree) if isinstance(n, (ast.Global, ast.Nonlocal)) for nm in n.names}
        top_targets = {t for t in binds}
        consts = {}
        for name, vals in binds.items():
            if name in NAMED_MODULE_CONSTANTS:
                continue
            v0 = vals[0] if len(vals) == 1 else None
            if isinstance(v0, ast.List) and all(_literal(x) for x in v0.elts):
                # a literal list used as a constant: never mutated (no method call on it, no item store, not passed on by name except to `in` / iteration)
                touched = any((isinstance(a, ast.Attribute) and isinstance(a.value, ast.Name) and a.value.id == name) or
                              (isinstance(a, ast.Subscript) and isinstance(a.value, ast.Name) and a.value.id == name and isinstance(a.ctx, (ast.Store, ast.Del)))
                              for a in ast.walk(m.tree))
                if not touched and name not in globals_:
                    consts[name] = v0
                continue
            if len(vals) == 1 and (_literal(vals[0]) or _external_constant(m, vals[0], prog)) and name not in globals_ and name != "__all__" and not name.startswith("__"):
                # bound once at module level; a same-named local elsewhere simply shadows it (handled per function)
                consts[name] = vals[0]
        mod_consts[m.name] = consts
        del stored_elsewhere, top_targets

    class_consts: dict[str, dict[str, ast.expr]] = {}
    for c in prog.classes.values():
        if any(b.split(".")[-1] in ("Enum", "IntEnum", "StrEnum", "Flag", "IntFlag") for b in c.base_exprs):
            continue
        cc = {}
        for name, v in c.attrs.items():
            if name in NAMED_CLASS_CONSTANTS or name.startswith("__") or not _literal(v):
                continue
            if not (name.upper() == name):  # only CONSTANT_STYLE names: lower-case class attributes are defaults of instance state
                continue
            n_bind = sum(1 for st in c.node.body if (isinstance(st, ast.Assign) and any(isinstance(t, ast.Name) and t.id == name for t in st.targets))
                         or (isinstance(st, ast.AnnAssign) and isinstance(st.target, ast.Name) and st.target.id == name))
            stored = any(isinstance(a, ast.Attribute) and a.attr == name and isinstance(a.ctx, (ast.Store, ast.Del)) for a in ast.walk(c.module.tree))
            overridden = any(name in prog.classes[s].attrs for s in prog._subclasses.get(c.qualname, []) if s in prog.classes)
            if n_bind == 1 and not stored and not overridden:
                cc[name] = v
        if cc:
            class_consts[c.qualname] = cc

    def merge_fstrings(tree: ast.AST) -> None:
        for js in [n for n in ast.walk(tree) if isinstance(n, ast.JoinedStr)]:
            out: list[ast.expr] = []
            for v in js.values:
                piece = None
                if isinstance(v, ast.Constant) and isinstance(v.value, str):
                    piece = v.value
                elif isinstance(v, ast.FormattedValue) and v.conversion == -1 and v.format_spec is None and isinstance(v.value, ast.Constant) and isinstance(v.value.value, str):
                    piece = v.value.value
                if piece is not None and out and isinstance(out[-1], ast.Constant):
                    out[-1] = ast.copy_location(ast.Constant(value=out[-1].value + piece), out[-1])
                elif piece is not None:
                    out.append(ast.copy_location(ast.Constant(value=piece), v))
                else:
                    out.append(v)
            js.values = out

    for m in prog.modules.values():
        own = mod_consts.get(m.name, {})
        imported = {}
        for alias, target in m.imports.items():
            mod, _, nm = target.rpartition(".")
            if mod in mod_consts and nm in mod_consts[mod]:
                imported[alias] = mod_consts[mod][nm]
        table = {**imported, **own}
        classes_here = {c.name: class_consts[c.qualname] for c in prog.classes.values() if c.module is m and c.qualname in class_consts}
        if not table and not classes_here:
            continue
        changed = [False]

        def fold_function(fn: ast.AST, cls_name: str | None) -> None:
            local = {a.arg for a in ast.walk(fn) if isinstance(a, ast.arg)} | {n.id for n in ast.walk(fn) if isinstance(n, ast.Name) and isinstance(n.ctx, (ast.Store, ast.Del))}
            cc = classes_here.get(cls_name, {}) if cls_name else {}

            class T(ast.NodeTransformer):
                def visit_Name(self, node):
                    if isinstance(node.ctx, ast.Load) and node.id in table and node.id not in local:
                        changed[0] = True
                        folded.append(f"{m.name}.{node.id}")
                        return ast.copy_location(copy.deepcopy(table[node.id]), node)
                    return node

                def visit_Attribute(self, node):
                    self.generic_visit(node)
                    if isinstance(node.ctx, ast.Load) and isinstance(node.value, ast.Name):
                        if node.value.id in ("self", "cls") and node.attr in cc:
                            changed[0] = True
                            folded.append(f"{m.name}.{cls_name}.{node.attr}")
                            return ast.copy_location(copy.deepcopy(cc[node.attr]), node)
                        if node.value.id in classes_here and node.attr in classes_here[node.value.id] and node.value.id not in local:
                            changed[0] = True
                            folded.append(f"{m.name}.{node.value.id}.{node.attr}")
                            return ast.copy_location(copy.deepcopy(classes_here[node.value.id][node.attr]), node)
                    return node

            fn.body = [T().visit(st) for st in fn.body]
            # decorators, defaults and annotations are left as written

        def fold_toplevel(st: ast.stmt) -> None:
            """module-level `NAME = <expression using other constants>`: the expression reads with the constants' values"""
            if not isinstance(st, (ast.Assign, ast.AnnAssign)) or st.value is None:
                return
            own_t = {t.id for t in (st.targets if isinstance(st, ast.Assign) else [st.target]) if isinstance(t, ast.Name)}
            bound = {x.id for x in ast.walk(st.value) if isinstance(x, ast.Name) and isinstance(x.ctx, ast.Store)}  # comprehension variables

            class TT(ast.NodeTransformer):
                def visit_Name(self, node):
                    if isinstance(node.ctx, ast.Load) and node.id in table and node.id not in own_t and node.id not in bound:
                        changed[0] = True
                        folded.append(f"{m.name}.{node.id}")
                        return ast.copy_location(copy.deepcopy(table[node.id]), node)
                    return node

            st.value = TT().visit(st.value)

        def walk(body, cls_name):
            for st in body:
                if isinstance(st, (ast.FunctionDef, ast.AsyncFunctionDef)):
                    fold_function(st, cls_name)
                elif isinstance(st, ast.ClassDef):
                    walk(st.body, st.name)
                elif isinstance(st, (ast.If, ast.Try)):
                    walk(getattr(st, "body", []), cls_name)
                    walk(getattr(st, "orelse", []), cls_name)
                elif cls_name is None:
                    fold_toplevel(st)

        walk(m.tree.body, None)
        if changed[0]:
            merge_fstrings(m.tree)
            ast.fix_missing_locations(m.tree)
    return sorted(set(folded))


PURE_NAME_CONSTRUCTORS = {"mnc", "qnc"}


def _pure_name_call(call: ast.Call, binds: dict, params: set) -> bool:
    """mnc(...) / qnc(...) / self.qnc(...) whose arguments are parameters, once-bound locals, attribute chains of those, or literals."""
    name = call.func.id if isinstance(call.func, ast.Name) else call.func.attr if isinstance(call.func, ast.Attribute) else None
    if name not in PURE_NAME_CONSTRUCTORS:
        return False
    for a in list(call.args) + [k.value for k in call.keywords]:
        for x in ast.walk(a):
            if isinstance(x, (ast.Call, ast.Await, ast.NamedExpr, ast.Starred)):
                return False
            if isinstance(x, ast.Name) and x.id not in params and binds.get(x.id, 0) > 1:
                return False
    return True


def inline_attribute_aliases(prog: "Program") -> list[str]:
    """Normalisation: a local bound exactly once, by a plain statement of the function's own body (not in a loop / branch), to a pure attribute chain
    rooted at `self`, `cls` or a parameter (`limiter = self._limiter`, `broker = self._conn.message_broker`) is read as that chain, provided the
    function never stores to the chain or to one of its prefixes. Makes every rule indifferent to 'alias for readability' edits."""
    import copy

    done: list[str] = []

    def chain_root(e: ast.AST):
        n = 0
        while isinstance(e, ast.Attribute):
            e = e.value
            n += 1
        return (e.id if isinstance(e, ast.Name) else None), n

    for f in list(prog.functions.values()):
        fn = f.node
        if isinstance(fn, ast.Lambda):
            continue
        params = {a.arg for a in ast.walk(fn.args) if isinstance(a, ast.arg)}
        nested = [n for n in ast.walk(fn) if isinstance(n, (ast.FunctionDef, ast.AsyncFunctionDef, ast.Lambda)) and n is not fn]
        in_nested = {id(x) for nf in nested for x in ast.walk(nf)}
        binds: dict[str, int] = {}
        for n in ast.walk(fn):
            if isinstance(n, ast.Name) and isinstance(n.ctx, (ast.Store, ast.Del)):
                binds[n.id] = binds.get(n.id, 0) + 1
        stored_chains = {ast.unparse(a) for a in ast.walk(fn) if isinstance(a, ast.Attribute) and isinstance(a.ctx, (ast.Store, ast.Del))}
        aliases: dict[str, ast.expr] = {}
        alias_stmts: set[int] = set()
        own_stmts = [x for x in ast.walk(fn) if isinstance(x, (ast.Assign, ast.AnnAssign)) and id(x) not in in_nested]
        for st in own_stmts:
            tg, val = None, None
            if isinstance(st, ast.Assign) and len(st.targets) == 1 and isinstance(st.targets[0], ast.Name):
                tg, val = st.targets[0].id, st.value
            elif isinstance(st, ast.AnnAssign) and isinstance(st.target, ast.Name) and st.value is not None:
                tg, val = st.target.id, st.value
            if tg is not None and binds.get(tg) == 1 and tg not in params and isinstance(val, ast.Call) and _pure_name_call(val, binds, params):
                # `message_name = mnc(key)`: a key / queue name built once and used twice reads as the call it stands for (the name constructors are pure)
                if not any(isinstance(x, ast.Name) and x.id == tg and id(x) in in_nested for nf in nested for x in ast.walk(nf)):
                    aliases[tg] = val
                    alias_stmts.add(id(st))
                continue
            if tg is None or binds.get(tg) != 1 or tg in params or not isinstance(val, ast.Attribute):
                continue
            root, depth = chain_root(val)
            external = root is not None and root in f.module.imports and not any(
                f.module.imports[root] == mn or f.module.imports[root].startswith(mn + ".") or mn.startswith(f.module.imports[root] + ".") for mn in prog.modules)
            constant_root = root is not None and root in f.module.imports and root.isupper()  # `match = VALID_NAME.fullmatch`: a bound method of an imported module constant
            if root is None or depth == 0 or (root not in ("self", "cls") and root not in params and not external and not constant_root) or binds.get(root, 0) > 0:
                continue
            txt = ast.unparse(val)
            if any(txt == s or txt.startswith(s + ".") for s in stored_chains):
                continue
            # the alias must not be captured by a nested function (its own scope rules apply there)
            if any(isinstance(x, ast.Name) and x.id == tg and id(x) in in_nested for nf in nested for x in ast.walk(nf)):
                continue
            aliases[tg] = val
            alias_stmts.add(id(st))
        if not aliases:
            continue

        class T(ast.NodeTransformer):
            def visit_Name(self, node):
                if isinstance(node.ctx, ast.Load) and node.id in aliases:
                    return ast.copy_location(copy.deepcopy(aliases[node.id]), node)
                return node

        class Drop(ast.NodeTransformer):
            """the binding itself disappears (a pure attribute read); an emptied block keeps a `pass`"""
            def generic_visit(self, node):
                super().generic_visit(node)
                for fld in ("body", "orelse", "finalbody"):
                    blk = getattr(node, fld, None)
                    if isinstance(blk, list) and blk and isinstance(blk[0], ast.stmt):
                        kept = [x for x in blk if id(x) not in alias_stmts]
                        if not kept and fld == "body":
                            kept = [ast.copy_location(ast.Pass(), blk[0])]
                        setattr(node, fld, kept)
                return node

            def visit_FunctionDef(self, node):
                return node if node is not fn else self.generic_visit(node)

            visit_AsyncFunctionDef = visit_FunctionDef

            def visit_Lambda(self, node):
                return node

        fn.body = [T().visit(st) for st in fn.body]
        Drop().generic_visit(fn)
        ast.fix_missing_locations(fn)
        done.extend(f"{f.short()}.{a}" for a in aliases)
    return sorted(done)


def see_through_shield(tree: ast.AST) -> list[tuple[int, str]]:
    """`asyncio.shield(<call>)` is read as `<call>` (the inner operation still happens; resolution and flow rules keep seeing it). What was shielded is recorded: a shielded
    operation does NOT stop when its awaiter is cancelled, which the rules that argue about cancellation (shared.no_shield) report where it matters."""
    out: list[tuple[int, str]] = []

    class T(ast.NodeTransformer):
        def visit_Call(self, node):
            self.generic_visit(node)
            d = node.func
            name = d.attr if isinstance(d, ast.Attribute) else d.id if isinstance(d, ast.Name) else None
            if name == "shield" and len(node.args) == 1 and not node.keywords and isinstance(node.args[0], ast.Call):
                inner = node.args[0]
                inner._shielded = True  # type: ignore[attr-defined]
                out.append((node.lineno, ast.unparse(inner)[:80]))
                return ast.copy_location(inner, node)
            return node

    T().visit(tree)
    return out


def normalise_get_default(tree: ast.AST) -> int:
    """`m.get(k, None)` read as `m.get(k)` (None is the default of every mapping's get)."""
    n = 0
    for c in ast.walk(tree):
        if isinstance(c, ast.Call) and isinstance(c.func, ast.Attribute) and c.func.attr == "get" and len(c.args) == 2 and not c.keywords \
                and isinstance(c.args[1], ast.Constant) and c.args[1].value is None:
            c.args = c.args[:1]
            n += 1
    return n


def normalise_augassign(tree: ast.AST) -> int:
    """`x = x + e` / `self.n = self.n - 1` read as `x += e` / `self.n -= 1` (same target text on both sides, the target is the LEFT operand)."""
    n = 0

    class T(ast.NodeTransformer):
        def visit_Assign(self, node):
            nonlocal n
            if len(node.targets) == 1 and isinstance(node.targets[0], (ast.Name, ast.Attribute)) and isinstance(node.value, ast.BinOp) \
                    and isinstance(node.value.left, (ast.Name, ast.Attribute)) and ast.unparse(node.value.left) == ast.unparse(node.targets[0]):
                n += 1
                return ast.copy_location(ast.AugAssign(target=node.targets[0], op=node.value.op, value=node.value.right), node)
            return node

    T().visit(tree)
    if n:
        ast.fix_missing_locations(tree)
    return n


def canonicalise_private_params(prog: "Program") -> list[str]:
    """Normalisation: a parameter of a PRIVATE helper (leading underscore, not a dunder) that receives, at every call site in its own module, the
    same plain local/parameter name of the caller is renamed to that name (`_put_in_queue(..., *, parameters)` called as `parameters=params`
    everywhere reads as `params`). Keeps the rules' vocabulary (key / payload / params / loop ...) stable under 'signature hygiene' edits."""
    renamed: list[str] = []
    for h in list(prog.functions.values()):
        if not h.name.startswith("_") or (h.name.startswith("__") and h.name.endswith("__")) or h.parent is not None or isinstance(h.node, ast.Lambda):
            continue
        m = h.module
        sites: list[ast.Call] = []
        for c in ast.walk(m.tree):
            if not isinstance(c, ast.Call):
                continue
            fn = c.func
            if h.cls is not None:
                if isinstance(fn, ast.Attribute) and fn.attr == h.name and isinstance(fn.value, ast.Name) and fn.value.id in ("self", "cls", h.cls.name):
                    sites.append(c)
            elif isinstance(fn, ast.Name) and fn.id == h.name:
                sites.append(c)
        if not sites or any(isinstance(a, ast.Starred) for c in sites for a in c.args) or any(k.arg is None for c in sites for k in c.keywords):
            continue
        a_ = h.node.args
        pos = [x.arg for x in a_.posonlyargs + a_.args]
        bound_self = h.cls is not None and "staticmethod" not in h.decorators
        if bound_self and pos:
            pos = pos[1:]
        kwonly = [x.arg for x in a_.kwonlyargs]
        used_names = {n.id for n in ast.walk(h.node) if isinstance(n, ast.Name)} | {x.arg for x in ast.walk(a_) if isinstance(x, ast.arg)}
        plan: dict[str, str] = {}
        for i, p in enumerate(pos + kwonly):
            got = []
            for c in sites:
                v = None
                if i < len(pos) and i < len(c.args):
                    v = c.args[i]
                else:
                    v = next((k.value for k in c.keywords if k.arg == p), None)
                got.append(v)
            if any(v is None or not isinstance(v, ast.Name) for v in got):
                continue
            names = {v.id for v in got}
            if len(names) == 1:
                a = next(iter(names))
                if a != p and a not in used_names and a not in plan.values() and a not in ("self", "cls"):
                    plan[p] = a
        if not plan:
            continue
        for x in ast.walk(h.node.args):
            if isinstance(x, ast.arg) and x.arg in plan:
                x.arg = plan[x.arg]
        for n in ast.walk(h.node):
            if isinstance(n, ast.Name) and n.id in plan:
                n.id = plan[n.id]
        for c in sites:
            for k in c.keywords:
                if k.arg in plan:
                    k.arg = plan[k.arg]
        renamed.extend(f"{h.short()}({p} -> {a})" for p, a in plan.items())
    return sorted(renamed)


def merge_if_else_assign(tree: ast.AST) -> int:
    """`if c: x = a` / `else: x = b` (one plain assignment to the same target in each arm, nothing else) read as `x = a if c else b`."""
    n = 0

    def tgt(s):
        if isinstance(s, ast.Assign) and len(s.targets) == 1 and isinstance(s.targets[0], (ast.Name, ast.Attribute)):
            return s.targets[0]
        if isinstance(s, ast.AnnAssign) and s.value is not None and isinstance(s.target, (ast.Name, ast.Attribute)):
            return s.target
        return None

    class T(ast.NodeTransformer):
        def visit_If(self, node):
            nonlocal n
            self.generic_visit(node)
            if len(node.body) == 1 and len(node.orelse) == 1:
                a, b = node.body[0], node.orelse[0]
                ta, tb = tgt(a), tgt(b)
                if ta is not None and tb is not None and ast.unparse(ta) == ast.unparse(tb):
                    n += 1
                    new = ast.Assign(targets=[ta], value=ast.IfExp(test=node.test, body=a.value, orelse=b.value))
                    return ast.copy_location(new, node)
            return node

    T().visit(tree)
    if n:
        ast.fix_missing_locations(tree)
    return n


def split_annassign(tree: ast.AST) -> int:
    """Inside functions, `x: T = v` is read as the bare declaration `x: T` followed by `x = v`, so that adding or removing a type annotation
    on an assignment does not change what the rules see (they look at plain assignments; the resolver still finds the annotation)."""
    n = 0

    class T(ast.NodeTransformer):
        def __init__(self):
            self.depth = 0

        def visit_FunctionDef(self, node):
            self.depth += 1
            self.generic_visit(node)
            self.depth -= 1
            return node

        visit_AsyncFunctionDef = visit_FunctionDef

        def visit_ClassDef(self, node):
            d, self.depth = self.depth, 0  # class bodies keep their annotated fields
            self.generic_visit(node)
            self.depth = d
            return node

        def visit_AnnAssign(self, node):
            nonlocal n
            if self.depth > 0 and node.value is not None:
                n += 1
                decl = ast.copy_location(ast.AnnAssign(target=node.target, annotation=node.annotation, value=None, simple=node.simple), node)
                import copy

                tgt = copy.deepcopy(node.target)
                asg = ast.copy_location(ast.Assign(targets=[tgt], value=node.value), node)
                return [decl, asg]
            return node

    T().visit(tree)
    if n:
        ast.fix_missing_locations(tree)
    return n


def fold_optional_injection(prog: "Program") -> list[str]:
    """Normalisation ('optional dependency' idiom): a parameter p with default None that NO call in the analysed program ever passes, used as
    `D if p is None else p` / `p if p is not None else D`, is read as D - the library's own behaviour. As soon as some call site passes the parameter
    the expression is left alone (then both arms matter)."""
    import copy

    folded: list[str] = []
    # every (callee simple name, keyword) pair and every (callee simple name, positional count) seen at call sites
    kw_seen: set[tuple[str, str]] = set()
    pos_seen: dict[str, int] = {}
    star_kw: set[str] = set()
    for m in prog.modules.values():
        for c in ast.walk(m.tree):
            if isinstance(c, ast.Call):
                nm = c.func.attr if isinstance(c.func, ast.Attribute) else (c.func.id if isinstance(c.func, ast.Name) else None)
                if nm is None:
                    continue
                for k in c.keywords:
                    if k.arg is None:
                        star_kw.add(nm)
                    else:
                        kw_seen.add((nm, k.arg))
                npos = len(c.args) + (100 if any(isinstance(a, ast.Starred) for a in c.args) else 0)
                pos_seen[nm] = max(pos_seen.get(nm, 0), npos)
    def private(f) -> bool:
        """only callables the library alone calls: private functions / methods, and non-dunder methods of private classes (a public parameter is the user's to pass)"""
        if f.name.startswith("__") and f.name.endswith("__"):
            return False
        return f.name.startswith("_") or (f.cls is not None and f.cls.name.startswith("_")) or f.parent is not None

    for f in list(prog.functions.values()):
        fn = f.node
        if isinstance(fn, ast.Lambda) or not private(f):
            continue
        a_ = fn.args
        allp = a_.posonlyargs + a_.args
        cands: dict[str, int | None] = {}
        for i, (x, dv) in enumerate(zip(allp[len(allp) - len(a_.defaults):], a_.defaults)):
            if isinstance(dv, ast.Constant) and dv.value is None:
                cands[x.arg] = len(allp) - len(a_.defaults) + i
        for x, dv in zip(a_.kwonlyargs, a_.kw_defaults):
            if isinstance(dv, ast.Constant) and dv.value is None:
                cands[x.arg] = None
        if not cands:
            continue
        names = {f.name} | ({f.cls.name} if f.cls is not None and f.name in ("__init__", "__new__") else set())
        stored = {n.id for n in ast.walk(fn) if isinstance(n, ast.Name) and isinstance(n.ctx, (ast.Store, ast.Del))}
        free = {}
        for p, idx in cands.items():
            if p in stored:
                continue
            passed = any((nm, p) in kw_seen or nm in star_kw for nm in names)
            if idx is not None:
                bound_self = 1 if (f.cls is not None and "staticmethod" not in f.decorators) else 0
                passed = passed or any(pos_seen.get(nm, 0) > idx - bound_self for nm in names)
            if not passed:
                free[p] = True
        if not free:
            continue

        class T(ast.NodeTransformer):
            def visit_IfExp(self, node):
                self.generic_visit(node)
                t = node.test
                if isinstance(t, ast.Compare) and len(t.ops) == 1 and isinstance(t.left, ast.Name) and t.left.id in free \
                        and isinstance(t.comparators[0], ast.Constant) and t.comparators[0].value is None:
                    if isinstance(t.ops[0], ast.Is) and isinstance(node.orelse, ast.Name) and node.orelse.id == t.left.id:
                        folded.append(f"{f.short()}({t.left.id})")
                        return node.body
                    if isinstance(t.ops[0], ast.IsNot) and isinstance(node.body, ast.Name) and node.body.id == t.left.id:
                        folded.append(f"{f.short()}({t.left.id})")
                        return node.orelse
                return node

        fn.body = [T().visit(st) for st in fn.body]
        ast.fix_missing_locations(fn)
    return sorted(set(folded))


# ----------------------------------------------------------------------------- structure normalisations: private bases, newly extracted helpers
# private helper names of the pinned tree: the rules name these as anchors, so calls to them are never inlined away
KNOWN_PRIVATE = {
    "__consume_dead", "__consume_delayed", "__consume_normal", "__execute_callbacks", "__fetch_message_name", "__get_message", "__get_message_dead", "__get_message_delayed",
    "__get_message_details", "__get_message_name", "__get_message_normal", "__mark_dead", "__mark_processing", "__put_in_queue", "__unmark_processing", "__update_delayed", "_ab",
    "_actor_run", "_channel", "_construct_args", "_construct_parameters", "_construct_repid_router_from_markers", "_construct_routing_key", "_forget_topic", "_generate_output_model",
    "_get_queue", "_inner", "_prepare_reschedule", "_prepare_retry", "_process_with_event", "_put_in_queue", "_rb", "_register_signals", "_repid_app_with_event_log_modifiers",
    "_repid_app_with_modifiers", "_repid_app_with_worker_modifier", "_run", "_run_consumer", "_signal_emitter", "_task_callback", "_unregister_signals", "_update_from_config",
    "_update_subdependencies",
}


def flatten_private_bases(prog: "Program") -> list[str]:
    """Methods that a class inherits from a private base / mixin of the package (`class _Runner(_EventTasksMixin, _Processor)`, `class ArgsBucket(_ExpiringBucket)`) are also
    indexed as methods of the class itself: 'extract base class' does not move an anchor out of the rules' sight. Anchor classes are never treated as mixins."""
    done: list[str] = []
    def is_mixin(b) -> bool:
        return b.name not in ANCHOR_CLASSES and (b.name.startswith("_") or b.name.endswith("Mixin") or b.name.endswith("Base")) and not any("Protocol" in x for x in b.base_exprs)

    def direct_mixins(c) -> list:
        """mixins c reaches through its own bases and through other mixins only (what a concrete base class inherits is that class's business)"""
        out, todo = [], list(c.bases)
        while todo:
            q = todo.pop(0)
            b = prog.classes.get(q)
            if b is None or not is_mixin(b) or b in out:
                continue
            out.append(b)
            todo += list(b.bases)
        return out

    for c in list(prog.classes.values()):
        if is_mixin(c):
            continue
        for b in direct_mixins(c):
            for name, m in b.methods.items():
                if name in c.methods:
                    continue
                q = f"{c.qualname}.{name}"
                clone = FuncInfo(q, m.name, m.node, m.module, c, None, dict(m.nested))
                c.methods[name] = clone
                prog.functions[q] = clone
                done.append(f"{c.name}.{name} <- {b.name}")
            for an, av in b.attrs.items():
                c.attrs.setdefault(an, av)
    # the mixin's own entries are hidden from iteration once every method lives on (at least) one concrete class: the code must not be seen as a second, unowned copy
    flattened_from = {x.split(" <- ")[1] for x in done}
    for b in list(prog.classes.values()):
        if b.name in flattened_from:
            for name in list(b.methods):
                q = f"{b.qualname}.{name}"
                f0 = prog.functions.get(q)
                if f0 is not None and any(f"{c.name}.{name} <- {b.name}" in done for c in prog.classes.values()):
                    del prog.functions[q]
                    for nq in [k for k in prog.functions if k.startswith(q + ".<locals>.")]:
                        del prog.functions[nq]
    return done


def inline_new_private_helpers(prog: "Program") -> list[str]:
    """'Extract method' undone: a call of a private helper that does NOT exist on the pinned tree (KNOWN_PRIVATE) is replaced by the helper's body when
    the call is a whole statement of one of these shapes and the helper's returns allow it:
        self._h(args)            / await self._h(args)            helper returns nothing (no value return, at most a final bare return)
        x = self._h(args)        / x = await self._h(args)        the helper's only return is its last statement
        return self._h(args)     / return await self._h(args)     any returns (tail position)
    Parameters are bound to the arguments (simple arguments are substituted, others evaluated into fresh locals first); the helper's own locals get a suffix.
    The helper's definition stays. Returns 'caller <- helper' pairs."""
    import copy

    done: list[str] = []

    def callee_of(f: "FuncInfo", call: ast.Call):
        fn = call.func
        if isinstance(fn, ast.Attribute) and isinstance(fn.value, ast.Name) and f.cls is not None and fn.value.id in ("self", "cls", f.cls.name):
            h = f.cls.methods.get(fn.attr) or prog.find_method(f.cls.qualname, fn.attr)
            return h
        if isinstance(fn, ast.Name):
            q = prog.resolve_name(f.module, fn.id)
            h = prog.functions.get(q) if q else None
            return h if h is not None and h.cls is None and h.parent is None else None
        return None

    def eligible(h: "FuncInfo") -> bool:
        if h is None or isinstance(h.node, ast.Lambda) or not h.name.startswith("_") or (h.name.startswith("__") and h.name.endswith("__")) or h.name in KNOWN_PRIVATE:
            return False
        a = h.node.args
        if any(unparse(d) not in ("staticmethod", "classmethod") for d in h.node.decorator_list):
            return False
        if any(isinstance(x, (ast.Yield, ast.YieldFrom, ast.Global, ast.Nonlocal)) for x in ast.walk(h.node)):
            return False
        return True

    def own_returns(node):
        out = []
        todo = list(node.body)
        while todo:
            st = todo.pop()
            if isinstance(st, (ast.FunctionDef, ast.AsyncFunctionDef, ast.ClassDef, ast.Lambda)):
                continue
            if isinstance(st, ast.Return):
                out.append(st)
            for ch in ast.iter_child_nodes(st):
                if isinstance(ch, (ast.stmt, ast.ExceptHandler)) or isinstance(ch, ast.match_case if hasattr(ast, "match_case") else ()):
                    todo.append(ch)
        return out

    def bind(h: "FuncInfo", call: ast.Call, is_method_call: bool):
        a = h.node.args
        params = [x.arg for x in a.posonlyargs + a.args]
        decos = [unparse(d) for d in h.node.decorator_list]
        self_name = None
        if h.cls is not None and "staticmethod" not in decos and params and is_method_call:
            self_name, params = params[0], params[1:]
        binding: dict[str, ast.expr] = {}
        # pass-through: helper(..., *args, **kwargs) called as helper(..., *args, **kwargs) with plain names
        star = [x for x in call.args if isinstance(x, ast.Starred)]
        dstar = [k for k in call.keywords if k.arg is None]
        if a.vararg or a.kwarg or star or dstar:
            ok_v = (a.vararg is None and not star) or (a.vararg is not None and len(star) == 1 and call.args[-1] is star[0] and isinstance(star[0].value, ast.Name))
            ok_k = (a.kwarg is None and not dstar) or (a.kwarg is not None and len(dstar) == 1 and isinstance(dstar[0].value, ast.Name))
            if not (ok_v and ok_k):
                return None
            if a.vararg is not None:
                binding[a.vararg.arg] = star[0].value
            if a.kwarg is not None:
                binding[a.kwarg.arg] = dstar[0].value
            call = ast.Call(func=call.func, args=[x for x in call.args if not isinstance(x, ast.Starred)], keywords=[k for k in call.keywords if k.arg is not None])
        if len(call.args) > len(params):
            return None
        for p, v in zip(params, call.args):
            binding[p] = v
        kwnames = {x.arg for x in a.kwonlyargs} | set(params)
        for k in call.keywords:
            if k.arg not in kwnames or k.arg in binding:
                return None
            binding[k.arg] = k.value
        defaults = dict(zip(params[len(params) - len(a.defaults):], a.defaults)) if a.defaults else {}
        defaults.update({x.arg: d for x, d in zip(a.kwonlyargs, a.kw_defaults) if d is not None})
        for p in list(params) + [x.arg for x in a.kwonlyargs]:
            if p not in binding:
                if p not in defaults:
                    return None
                binding[p] = defaults[p]
        if self_name is not None:
            binding[self_name] = call.func.value  # self / cls
        return binding

    def instantiate(h: "FuncInfo", binding, uid: int, result_name: str | None = None, result_local: str | None = None, taken: frozenset = frozenset(), result_map: dict | None = None):
        """(prelude statements, body statements) of h with parameters bound and locals renamed (the local that is returned takes the caller's target name)"""
        prelude = []
        subst: dict[str, ast.expr] = {}
        stored_params = {n.id for n in ast.walk(h.node) if isinstance(n, ast.Name) and isinstance(n.ctx, (ast.Store, ast.Del))}
        uses: dict[str, int] = {}
        for n_ in ast.walk(h.node):
            if isinstance(n_, ast.Name) and isinstance(n_.ctx, ast.Load):
                uses[n_.id] = uses.get(n_.id, 0) + 1
        in_loop = {n_.id for lp in ast.walk(h.node) if isinstance(lp, (ast.For, ast.AsyncFor, ast.While, ast.ListComp, ast.SetComp, ast.DictComp, ast.GeneratorExp, ast.Lambda,
                                                                       ast.FunctionDef, ast.AsyncFunctionDef)) and lp is not h.node
                   for n_ in ast.walk(lp) if isinstance(n_, ast.Name)}
        for p, v in binding.items():
            simple = isinstance(v, (ast.Name, ast.Constant)) or (isinstance(v, ast.Attribute) and all(isinstance(x, (ast.Attribute, ast.Name, ast.Load)) for x in ast.walk(v)))
            once = uses.get(p, 0) <= 1 and p not in in_loop  # read (at most) once, not inside a loop / closure: the argument expression can stand where the parameter stood
            if (simple or once) and p not in stored_params:
                subst[p] = v
            else:
                tmp = f"{p}__{h.name.strip('_')}{uid}"
                prelude.append(ast.Assign(targets=[ast.Name(id=tmp, ctx=ast.Store())], value=copy.deepcopy(v)))
                subst[p] = ast.Name(id=tmp, ctx=ast.Load())
        params = set(binding)
        locals_ = {n.id for n in ast.walk(h.node) if isinstance(n, ast.Name) and isinstance(n.ctx, (ast.Store, ast.Del)) and n.id not in params}
        locals_ |= {x.name for x in ast.walk(h.node) if isinstance(x, (ast.FunctionDef, ast.AsyncFunctionDef)) and x is not h.node}
        ren = {n: f"{n}__{h.name.strip('_')}{uid}" for n in locals_ if n in taken}  # only names the caller already uses are renamed
        if result_name is not None and result_local in locals_:
            ren[result_local] = result_name
        for loc, tgt in (result_map or {}).items():
            if loc in locals_:
                ren[loc] = tgt

        class T(ast.NodeTransformer):
            def visit_Name(self, node):
                if node.id in subst and isinstance(node.ctx, ast.Load):
                    return ast.copy_location(copy.deepcopy(subst[node.id]), node)
                if node.id in subst and isinstance(subst[node.id], ast.Name):
                    return ast.copy_location(ast.Name(id=subst[node.id].id, ctx=node.ctx), node)
                if node.id in ren:
                    return ast.copy_location(ast.Name(id=ren[node.id], ctx=node.ctx), node)
                return node

            def visit_FunctionDef(self, node):
                if node.name in ren:
                    node.name = ren[node.name]
                self.generic_visit(node)
                return node

            visit_AsyncFunctionDef = visit_FunctionDef

        body = [T().visit(copy.deepcopy(st)) for st in h.node.body]
        body = [st for st in body if not (isinstance(st, ast.Expr) and isinstance(st.value, ast.Constant) and isinstance(st.value.value, str))]  # docstring
        return prelude, body or [ast.Pass()]

    uid = [0]

    def inline_expr_helpers(f: "FuncInfo", st: ast.stmt) -> ast.stmt:
        """calls of new private helpers whose whole body is `return <expression>` are replaced, wherever they occur in an expression, by that expression with the
        parameters substituted (only plain-name / attribute / constant arguments)"""
        class T(ast.NodeTransformer):
            def visit_FunctionDef(self, node):
                self.generic_visit(node)
                return node

            visit_AsyncFunctionDef = visit_FunctionDef

            def visit_Call(self, node):
                self.generic_visit(node)
                h = callee_of(f, node)
                if not eligible(h) or h.node is f.node or h.is_async:
                    return node
                body = [x for x in h.node.body if not (isinstance(x, ast.Expr) and isinstance(x.value, ast.Constant))]
                if len(body) != 1 or not isinstance(body[0], ast.Return) or body[0].value is None:
                    return node
                binding = bind(h, node, isinstance(node.func, ast.Attribute))
                if binding is None or not all(isinstance(v, (ast.Name, ast.Constant)) or (isinstance(v, ast.Attribute) and all(isinstance(x, (ast.Attribute, ast.Name, ast.Load)) for x in ast.walk(v)))
                                              for v in binding.values()):
                    return node
                if any(isinstance(x, (ast.Lambda, ast.ListComp, ast.SetComp, ast.DictComp, ast.GeneratorExp, ast.NamedExpr)) for x in ast.walk(body[0].value)):
                    return node  # own scopes / bindings inside the expression: leave it to the rule-level helpers

                class S(ast.NodeTransformer):
                    def visit_Name(self, n2):
                        if n2.id in binding and isinstance(n2.ctx, ast.Load):
                            return ast.copy_location(copy.deepcopy(binding[n2.id]), n2)
                        return n2

                done.append(f"{f.short()} <- {h.name}")
                return ast.copy_location(S().visit(copy.deepcopy(body[0].value)), node)

        return T().visit(st)

    def try_inline(f: "FuncInfo", st: ast.stmt, tail: bool = False):
        """list of replacement statements or None (tail: st is the last statement of the function body - the helper's own early returns then end the caller too)"""
        val = None
        kind = None
        if isinstance(st, ast.Expr):
            val, kind = st.value, "stmt"
        elif isinstance(st, ast.Assign) and len(st.targets) == 1:
            val, kind = st.value, "assign"
        elif isinstance(st, ast.Return) and st.value is not None:
            val, kind = st.value, "return"
        if val is None:
            return None
        awaited = isinstance(val, ast.Await)
        call = val.value if awaited else val
        if not isinstance(call, ast.Call):
            return None
        h = callee_of(f, call)
        if not eligible(h) or h.node is f.node or h.is_async != awaited:
            return None
        if h.is_async and not f.is_async:
            return None
        binding = bind(h, call, isinstance(call.func, ast.Attribute))
        if binding is None:
            return None
        rets = own_returns(h.node)
        last = h.node.body[-1] if h.node.body else None
        if kind == "stmt":
            if any(r.value is not None for r in rets) or (any(r is not last for r in rets) and not tail):
                return None
        elif kind == "assign":
            if len(rets) != 1 or rets[0] is not last or rets[0].value is None:
                return None
        uid[0] += 1
        res_name = res_local = None
        if kind == "assign" and isinstance(st.targets[0], ast.Name) and isinstance(rets[0].value, ast.Name):
            caller_names = {n.id for n in ast.walk(f.node) if isinstance(n, ast.Name)}
            helper_uses = {n.id for n in ast.walk(h.node) if isinstance(n, ast.Name)}
            if st.targets[0].id not in helper_uses or st.targets[0].id == rets[0].value.id:
                res_name, res_local = st.targets[0].id, rets[0].value.id
            del caller_names
        taken = frozenset({n.id for n in ast.walk(f.node) if isinstance(n, ast.Name)} | {x.arg for x in ast.walk(f.node) if isinstance(x, ast.arg)})
        res_map = None
        if kind == "assign" and isinstance(st.targets[0], ast.Tuple) and isinstance(rets[0].value, ast.Tuple) and len(st.targets[0].elts) == len(rets[0].value.elts) \
                and all(isinstance(x, ast.Name) for x in st.targets[0].elts) and all(isinstance(x, ast.Name) for x in rets[0].value.elts):
            helper_uses = {n.id for n in ast.walk(h.node) if isinstance(n, ast.Name)}
            pairs = {r_.id: t_.id for r_, t_ in zip(rets[0].value.elts, st.targets[0].elts)}
            if all(t_ == r_ or t_ not in helper_uses for r_, t_ in pairs.items()) and len(set(pairs.values())) == len(pairs):
                res_map = pairs
        prelude, body = instantiate(h, binding, uid[0], res_name, res_local, taken, res_map)
        if kind == "stmt":
            if body and isinstance(body[-1], ast.Return) and not tail:
                body = body[:-1] or [ast.Pass()]
        elif kind == "assign":
            r = body[-1]
            if res_name is not None and isinstance(r.value, ast.Name) and r.value.id == res_name:
                body = body[:-1] or [ast.Pass()]  # the returned local already carries the target's name
            elif res_map is not None and isinstance(r.value, ast.Tuple) and [getattr(x, "id", None) for x in r.value.elts] == [x.id for x in st.targets[0].elts]:
                body = body[:-1] or [ast.Pass()]  # the returned locals already carry the targets' names
            else:
                body = body[:-1] + [ast.Assign(targets=st.targets, value=r.value)]
        out = prelude + body
        for x in out:
            ast.copy_location(x, st)
            ast.fix_missing_locations(x)
        done.append(f"{f.short()} <- {h.name}")
        return out

    def rewrite_block(f: "FuncInfo", stmts: list, top: bool = False) -> list:
        out = []
        for idx, st in enumerate(stmts):
            if isinstance(st, ast.ClassDef):
                out.append(st)
                continue
            if isinstance(st, (ast.FunctionDef, ast.AsyncFunctionDef)):
                # a nested function of f: same `self`, its own sync/async-ness
                nf = FuncInfo(f.qualname + ".<locals>." + st.name, st.name, st, f.module, f.cls, f)
                st.body = rewrite_block(nf, st.body, top=True)
                out.append(st)
                continue
            rep = try_inline(f, st, tail=top and idx == len(stmts) - 1)
            if rep is not None:
                out.extend(rep)
                continue
            for fld in ("body", "orelse", "finalbody"):
                blk = getattr(st, fld, None)
                if isinstance(blk, list) and blk and isinstance(blk[0], ast.stmt):
                    setattr(st, fld, rewrite_block(f, blk))
            for hnd in getattr(st, "handlers", []) or []:
                hnd.body = rewrite_block(f, hnd.body)
            out.append(st)
        return out

    for f in list(prog.functions.values()):
        if isinstance(f.node, ast.Lambda) or f.parent is not None:
            continue
        if f.cls is not None and f.cls.methods.get(f.name) is not f and prog.functions.get(f.qualname) is not f:
            continue
        before = len(done)
        f.node.body = rewrite_block(f, f.node.body, top=True)
        f.node.body = [inline_expr_helpers(f, st_) for st_ in f.node.body]
        if len(done) != before:
            ast.fix_missing_locations(f.node)
    return done


def closures_from_partials(prog: "Program") -> list[str]:
    """'Closure to method' undone: `partial(self._m, a, b)` / `partial(_f, k=v)` where `_m` / `_f` is a private callable that does not exist on the pinned tree is read
    as a nested function defined right there, taking the remaining parameters and tail-calling the callable (which `inline_new_private_helpers` then replaces by its
    body). Arguments that are not plain names / attributes / constants are evaluated once, where the partial was built, into fresh locals - as partial does."""
    import copy

    done: list[str] = []
    uid = [0]

    def target_of(f, e):
        if isinstance(e, ast.Attribute) and isinstance(e.value, ast.Name) and e.value.id in ("self", "cls") and f.cls is not None:
            return f.cls.methods.get(e.attr) or prog.find_method(f.cls.qualname, e.attr)
        if isinstance(e, ast.Name):
            q = prog.resolve_name(f.module, e.id)
            h = prog.functions.get(q) if q else None
            return h if h is not None and h.cls is None and h.parent is None else None
        return None

    for f in list(prog.functions.values()):
        if isinstance(f.node, ast.Lambda) or f.parent is not None:
            continue
        changed = False

        def process(stmts: list) -> list:
            nonlocal changed
            out = []
            for st in stmts:
                if isinstance(st, (ast.FunctionDef, ast.AsyncFunctionDef, ast.ClassDef)):
                    out.append(st)
                    continue
                pre = []
                for call in [c for c in ast.walk(st) if isinstance(c, ast.Call) and (dotted(c.func) or "").split(".")[-1] == "partial" and c.args]:
                    # only partials directly in this statement (not inside nested defs)
                    h = target_of(f, call.args[0])
                    if h is None or isinstance(h.node, ast.Lambda) or not h.name.startswith("_") or (h.name.startswith("__") and h.name.endswith("__")) or h.name in KNOWN_PRIVATE:
                        continue
                    a = h.node.args
                    if a.vararg or a.kwarg or any(isinstance(x, ast.Starred) for x in call.args) or any(k.arg is None for k in call.keywords):
                        continue
                    params = list(a.posonlyargs + a.args)
                    is_method = isinstance(call.args[0], ast.Attribute) and h.cls is not None and "staticmethod" not in h.decorators
                    if is_method:
                        params = params[1:]
                    bound_pos = call.args[1:]
                    if len(bound_pos) > len(params):
                        continue
                    uid[0] += 1
                    fixed: list[ast.expr] = []
                    for v in bound_pos:
                        if isinstance(v, (ast.Name, ast.Constant)) or (isinstance(v, ast.Attribute) and all(isinstance(x, (ast.Attribute, ast.Name, ast.Load)) for x in ast.walk(v))):
                            fixed.append(copy.deepcopy(v))
                        else:
                            tmp = f"bound{len(fixed)}__{h.name.strip('_')}{uid[0]}"
                            pre.append(ast.Assign(targets=[ast.Name(id=tmp, ctx=ast.Store())], value=copy.deepcopy(v)))
                            fixed.append(ast.Name(id=tmp, ctx=ast.Load()))
                    kw_fixed = {}
                    for k in call.keywords:
                        v = k.value
                        if isinstance(v, (ast.Name, ast.Constant)) or (isinstance(v, ast.Attribute) and all(isinstance(x, (ast.Attribute, ast.Name, ast.Load)) for x in ast.walk(v))):
                            kw_fixed[k.arg] = copy.deepcopy(v)
                        else:
                            tmp = f"bound_{k.arg}__{h.name.strip('_')}{uid[0]}"
                            pre.append(ast.Assign(targets=[ast.Name(id=tmp, ctx=ast.Store())], value=copy.deepcopy(v)))
                            kw_fixed[k.arg] = ast.Name(id=tmp, ctx=ast.Load())
                    rest = [p_ for p_ in params[len(bound_pos):] if p_.arg not in kw_fixed]
                    n_def = len(a.defaults)
                    defaults_of = {p_.arg: d for p_, d in zip((a.posonlyargs + a.args)[len(a.posonlyargs + a.args) - n_def:], a.defaults)} if n_def else {}
                    kwonly = [p_ for p_ in a.kwonlyargs if p_.arg not in kw_fixed]
                    kw_defaults_of = {p_.arg: d for p_, d in zip(a.kwonlyargs, a.kw_defaults)}
                    # remaining positional parameters: those with defaults must stay at the end
                    new_args = ast.arguments(posonlyargs=[], args=[ast.arg(arg=p_.arg) for p_ in rest], vararg=None, kwonlyargs=[ast.arg(arg=p_.arg) for p_ in kwonly],
                                             kw_defaults=[copy.deepcopy(kw_defaults_of.get(p_.arg)) for p_ in kwonly], kwarg=None,
                                             defaults=[copy.deepcopy(defaults_of[p_.arg]) for p_ in rest if p_.arg in defaults_of])
                    if any(p_.arg not in defaults_of for p_ in rest[len(rest) - len(new_args.defaults):]) and new_args.defaults:
                        continue
                    cname = f"{h.name.strip('_')}"
                    inner_call = ast.Call(func=copy.deepcopy(call.args[0]), args=fixed + [ast.Name(id=p_.arg, ctx=ast.Load()) for p_ in rest],
                                          keywords=[ast.keyword(arg=k, value=v) for k, v in kw_fixed.items()] + [ast.keyword(arg=p_.arg, value=ast.Name(id=p_.arg, ctx=ast.Load())) for p_ in kwonly])
                    ret = ast.Return(value=ast.Await(value=inner_call) if h.is_async else inner_call)
                    cls_ = ast.AsyncFunctionDef if h.is_async else ast.FunctionDef
                    fd = cls_(name=cname, args=new_args, body=[ret], decorator_list=[], returns=None, type_comment=None)
                    if hasattr(fd, "type_params"):
                        fd.type_params = []
                    pre.append(fd)
                    # replace the partial(...) expression by the closure's name
                    class R(ast.NodeTransformer):
                        def visit_Call(self, node):
                            if node is call:
                                return ast.Name(id=cname, ctx=ast.Load())
                            self.generic_visit(node)
                            return node

                        def visit_FunctionDef(self, node):
                            return node

                        visit_AsyncFunctionDef = visit_FunctionDef
                        visit_Lambda = visit_FunctionDef

                    R().visit(st)
                    done.append(f"{f.short()}: partial({unparse(call.args[0])}, ...) -> closure {cname}")
                    changed = True
                for x in pre:
                    ast.copy_location(x, st)
                    ast.fix_missing_locations(x)
                for fld in ("body", "orelse", "finalbody"):
                    blk = getattr(st, fld, None)
                    if isinstance(blk, list) and blk and isinstance(blk[0], ast.stmt):
                        setattr(st, fld, process(blk))
                for hnd in getattr(st, "handlers", []) or []:
                    hnd.body = process(hnd.body)
                out.extend(pre)
                out.append(st)
            return out

        f.node.body = process(f.node.body)
        if changed:
            ast.fix_missing_locations(f.node)
    return done
