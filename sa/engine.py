"""Rule-running context: obligations, findings, evidence."""
from __future__ import annotations

import ast
import json
import os
import re
import time
from dataclasses import dataclass, field

from .cfg import Node, build_cfg, register_program_exceptions
from .model import REPO, AnalysisError, FuncInfo, Program, unparse
from .resolve import Resolver

VERIF = os.path.dirname(os.path.dirname(os.path.abspath(__file__)))


def norm(text: str) -> str:
    """Normalised construct text: whitespace-insensitive, so that re-formatting does not change keys."""
    return re.sub(r"\s+", " ", text).strip()


@dataclass
class Finding:
    prop: str
    rule: str
    func: str  # qualified function / class / module the construct lives in
    construct: str  # normalised construct (statement / expression text or symbolic key)
    message: str
    where: str = ""  # file:line
    detail: dict = field(default_factory=dict)

    def key(self) -> tuple:
        return (self.prop, self.rule, self.func, self.construct)

    def slug(self) -> str:
        s = re.sub(r"[^A-Za-z0-9_.-]+", "_", f"{self.rule}-{self.func.split('.')[-1]}-{self.construct}")[:100]
        return s


@dataclass
class Obligation:
    rule: str
    instance: str
    ok: bool
    detail: str
    nontrivial: bool = True


class Ctx:
    def __init__(self, prop: str, tier: str = "quick", repo: str = REPO) -> None:
        self.prop = prop
        self.tier = tier
        self.repo = repo
        self.t0 = time.time()
        self.notes: list[str] = []
        self.prog = Program(repo)
        from .model import canonicalise_private_attributes, canonicalise_private_helpers, fold_constants

        from .model import fold_optional_injection

        self.folded_injection = fold_optional_injection(self.prog)
        self.folded_constants = fold_constants(self.prog)
        from .model import canonicalise_private_params, inline_attribute_aliases

        self.inlined_aliases = inline_attribute_aliases(self.prog)
        self.renamed_params = canonicalise_private_params(self.prog)
        self.renamed_helpers = dict(getattr(self.prog, "renamed_roles", {}))
        self.renamed_helpers.update(canonicalise_private_helpers(self.prog))
        self.renamed_helpers.update(canonicalise_private_attributes(self.prog))
        register_program_exceptions(self.prog)
        self.res = Resolver(self.prog)
        from . import flow as _flow

        _res = self.res

        def _pred(func, call):
            return [c for c in _res.callees(func, call, record=False) if c.cls is None or (func.cls is not None and c.cls.qualname == func.cls.qualname)]

        _flow.PREDICATE_RESOLVER = _pred
        self.findings: list[Finding] = []
        self.obligations: list[Obligation] = []
        self.samples: list[dict] = []
        self.functions_analysed: set[str] = set()
        if self.renamed_helpers:
            self.notes.append("private helpers recognised by role under a new name: " + ", ".join(f"{k} <- {v}" for k, v in sorted(self.renamed_helpers.items())))
        if self.folded_constants:
            self.notes.append("constants bound once to a literal, read as that literal: " + ", ".join(self.folded_constants))
        if self.folded_injection:
            self.notes.append("optional parameters nobody passes, read as their default: " + ", ".join(self.folded_injection))
        if self.inlined_aliases:
            self.notes.append("local aliases of attribute chains read as the chain: " + ", ".join(self.inlined_aliases))
        if self.renamed_params:
            self.notes.append("parameters of private helpers read under the name every caller passes: " + ", ".join(self.renamed_params))
        if self.prog.relocated:
            self.notes.append("anchor classes found in another module than expected (indexed under their canonical name): " + ", ".join(f"{v} <- {k}" for k, v in self.prog.relocated.items()))
        if self.prog.flattened:
            self.notes.append("methods inherited from private bases / mixins, indexed on the class itself: " + ", ".join(sorted(set(self.prog.flattened))[:40]))
        if self.prog.partial_closures:
            self.notes.append("partial(<new private callable>, ...) read as a closure: " + "; ".join(self.prog.partial_closures[:10]))
        if self.prog.inlined_helpers:
            self.notes.append("calls of newly extracted private helpers read as the helper's body: " + ", ".join(sorted(set(self.prog.inlined_helpers))[:40]))
        if self.prog.unrolled:
            self.notes.append("loops over literal tables read as unrolled ladders: " + ", ".join(self.prog.unrolled))
        self.depth = 4 if tier == "quick" else 6
        self.loop_bound = 2 if tier == "quick" else 3

    # -------------------------------------------------------------- helpers for rules
    def func(self, qualname: str) -> FuncInfo:
        f = self.prog.func(qualname)
        self.functions_analysed.add(f.qualname)
        return f

    def cfg(self, f: FuncInfo | str):
        if isinstance(f, str):
            f = self.func(f)
        self.functions_analysed.add(f.qualname)
        return build_cfg(f)

    def icfg(self, f: FuncInfo | str, exclude: tuple[str, ...] = (), depth: int = 3, include_async: bool = True, substitute: bool = False):
        """f's CFG with the private helpers of its own class / module inlined (helper extraction tolerant). Cached."""
        from . import flow

        if isinstance(f, str):
            f = self.func(f)
        key = (f.qualname, exclude, depth, include_async, substitute)
        cache = self.__dict__.setdefault("_icfg_cache", {})
        if key in cache:
            return cache[key]
        from .rules.common import helper_callees

        helpers = {h.qualname for h in helper_callees(self, f, depth)}

        def policy(n, cal):
            return cal.qualname in helpers and cal.name not in exclude and (include_async or not cal.is_async)

        g = flow.inline(f, self.res, depth, policy, substitute=substitute)
        cache[key] = g
        self.functions_analysed.add(f.qualname)
        return g

    # ---- reuse of a sibling property's rules under this property's own rule id
    _rule_override: str | None = None

    def as_rule(self, rule: str):
        """Context manager: every obligation / finding recorded inside is filed under `rule` (a sibling property's check is reused because the
        mechanism is shared; the reason it matters for this property is given where the reuse happens)."""
        import contextlib

        @contextlib.contextmanager
        def cm():
            prev, self._rule_override = self._rule_override, rule
            try:
                yield
            finally:
                self._rule_override = prev
        return cm()

    def ok(self, rule: str, instance: str, detail: str = "", nontrivial: bool = True, sample: dict | None = None) -> None:
        rule = self._rule_override or rule
        self.obligations.append(Obligation(rule, instance, True, detail, nontrivial))
        if sample is not None or len(self.samples) < 40:
            self.samples.append({"rule": rule, "instance": instance, "verdict": "holds", "detail": detail[:600], **(sample or {})})

    def fail(self, rule: str, func: FuncInfo | str, construct: str, message: str, node: Node | ast.AST | None = None,
             instance: str | None = None, **detail) -> None:
        rule = self._rule_override or rule
        fq = func.qualname if isinstance(func, FuncInfo) else func
        where = ""
        if isinstance(func, FuncInfo):
            line = None
            if isinstance(node, Node):
                line = node.lineno
                where = f"{node.func.relpath}:{line}"
            elif node is not None:
                line = getattr(node, "lineno", None)
                where = f"{func.relpath}:{line}"
            else:
                where = f"{func.relpath}:{func.lineno}"
        f = Finding(self.prop, rule, fq, norm(construct), message, where, detail)
        if f.key() in {x.key() for x in self.findings}:
            return
        self.findings.append(f)
        self.obligations.append(Obligation(rule, instance or f"{fq}: {norm(construct)[:80]}", False, message, True))
        self.samples.append({"rule": rule, "instance": instance or fq, "verdict": "VIOLATED", "where": where,
                             "construct": norm(construct)[:300], "detail": message[:600]})

    def check(self, cond: bool, rule: str, func, construct: str, ok_detail: str, fail_message: str, node=None,
              instance: str | None = None, **detail) -> bool:
        if cond:
            fq = func.qualname if isinstance(func, FuncInfo) else func
            self.ok(rule, instance or f"{fq}: {norm(construct)[:80]}", ok_detail)
        else:
            self.fail(rule, func, construct, fail_message, node=node, instance=instance, **detail)
        return cond

    def require(self, cond: bool, what: str) -> None:
        """Structural precondition of a rule (an anchor the rule needs). Absent -> analysis error, never a silent pass."""
        if not cond:
            raise AnalysisError(what)

    def floor(self, rule: str, n: int, minimum: int, what: str) -> None:
        if n < minimum:
            raise AnalysisError(f"{rule}: only {n} {what} found, expected at least {minimum} (anchor vanished?)")

    def note(self, s: str) -> None:
        self.notes.append(s)


# ----------------------------------------------------------------------------- known findings
def load_known() -> dict:
    path = os.path.join(VERIF, "known_findings.json")
    if not os.path.exists(path):
        return {"known": [], "fixed": []}
    with open(path, encoding="utf-8") as fh:
        return json.load(fh)


def known_keys(prop: str) -> dict[tuple, dict]:
    out = {}
    for k in load_known().get("known", []):
        if k["property"] == prop:
            out[(k["property"], k["rule"], k["function"], norm(k["construct"]))] = k
    return out
